"""C01 hunt 1: a bool handed to the group address constructor is taken as an address
that does not survive the text round trip in FREE notation."""

import pytest

from xknx import XKNX
from xknx.devices import Switch
from xknx.exceptions import CouldNotParseAddress
from xknx.telegram.address import (
    GroupAddress,
    GroupAddressType,
    parse_device_group_address,
)


@pytest.fixture(autouse=True)
def _restore_format():
    saved = GroupAddress.address_format
    yield
    GroupAddress.address_format = saved


def _roundtrip_or_reject(ctor, value, fmt):
    """Property C01, third sentence, for a single constructor input."""
    GroupAddress.address_format = fmt
    try:
        address = ctor(value)
    except CouldNotParseAddress:
        return  # rejected with the address parse error: allowed
    text = str(address)
    try:
        again = ctor(text)
    except CouldNotParseAddress as err:
        pytest.fail(
            f"{ctor.__name__}({value!r}) was accepted (raw={address.raw!r}) but in "
            f"{fmt.name} notation it renders to {text!r}, which the same constructor "
            f"rejects ({err}). The property requires that an accepted input yields an "
            "address that renders and re-parses to itself, or that the input is "
            "rejected with CouldNotParseAddress."
        )
    assert again == address and str(again) == text, (
        f"{ctor.__name__}({value!r}) renders to {text!r} in {fmt.name} notation which "
        f"re-parses to {again!r} (renders {str(again)!r}); the property requires the "
        "same address back"
    )


@pytest.mark.parametrize("fmt", list(GroupAddressType))
@pytest.mark.parametrize("value", [True, False])
@pytest.mark.parametrize("ctor", [GroupAddress, parse_device_group_address])
def test_bool_is_rejected_or_round_trips(ctor, value, fmt):
    _roundtrip_or_reject(ctor, value, fmt)


def test_device_configured_with_yaml_true_free_notation():
    """Same thing through the public API: XKNX(address_format=FREE) + device config."""
    xknx = XKNX(address_format=GroupAddressType.FREE)
    try:
        switch = Switch(xknx, "light", group_address=True)  # YAML `address: on`
    except CouldNotParseAddress:
        return
    (address,) = switch.switch.group_addresses()
    text = str(address)
    try:
        assert GroupAddress(text) == address
    except CouldNotParseAddress as err:
        pytest.fail(
            f"Switch(group_address=True) was accepted; its address renders to {text!r} "
            f"(repr {address!r}) in FREE notation, which does not parse back ({err}); "
            "the property requires render -> parse to give the same address"
        )
