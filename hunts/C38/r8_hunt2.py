"""C38 hunt 2: re-assigning an address to a type xknx can not decode keeps the previous decoder."""

import asyncio

from xknx import XKNX
from xknx.dpt import DPTArray
from xknx.telegram import GroupAddress, Telegram, TelegramDirection
from xknx.telegram.apci import GroupValueWrite

GA = "1/2/3"


def test_reassigned_to_unknown_dpt_is_not_decoded_by_previous_type() -> None:
    """A telegram must carry the value of the type configured for its address - or nothing."""

    async def run() -> object:
        xknx = XKNX()
        received = []
        xknx.telegram_queue.register_telegram_received_cb(received.append)
        # project import 1: 1/2/3 is a temperature
        xknx.group_address_dpt.set({GA: {"main": 9, "sub": 1}})
        # project import 2: 1/2/3 was changed to DPT 15.000 (access data) - a type xknx has no transcoder for
        xknx.group_address_dpt.set({GA: {"main": 15, "sub": 0}, "1/2/4": {"main": 5, "sub": 1}})
        assert xknx.group_address_dpt.get(GroupAddress("1/2/4")) is not None  # the table was applied
        await xknx.telegram_queue.start()
        xknx.telegrams.put_nowait(
            Telegram(
                destination_address=GroupAddress(GA),
                direction=TelegramDirection.INCOMING,
                payload=GroupValueWrite(DPTArray((0x0C, 0x1A))),
            )
        )
        await xknx.telegrams.join()
        await xknx.telegram_queue.stop()
        return received[0].decoded_data

    decoded = asyncio.run(run())
    assert decoded is None, (
        f"observed: {GA} is configured as DPT 15.000, yet the telegram carries '{decoded}' - the value of the "
        "type (9.001) an earlier table assigned; GroupAddressDPT.set() skips the unknown type without removing "
        "the old entry. C38 requires a telegram to a configured address to carry the value that type decodes "
        "(here: none, as the type is unknown), and a mismatching/invalid table to leave no trace."
    )
