"""C38 hunt 1: a Telegram object that passes the telegram queue a second time keeps its first decoded value."""

import asyncio
from unittest.mock import AsyncMock, MagicMock

from xknx import XKNX
from xknx.devices import Sensor
from xknx.dpt import DPTArray, DPTTemperature
from xknx.telegram import GroupAddress, Telegram, TelegramDirection
from xknx.telegram.apci import GroupValueWrite

GA = "1/2/3"


async def _history(ga_dpt: dict | None) -> tuple[float, float, object]:
    """Send one Telegram object twice - with 21.0 degC, then with 25.0 degC."""
    xknx = XKNX()
    xknx.cemi_handler = MagicMock(send_telegram=AsyncMock())
    temperature = Sensor(xknx, "temp", group_address_state=GA, value_type="temperature")
    raw = Sensor(xknx, "raw", group_address_state=GA, value_type="2byte_unsigned")
    xknx.devices.async_add(temperature)
    xknx.devices.async_add(raw)
    if ga_dpt is not None:
        xknx.group_address_dpt.set(ga_dpt)
    await xknx.telegram_queue.start()

    telegram = Telegram(
        destination_address=GroupAddress(GA),
        direction=TelegramDirection.INCOMING,
        payload=GroupValueWrite(DPTTemperature.to_knx(21.0)),
    )
    xknx.telegrams.put_nowait(telegram)
    await xknx.telegrams.join()
    assert temperature.resolve_state() == 21.0

    # the application re-uses its Telegram object for the next value
    # (test/core_tests/group_address_dpt_test.py queues one object several times too)
    telegram.payload = GroupValueWrite(DPTTemperature.to_knx(25.0))
    xknx.telegrams.put_nowait(telegram)
    await xknx.telegrams.join()
    await xknx.telegram_queue.stop()
    return (
        temperature.resolve_state(),
        raw.resolve_state(),
        telegram.decoded_data.value if telegram.decoded_data else None,
    )


def test_requeued_telegram_same_state_with_and_without_ga_dpt() -> None:
    """Devices must end in the same state with or without a GA-DPT table."""
    plain = asyncio.run(_history(None))
    configured = asyncio.run(_history({GA: "temperature"}))
    assert plain[0] == 25.0
    assert configured[:2] == plain[:2], (
        f"observed: with {{'{GA}': 'temperature'}} configured the temperature Sensor ends at "
        f"{configured[0]} and the 2byte_unsigned Sensor on the same address at {configured[1]}, the telegram "
        f"still carries decoded value {configured[2]}; without configuration they end at {plain[0]} / {plain[1]}. "
        "C38 requires devices to end in the same state whether or not a GA DPT is configured, and the telegram "
        "to carry the value the configured type decodes from its payload (25.0)."
    )


def test_requeued_telegram_after_table_change_carries_configured_type() -> None:
    """After reconfiguring the address, the telegram must carry the value of the configured type."""

    async def run() -> tuple[str, object]:
        xknx = XKNX()
        xknx.group_address_dpt.set({GA: "5.001"})
        await xknx.telegram_queue.start()
        telegram = Telegram(
            destination_address=GroupAddress(GA),
            direction=TelegramDirection.INCOMING,
            payload=GroupValueWrite(DPTArray((0x7F,))),
        )
        xknx.telegrams.put_nowait(telegram)
        await xknx.telegrams.join()
        xknx.group_address_dpt.clear()
        xknx.group_address_dpt.set({GA: "5.010"})
        xknx.telegrams.put_nowait(telegram)
        await xknx.telegrams.join()
        await xknx.telegram_queue.stop()
        assert telegram.decoded_data is not None
        return telegram.decoded_data.transcoder.__name__, telegram.decoded_data.value

    name, value = asyncio.run(run())
    assert (name, value) == ("DPTValue1Ucount", 127), (
        f"observed: address {GA} is configured as 5.010 (pulses) but the telegram delivered to callbacks and "
        f"devices carries {value} decoded by {name} from the configuration that was cleared before; C38 requires "
        "telegrams to a configured address to carry the value that (currently configured) type decodes: 127."
    )
