"""
C38 hunt 1: a Telegram object that passes the telegram queue a second time keeps the
eagerly decoded value of its first pass.

`GroupAddressDPT.set_decoded_data()` starts with

    if telegram.decoded_data is not None:
        return

so the decoded value is never recomputed - neither when the payload of the telegram
changed, nor when the group address / DPT table changed (`set()` / `clear()`).
`RemoteValue.process()` trusts `telegram.decoded_data.value` when the transcoder is its
own `dpt_class`, so a device ends up with a value the payload on the wire does not carry.

Run: /venv/bin/python -m pytest -q -p no:cacheprovider hunt1.py
"""

from __future__ import annotations

from unittest.mock import AsyncMock, Mock, patch

from xknx import XKNX
from xknx.devices import Sensor
from xknx.dpt import DPTHumidity, DPTTemperature
from xknx.telegram import GroupAddress, Telegram, TelegramDirection
from xknx.telegram.apci import GroupValueWrite

GA = GroupAddress("1/2/3")


def _xknx() -> XKNX:
    """XKNX without a KNX/IP interface (mock only at the network boundary)."""
    mock = Mock()
    mock.start = AsyncMock()
    mock.stop = AsyncMock()
    mock.send_cemi = AsyncMock()
    with patch("xknx.xknx.knx_interface_factory", return_value=mock):
        return XKNX()


async def _sensor_after_history(ga_dpt_table: dict | None) -> tuple[float, object]:
    """
    Send 21.0 degC, then 25.0 degC to a temperature Sensor, using ONE Telegram object
    whose payload is replaced in between (Telegram is a plain mutable dataclass).

    Return (sensor value, last payload seen by the remote value).
    """
    xknx = _xknx()
    sensor = Sensor(xknx, "temp", group_address_state=GA, value_type="temperature")
    xknx.devices.async_add(sensor)
    if ga_dpt_table is not None:
        xknx.group_address_dpt.set(ga_dpt_table)

    await xknx.telegram_queue.start()
    telegram = Telegram(
        destination_address=GA,
        direction=TelegramDirection.INCOMING,
        payload=GroupValueWrite(DPTTemperature.to_knx(21.0)),
    )
    xknx.telegrams.put_nowait(telegram)
    await xknx.telegrams.join()
    assert sensor.resolve_state() == 21.0  # first pass is fine in every configuration

    telegram.payload = GroupValueWrite(DPTTemperature.to_knx(25.0))
    xknx.telegrams.put_nowait(telegram)
    await xknx.telegrams.join()
    await xknx.telegram_queue.stop()
    return sensor.resolve_state(), sensor.sensor_value.last_payload


async def test_device_state_must_not_depend_on_ga_dpt_table() -> None:
    """Same telegram history with / without a (matching) GA-DPT entry."""
    value_plain, payload_plain = await _sensor_after_history(None)
    value_mismatch, payload_mismatch = await _sensor_after_history({GA: "humidity"})
    value_match, payload_match = await _sensor_after_history({GA: "temperature"})

    assert value_plain == 25.0
    assert payload_plain == DPTTemperature.to_knx(25.0)
    assert (value_mismatch, payload_mismatch) == (value_plain, payload_plain)
    assert (value_match, payload_match) == (value_plain, payload_plain), (
        f"C38 violated: after the telegrams 21.0 degC, 25.0 degC the Sensor holds value "
        f"{value_match} (last payload {payload_match}) when 1/2/3 is configured as "
        f"'temperature' in xknx.group_address_dpt, but {value_plain} "
        f"(last payload {payload_plain}) without such a configuration. The property "
        f"requires the same device state whether or not the configuration exists; the "
        f"value comes from the stale telegram.decoded_data of the first queue pass."
    )


async def test_telegram_carries_value_of_configured_type_after_table_change() -> None:
    """Re-queue an unchanged telegram after the table was changed / cleared."""
    xknx = _xknx()
    received: list[Telegram] = []
    xknx.telegram_queue.register_telegram_received_cb(received.append)
    telegram = Telegram(
        destination_address=GA,
        direction=TelegramDirection.INCOMING,
        payload=GroupValueWrite(DPTTemperature.to_knx(21.0)),
    )
    await xknx.telegram_queue.start()

    xknx.group_address_dpt.set({GA: "temperature"})
    xknx.telegrams.put_nowait(telegram)
    await xknx.telegrams.join()
    assert received[-1].decoded_data is not None
    assert received[-1].decoded_data.transcoder is DPTTemperature
    assert received[-1].decoded_data.value == 21.0

    # project re-import: 1/2/3 is a humidity now
    xknx.group_address_dpt.clear()
    xknx.group_address_dpt.set({GA: "humidity"})
    assert xknx.group_address_dpt.get(GA) is DPTHumidity
    xknx.telegrams.put_nowait(telegram)
    await xknx.telegrams.join()
    decoded = received[-1].decoded_data
    await xknx.telegram_queue.stop()

    assert decoded is not None and decoded.transcoder is DPTHumidity, (
        f"C38 violated: group address 1/2/3 is configured as DPTHumidity (9.007), the "
        f"property requires the telegram to carry the value that type decodes, but the "
        f"telegram handed to telegram_received_cb carries '{decoded}' - the result of "
        f"the previous table (set_decoded_data() returns early when decoded_data is set)."
    )
