"""
C38 hunt 2 (low realism, robustness of *invalid* tables): an invalid DPT entry is meant
to be skipped by `GroupAddressDPT.set()` (see test_set_invalid: "No transcoder found
for DPTs" debug log, nothing stored). For two kinds of invalid entries
`DPTBase.parse_transcoder()` raises instead of returning None:

  * a string that is `str.isdigit()` but not `int()`-parsable, e.g. "²" or "5²"
    (superscript digits)                                   -> ValueError
  * a mapping with a non finite main / sub number, {"main": float("inf")}
                                                          -> OverflowError

The exception aborts `set()` in the middle of the table: every valid entry that follows
the invalid one in the mapping is silently not configured, so telegrams to those group
addresses do not carry the decoded value.

Run: /venv/bin/python -m pytest -q -p no:cacheprovider hunt2.py
"""

from __future__ import annotations

from typing import Any
from unittest.mock import AsyncMock, Mock, patch

import pytest

from xknx import XKNX
from xknx.dpt import DPTTemperature
from xknx.telegram import GroupAddress, Telegram, TelegramDirection
from xknx.telegram.apci import GroupValueWrite


def _xknx() -> XKNX:
    """XKNX without a KNX/IP interface (mock only at the network boundary)."""
    mock = Mock()
    mock.start = AsyncMock()
    mock.stop = AsyncMock()
    mock.send_cemi = AsyncMock()
    with patch("xknx.xknx.knx_interface_factory", return_value=mock):
        return XKNX()


@pytest.mark.parametrize(
    "invalid_dpt",
    ["²", "5²", {"main": float("inf")}, {"main": 9, "sub": float("inf")}],
)
async def test_invalid_entry_must_not_drop_the_valid_ones(invalid_dpt: Any) -> None:
    """A table with one invalid and one valid entry."""
    xknx = _xknx()
    received: list[Telegram] = []
    xknx.telegram_queue.register_telegram_received_cb(received.append)
    table = {
        "1/2/3": invalid_dpt,  # invalid - to be ignored like "invalid" / {"main": None}
        "1/2/4": "temperature",
    }
    raised: Exception | None = None
    try:
        xknx.group_address_dpt.set(table)
    except Exception as err:  # pylint: disable=broad-except
        raised = err  # an application logging the error and carrying on

    await xknx.telegram_queue.start()
    xknx.telegrams.put_nowait(
        Telegram(
            destination_address=GroupAddress("1/2/4"),
            direction=TelegramDirection.INCOMING,
            payload=GroupValueWrite(DPTTemperature.to_knx(21.0)),
        )
    )
    await xknx.telegrams.join()
    await xknx.telegram_queue.stop()

    decoded = received[-1].decoded_data
    assert raised is None and decoded is not None and decoded.value == 21.0, (
        f"C38 violated for the table {table!r}: 1/2/4 is configured as 'temperature', "
        f"the property requires telegrams to it to carry the decoded value (21.0), "
        f"observed decoded_data={decoded!r}; GroupAddressDPT.set() raised {raised!r} "
        f"for the invalid entry of 1/2/3 instead of skipping it, and dropped the rest "
        f"of the table."
    )
