"""C38 hunt 3: with a GA-DPT table, devices on one address share a single mutable value object."""

import asyncio

from xknx import XKNX
from xknx.devices import Light
from xknx.dpt import DPTArray
from xknx.dpt.dpt_232 import RGBColor
from xknx.telegram import GroupAddress, Telegram, TelegramDirection
from xknx.telegram.apci import GroupValueWrite

GA = "1/2/3"


async def _history(ga_dpt: dict | None) -> tuple[RGBColor, bool]:
    xknx = XKNX()
    light1 = Light(xknx, "l1", group_address_switch="1/0/1", group_address_color="1/0/2", group_address_color_state=GA)
    light2 = Light(xknx, "l2", group_address_switch="1/0/3", group_address_color="1/0/4", group_address_color_state=GA)
    xknx.devices.async_add(light1)
    xknx.devices.async_add(light2)
    if ga_dpt is not None:
        xknx.group_address_dpt.set(ga_dpt)
    await xknx.telegram_queue.start()
    xknx.telegrams.put_nowait(
        Telegram(
            destination_address=GroupAddress(GA),
            direction=TelegramDirection.INCOMING,
            payload=GroupValueWrite(DPTArray((10, 20, 30))),
        )
    )
    await xknx.telegrams.join()
    await xknx.telegram_queue.stop()
    shared = light1.color.value is light2.color.value
    # application code adjusts the colour object it got from light1 (RGBColor is a plain mutable dataclass)
    light1.color.value.red = 255
    return light2.color.value, shared


def test_devices_do_not_share_value_objects() -> None:
    """State of light2 must not depend on the GA-DPT table."""
    plain, plain_shared = asyncio.run(_history(None))
    configured, configured_shared = asyncio.run(_history({GA: "232.600"}))
    assert plain == RGBColor(10, 20, 30) and not plain_shared
    assert configured == plain, (
        f"observed: with {{'{GA}': '232.600'}} configured light1 and light2 hold the very same RGBColor object "
        f"(shared={configured_shared}); changing light1's colour object turned light2 into {configured}, without "
        f"configuration light2 stays {plain}. C38 requires devices to end in the same state whether or not a "
        "GA DPT is configured."
    )
