"""C09 hunt 3: DPT 14.xxx declares an unbounded range but refuses finite values.

``DPT4ByteFloat.value_min/value_max`` are -inf/+inf (published as "no bound"),
and to_knx() does accept +-inf themselves - yet every finite value beyond the
IEEE-754 single range (|x| >= 3.4028235677973366e38) is refused.
"""

import math

import pytest

import xknx
from xknx.dpt.dpt_14 import DPT4ByteFloat, DPTPower
from xknx.exceptions import ConversionError

assert xknx.__file__.startswith("/tmp/hunt_C09/"), xknx.__file__


@pytest.mark.parametrize("value", [1e39, -1e39, 3.4028235677973366e38, 10**40])
@pytest.mark.parametrize("dpt", [DPT4ByteFloat, DPTPower])
def test_accepted_iff_inside_declared_range(
    dpt: type[DPT4ByteFloat], value: float
) -> None:
    """Acceptance must agree with the declared range - for finite values too."""
    assert math.isfinite(value)
    in_declared_range = dpt.value_min <= value <= dpt.value_max
    try:
        payload = dpt.to_knx(value)
    except ConversionError as err:
        accepted, outcome = False, repr(err)
    else:
        accepted, outcome = True, repr(payload)
        assert len(payload.value) == dpt.payload_length
    assert accepted == in_declared_range, (
        f"{dpt.__name__} declares the range {dpt.value_min}..{dpt.value_max}, "
        f"{value!r} is {'inside' if in_declared_range else 'outside'} of it, but "
        f"to_knx() gave {outcome}. The property requires every value between the "
        "declared minimum and maximum to be accepted and every value outside to be "
        "rejected - the declared range and the accepted range have to agree "
        "(the real limits are +-3.4028234663852886e38)."
    )
