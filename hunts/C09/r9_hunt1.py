"""C09 hunt 1: DPT 14.xxx decodes float32-exact values more than one step away.

DPT4ByteFloat.from_knx() rounds the unpacked IEEE-754 single to 7 significant
decimal digits.  float32 carries 24 bits (7.22 digits), so for many values the
decimal grid is coarser than the binary one - and much coarser than the
declared ``resolution = 0.0000001``.
"""

import struct

import pytest

import xknx
from xknx.dpt import DPTArray
from xknx.dpt.dpt_14 import DPT4ByteFloat
from xknx.dpt.dpt_14 import DPTPower

assert xknx.__file__.startswith("/tmp/hunt_C09/"), xknx.__file__


def _f32(value: float) -> float:
    """Return the nearest IEEE-754 single (what is on the bus)."""
    return struct.unpack(">f", struct.pack(">f", value))[0]


def _ulp32(value: float) -> float:
    """Return the distance to the next representable single."""
    raw = struct.unpack(">I", struct.pack(">f", abs(value)))[0]
    return struct.unpack(">f", struct.pack(">I", raw + 1))[0] - abs(_f32(value))


@pytest.mark.parametrize(
    "value",
    [
        12345678,  # integer, exactly representable (float32 step here is 1)
        16777216,  # 2**24, exactly representable (step 2)
        1.2345675,  # step 1.2e-7, declared resolution 1e-7
    ],
)
@pytest.mark.parametrize("dpt", [DPT4ByteFloat, DPTPower])
def test_in_range_value_decodes_within_one_step(
    dpt: type[DPT4ByteFloat], value: float
) -> None:
    """An accepted value must come back within one representable step."""
    payload = dpt.to_knx(value)
    assert isinstance(payload, DPTArray)
    assert len(payload.value) == dpt.payload_length == 4
    on_bus = _f32(value)
    step = _ulp32(value)
    decoded = dpt.from_knx(payload)
    error = abs(decoded - value)
    assert error < step, (
        f"{dpt.__name__}: to_knx({value!r}) put {on_bus!r} on the bus (float32 step "
        f"there is {step!r}, declared resolution {dpt.resolution!r}), but from_knx() "
        f"returned {decoded!r} - off by {error!r}. The property requires the decoded "
        "value to differ from the input by less than one resolution step of the "
        "nearest representable value."
    )
