"""C09 hunt 3: float based encoders leak OverflowError for huge integers.

DPTScaling / DPTAngle (5.001 / 5.003) and every DPT 9.x class convert with
float(value) inside `try: ... except ValueError`.  float() of an int beyond
1.8e308 raises OverflowError, which escapes to_knx() instead of the
ConversionError every other numeric DPT (5.010, 7, 8, 12, 13, 14, 29) raises
for the same input.
"""

import pytest

from xknx.dpt import (
    DPT2ByteFloat,
    DPT2ByteSigned,
    DPT4ByteFloat,
    DPTAngle,
    DPTHumidity,
    DPTScaling,
    DPTTemperature,
    DPTValue1Ucount,
)
from xknx.dpt.dpt import DPTNumeric
from xknx.exceptions import ConversionError

HUGE = 10**400


@pytest.mark.parametrize(
    "dpt", [DPTValue1Ucount, DPT2ByteSigned, DPT4ByteFloat], ids=lambda d: d.__name__
)
def test_reference_types_raise_conversion_error(dpt: type[DPTNumeric]) -> None:
    """Sibling encoders reject the same value with ConversionError."""
    with pytest.raises(ConversionError):
        dpt.to_knx(HUGE)


@pytest.mark.parametrize(
    "dpt",
    [DPTScaling, DPTAngle, DPT2ByteFloat, DPTTemperature, DPTHumidity],
    ids=lambda d: d.__name__,
)
@pytest.mark.parametrize("value", [HUGE, -HUGE], ids=["+1e400", "-1e400"])
def test_huge_int_is_conversion_error(dpt: type[DPTNumeric], value: int) -> None:
    """A value far outside the declared range must be a ConversionError."""
    try:
        payload = dpt.to_knx(value)
    except ConversionError:
        return
    except Exception as err:  # noqa: BLE001
        pytest.fail(
            f"{dpt.dpt_name()}.to_knx(10**400 sign {'+' if value > 0 else '-'}) raised "
            f"{type(err).__name__}: {err} - the property requires values outside the "
            f"declared range {dpt.value_min}..{dpt.value_max} to be rejected with a "
            "ConversionError."
        )
    pytest.fail(f"{dpt.dpt_name()} accepted an out-of-range value as {payload}")
