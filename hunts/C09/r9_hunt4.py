"""C09 hunt 4: fractions beyond a limit slip through for non-``float`` reals.

The integer datapoints (5, 6, 7, 12, 13, 17, 29) truncate with ``int(value)``
and re-check the untruncated value only ``if isinstance(value, float)``.  Any
other real number type (decimal.Decimal, fractions.Fraction, numpy.float32 ...)
beyond a limit is truncated into the range instead of being rejected; the
sibling datapoints 8, 9 and 5.001 (which use ``float(value)``) reject the same
values.
"""

from decimal import Decimal
from fractions import Fraction

import pytest

import xknx
from xknx.dpt import (
    DPT2ByteSigned,
    DPT2ByteUnsigned,
    DPT4ByteSigned,
    DPT4ByteUnsigned,
    DPTNumeric,
    DPTSceneNumber,
    DPTSignedRelativeValue,
    DPTValue1ByteUnsigned,
)
from xknx.dpt.dpt_29 import DPT8ByteSigned
from xknx.exceptions import ConversionError

assert xknx.__file__.startswith("/tmp/hunt_C09/"), xknx.__file__


@pytest.mark.parametrize("make", [Decimal, Fraction], ids=["Decimal", "Fraction"])
@pytest.mark.parametrize(
    "dpt",
    [
        DPT2ByteSigned,  # control: uses float() - rejects
        DPTValue1ByteUnsigned,
        DPTSceneNumber,
        DPTSignedRelativeValue,
        DPT2ByteUnsigned,
        DPT4ByteUnsigned,
        DPT4ByteSigned,
        DPT8ByteSigned,
    ],
)
def test_fraction_beyond_limit_is_rejected(dpt: type[DPTNumeric], make: type) -> None:
    """value_max + 0.9 and value_min - 0.9 are outside the declared range."""
    for value in (make(dpt.value_max) + make("0.9"), make(dpt.value_min) - make("0.9")):
        assert not dpt.value_min <= value <= dpt.value_max
        # the same number as a float is refused
        if abs(value) < 2**50:
            with pytest.raises(ConversionError):
                dpt.to_knx(float(value))
        try:
            payload = dpt.to_knx(value)
        except ConversionError:
            continue
        pytest.fail(
            f"{dpt.__name__}.to_knx({value!r}) returned {payload} (decodes to "
            f"{dpt.from_knx(payload)}) although the value is outside the declared "
            f"range {dpt.value_min}..{dpt.value_max}; the property requires a "
            "ConversionError for values outside the declared range."
        )
