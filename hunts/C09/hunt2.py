"""C09 hunt 2: integer DPT encoders accept fractional values beyond the declared range.

DPT 5.x / 6.x / 7.x / 12.x / 13.x / 17.001 / 29.x truncate with int() *before*
the range check, so every value in (value_max, value_max + 1) and in
(value_min - 1, value_min) is silently clamped to the bound instead of being
rejected.  The sibling DPT 8.x (2 byte signed) checks the untruncated value
and rejects 32767.5.
"""

import math

import pytest

import xknx.dpt  # noqa: F401  (registers all DPT classes)
from xknx.dpt import DPT2ByteSigned
from xknx.dpt.dpt import DPTNumeric
from xknx.exceptions import ConversionError

INT_MAINS = (5, 6, 7, 12, 13, 17, 29)
# DPTScaling / DPTAngle are float encoders and check the float value.
CLASSES = [
    dpt
    for dpt in DPTNumeric.dpt_class_tree()
    if dpt.dpt_main_number in INT_MAINS and dpt.__name__ not in ("DPTScaling", "DPTAngle")
]


def test_reference_dpt8_rejects() -> None:
    """DPT 8 is the reference: values beyond the declared range are refused."""
    with pytest.raises(ConversionError):
        DPT2ByteSigned.to_knx(32767.5)
    with pytest.raises(ConversionError):
        DPT2ByteSigned.to_knx(-32768.5)


@pytest.mark.parametrize("dpt", CLASSES, ids=lambda d: d.__name__)
def test_fraction_beyond_range_is_rejected(dpt: type[DPTNumeric]) -> None:
    """A value outside [value_min, value_max] must raise ConversionError."""
    accepted = []
    for value in (
        dpt.value_max + 0.5,
        dpt.value_max + 0.9,
        dpt.value_min - 0.5,
        dpt.value_min - 0.9,
    ):
        if dpt.value_min <= value <= dpt.value_max:
            # 64 bit bounds: the float is not distinguishable from the bound
            continue
        assert not math.isnan(value)
        try:
            payload = dpt.to_knx(value)
        except ConversionError:
            continue
        accepted.append((value, payload, dpt.from_knx(payload)))
    assert not accepted, (
        f"{dpt.dpt_name()} declares the range {dpt.value_min}..{dpt.value_max} but "
        f"accepted out-of-range values (value, payload, decoded): {accepted}. "
        "The property requires values outside the declared range to be rejected "
        "with a ConversionError."
    )
