"""C09 hunt 1: DPT 9 sub types accept in-range values they can not decode again.

DPT 9.001/9.002/9.003/9.004/9.005/9.006/9.007/9.010/9.011/9.027/9.028 declare
value_max = 670760 (some also value_min = -670760).  Every value above
670597.12 is encoded with mantissa 2047 / exponent 15 (0x7FFF = 670760.96,
which is also the KNX "invalid data" code of DPT 9), and from_knx() of the same
class refuses that payload because 670760.96 > value_max.
"""

import pytest

from xknx.dpt import (
    DPT2ByteFloat,
    DPTArray,
    DPTHumidity,
    DPTLux,
    DPTPressure2Byte,
    DPTTemperature,
    DPTTemperatureA,
    DPTTemperatureDifference2Byte,
    DPTTemperatureF,
    DPTTime1,
    DPTTime2,
    DPTWsp,
    DPTWspKmh,
)
from xknx.exceptions import ConversionError

UPPER = [
    DPTTemperature,
    DPTTemperatureDifference2Byte,
    DPTTemperatureA,
    DPTLux,
    DPTWsp,
    DPTPressure2Byte,
    DPTHumidity,
    DPTTime1,
    DPTTime2,
    DPTTemperatureF,
    DPTWspKmh,
]
LOWER = [DPTTemperatureDifference2Byte, DPTTemperatureA, DPTTime1, DPTTime2]


def _roundtrip(dpt: type[DPT2ByteFloat], value: float) -> None:
    assert dpt.value_min <= value <= dpt.value_max  # a declared in-range value
    payload = dpt.to_knx(value)  # is accepted ...
    assert isinstance(payload, DPTArray)
    assert len(payload.value) == 2
    try:
        decoded = dpt.from_knx(payload)
    except ConversionError as err:
        pytest.fail(
            f"{dpt.dpt_name()}: in-range value {value!r} "
            f"(declared range {dpt.value_min}..{dpt.value_max}) was encoded to "
            f"{payload} but the same class refuses to decode its own payload: {err}. "
            "The property requires every in-range value to decode to a value within "
            "one resolution step of the input."
        )
    # one step at exponent 15 is 327.68
    assert abs(decoded - value) < 327.68, (
        f"{dpt.dpt_name()}: {value!r} decoded to {decoded!r}, "
        "more than one resolution step (327.68 at exponent 15) away"
    )
    assert dpt.value_min <= decoded <= dpt.value_max, (
        f"{dpt.dpt_name()}: {value!r} decoded to {decoded!r} outside the declared range"
    )


@pytest.mark.parametrize("dpt", UPPER, ids=lambda d: d.__name__)
@pytest.mark.parametrize("value", [670760, 670759.99, 670600.0])
def test_declared_maximum_roundtrips(dpt: type[DPT2ByteFloat], value: float) -> None:
    """The declared maximum (and values just below it) must survive a round trip."""
    _roundtrip(dpt, value)


@pytest.mark.parametrize("dpt", LOWER, ids=lambda d: d.__name__)
@pytest.mark.parametrize("value", [-670760, -670759.99, -670600.0])
def test_declared_minimum_roundtrips(dpt: type[DPT2ByteFloat], value: float) -> None:
    """The declared minimum (and values just above it) must survive a round trip."""
    _roundtrip(dpt, value)
