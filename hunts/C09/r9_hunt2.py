"""C09 hunt 2: DPTAngle (5.003) declares resolution 1 but loses whole degrees.

One octet spreads 0..360 over 255 steps (1.41 degrees each); from_knx() then
rounds the result to an integer.  The two roundings add up to more than the
declared ``resolution = 1``: 105 of the 361 integer angles do not come back.
"""

import pytest

import xknx
from xknx.dpt import DPTAngle, DPTArray

assert xknx.__file__.startswith("/tmp/hunt_C09/"), xknx.__file__


def test_every_integer_angle_comes_back_within_declared_resolution() -> None:
    """Exhaustive over the declared range 0..360."""
    assert (DPTAngle.value_min, DPTAngle.value_max) == (0, 360)
    off = []
    for angle in range(DPTAngle.value_min, DPTAngle.value_max + 1):
        payload = DPTAngle.to_knx(angle)
        assert isinstance(payload, DPTArray)
        assert len(payload.value) == DPTAngle.payload_length
        decoded = DPTAngle.from_knx(payload)
        if not abs(decoded - angle) < DPTAngle.resolution:
            off.append((angle, payload.value[0], decoded))
    assert not off, (
        f"DPTAngle declares resolution {DPTAngle.resolution}, yet {len(off)} of 361 "
        f"in-range integer angles decode a full step or more away, e.g. "
        f"(input, raw, decoded) = {off[:5]}. The property requires the decoded value "
        "to differ from the input by less than one resolution step."
    )


@pytest.mark.parametrize("angle", [2.117, 4.95, 357.89])
def test_float_angle_comes_back_within_declared_resolution(angle: float) -> None:
    """Floats just below a raw rounding boundary are even further off."""
    decoded = DPTAngle.from_knx(DPTAngle.to_knx(angle))
    assert abs(decoded - angle) < DPTAngle.resolution, (
        f"DPTAngle.to_knx({angle}) -> {DPTAngle.to_knx(angle)} -> {decoded}: off by "
        f"{abs(decoded - angle):.3f} with a declared resolution of "
        f"{DPTAngle.resolution}; the property requires less than one step."
    )
