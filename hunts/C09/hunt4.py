"""C09 hunt 4: DPTAngle (5.003) declares resolution 1 but loses up to 1.18 degrees.

One raw step of DPT 5.003 is 360/255 = 1.41 degrees; to_knx() rounds to the
nearest raw step and from_knx() rounds the result again to whole degrees.  The
class nevertheless declares `resolution = 1` (inherited semantics from
DPTScaling, published by the MCP `list_dpts` tool).  105 of the 361 whole
degree values come back a full degree off, floats up to 1.176 degrees.
"""

from xknx.dpt import DPTAngle, DPTScaling


def test_scaling_reference() -> None:
    """DPTScaling (0..100 in 255 steps) keeps its declared resolution of 1."""
    for i in range(100001):
        value = i / 1000
        decoded = DPTScaling.from_knx(DPTScaling.to_knx(value))
        assert abs(decoded - value) < DPTScaling.resolution


def test_angle_integers_within_declared_resolution() -> None:
    """Every whole degree must decode to less than one declared step away."""
    bad = []
    for value in range(DPTAngle.value_min, DPTAngle.value_max + 1):
        payload = DPTAngle.to_knx(value)
        decoded = DPTAngle.from_knx(payload)
        if not abs(decoded - value) < DPTAngle.resolution:
            bad.append((value, payload.value[0], decoded))
    assert not bad, (
        f"DPTAngle declares resolution {DPTAngle.resolution} but {len(bad)} of 361 whole "
        f"degree inputs decode a full step or more away, e.g. (input, raw, decoded) "
        f"{bad[:8]}. The property requires the decoded value to differ from the input "
        "by less than one resolution step."
    )


def test_angle_floats_within_declared_resolution() -> None:
    """Floats in range must decode to less than one declared step away."""
    worst = (0.0, None, None)
    for i in range(360001):
        value = i / 1000
        decoded = DPTAngle.from_knx(DPTAngle.to_knx(value))
        if abs(decoded - value) > worst[0]:
            worst = (abs(decoded - value), value, decoded)
    assert worst[0] < DPTAngle.resolution, (
        f"DPTAngle declares resolution {DPTAngle.resolution} but {worst[1]} decodes to "
        f"{worst[2]} ({worst[0]:.3f} degrees off). The property requires less than one "
        "resolution step."
    )
