"""
C26 hunt 1 - the heartbeat does not stop quietly when a TCP tunnel loses its transport.

Property clause: "... only if all four fail is the connection declared lost, once.
... the heartbeat stops quietly once the connection is gone."

Schedule (auto_reconnect=True, TCP tunnel, everything in ONE event loop pass):
  1. the heartbeat has its first ConnectionStateRequest outstanding,
  2. the server answers it with E_CONNECTION_ID  (-> heartbeat task is woken)
  3. and closes the TCP connection             (-> TCPTransport._connection_lost
     -> _Tunnel._tunnel_lost -> reconnect task is *scheduled*).
`_tunnel_lost` leaves stopping the heartbeat to the first step of the reconnect
task, and - unlike the DisconnectRequest path - does not clear
`communication_channel`, so the already woken heartbeat runs first, "repeats" the
request three times on a transport that is gone (nothing is sent, no time passes),
logs "Tunnel heartbeat failed - no response from the server." and declares the
already lost connection lost a second time.

Run: /venv/bin/python -m pytest -q -p no:cacheprovider hunt1.py
"""

from __future__ import annotations

import asyncio
import logging
from unittest.mock import Mock, patch

import pytest

from xknx import XKNX
from xknx.io.const import HEARTBEAT_RATE
from xknx.io.transport import TCPTransport
from xknx.io.tunnel import TCPTunnel
from xknx.knxip import (
    HPAI,
    ConnectionStateRequest,
    ConnectionStateResponse,
    ConnectResponse,
    ConnectResponseData,
    ErrorCode,
    HostProtocol,
    KNXIPFrame,
)
from xknx.telegram import IndividualAddress


class Clock:
    """Virtual time for the running loop (same technique as test/conftest.py)."""

    def __init__(self, loop: asyncio.AbstractEventLoop) -> None:
        self.offset = 0.0
        self._base = loop.time
        self.loop = loop
        loop.time = self.time  # type: ignore[method-assign]

    def time(self) -> float:
        return self._base() + self.offset

    async def _exhaust(self) -> None:
        while self.loop._ready:  # type: ignore[attr-defined]
            await asyncio.sleep(0)

    async def __call__(self, seconds: float) -> None:
        await self._exhaust()
        if seconds > 0:
            self.offset += seconds
            await asyncio.sleep(0)
            await self._exhaust()


@pytest.mark.asyncio
async def test_heartbeat_quiet_after_transport_loss(
    caplog: pytest.LogCaptureFixture,
) -> None:
    """Heartbeat woken in the loop pass that loses the TCP transport must end quietly."""
    time_travel = Clock(asyncio.get_running_loop())
    written: list[bytes] = []

    async def fake_tcp_connect(self: TCPTransport) -> None:
        # network boundary: the asyncio transport of the socket
        self.transport = Mock()
        self.transport.write = written.append

    with patch.object(TCPTransport, "connect", fake_tcp_connect):
        xknx = XKNX()
        tunnel = TCPTunnel(
            xknx,
            cemi_received_callback=Mock(),
            gateway_ip="192.168.1.2",
            gateway_port=3671,
            auto_reconnect=True,
            auto_reconnect_wait=3,
        )
        connect_task = asyncio.create_task(tunnel.connect())
        await time_travel(0)
        tunnel.transport.data_received_callback(
            KNXIPFrame.init_from_body(
                ConnectResponse(
                    communication_channel=23,
                    data_endpoint=HPAI(protocol=HostProtocol.IPV4_TCP),
                    crd=ConnectResponseData(individual_address=IndividualAddress(7)),
                )
            ).to_knx()
        )
        await connect_task
        assert tunnel.communication_channel == 23

        # count how often the tunnel is declared lost, and by whom
        declared_lost: list[str] = []
        real_tunnel_lost = tunnel._tunnel_lost

        def tunnel_lost_spy() -> None:
            declared_lost.append("transport connection_lost callback")
            real_tunnel_lost()

        tunnel.transport._connection_lost_cb = tunnel_lost_spy
        real_heartbeat_failed = tunnel._heartbeat._on_failure
        heartbeat_failures: list[float] = []

        async def heartbeat_failed_spy() -> None:
            heartbeat_failures.append(time_travel.time())
            declared_lost.append("heartbeat on_failure")
            await real_heartbeat_failed()

        tunnel._heartbeat._on_failure = heartbeat_failed_spy

        # first regular heartbeat is on the wire
        written.clear()
        await time_travel(HEARTBEAT_RATE)
        heartbeat_request = KNXIPFrame.init_from_body(
            ConnectionStateRequest(
                communication_channel_id=23,
                control_endpoint=HPAI(protocol=HostProtocol.IPV4_TCP),
            )
        ).to_knx()
        assert written == [heartbeat_request]
        written.clear()

        # ONE loop pass: the server answers with an error status and the TCP
        # connection goes down (what asyncio's protocol.connection_lost calls).
        with caplog.at_level(logging.DEBUG, logger="xknx.log"):
            tunnel.transport.data_received_callback(
                KNXIPFrame.init_from_body(
                    ConnectionStateResponse(
                        communication_channel_id=23,
                        status_code=ErrorCode.E_CONNECTION_ID,
                    )
                ).to_knx()
            )
            tunnel.transport._connection_lost()
            await time_travel(0)

        repetitions_on_the_wire = [raw for raw in written if raw == heartbeat_request]
        heartbeat_warnings = [
            record.getMessage()
            for record in caplog.records
            if "heartbeat failed" in record.getMessage()
        ]
        # the reconnect keeps running against the mock - stop it
        disconnect_task = asyncio.create_task(tunnel.disconnect())
        await time_travel(2)
        await disconnect_task

        assert not heartbeat_warnings and not heartbeat_failures, (
            "C26 violated: the connection was gone after ONE failed "
            "ConnectionStateRequest (TCP transport lost, reconnect already scheduled), "
            "so the heartbeat has to stop quietly. Observed instead: the heartbeat "
            f"'repeated' the request on the dead transport ({len(repetitions_on_the_wire)} "
            f"ConnectionStateRequests actually written), logged {heartbeat_warnings!r} "
            f"and awaited on_failure {len(heartbeat_failures)}x; the tunnel was declared "
            f"lost by {declared_lost!r} (required: once, by the transport callback only; "
            "a heartbeat failure requires four requests that were really sent and failed)."
        )
