"""C02 hunt 2: match() raises for group address 0 when it is given as int or str."""

import pytest

from xknx.telegram import AddressFilter
from xknx.telegram.address import GroupAddress, GroupAddressType


@pytest.mark.parametrize(
    ("notation", "pattern", "expected"),
    [
        (GroupAddressType.LONG, "*/*/*", True),
        (GroupAddressType.LONG, "0/0/0", True),
        (GroupAddressType.LONG, "0-3/-2/-10", True),
        (GroupAddressType.LONG, "1/2/3", False),
        (GroupAddressType.SHORT, "*/*", True),
        (GroupAddressType.SHORT, "-5/0", True),
        (GroupAddressType.SHORT, "1/2", False),
        (GroupAddressType.FREE, "*", True),
        (GroupAddressType.FREE, "-10", True),
        (GroupAddressType.FREE, "0", True),
        (GroupAddressType.FREE, "1-", False),
    ],
)
def test_address_zero_same_result_in_every_accepted_form(notation, pattern, expected):
    """match() accepts `str | int | GroupAddress`; the result may only depend on the address."""
    saved = GroupAddress.address_format
    GroupAddress.address_format = notation
    try:
        address_filter = AddressFilter(pattern)
        as_object = GroupAddress(0)
        # the GroupAddress form gives the answer the property requires
        assert address_filter.match(as_object) is expected
        observed = {}
        for form in (0, str(as_object), "0"):
            try:
                observed[repr(form)] = address_filter.match(form)
            except Exception as exc:  # pylint: disable=broad-except
                observed[repr(form)] = f"raised {type(exc).__name__}: {exc}"
        wrong = {k: v for k, v in observed.items() if v is not expected}
        assert not wrong, (
            f"AddressFilter({pattern!r}) in {notation.name} notation: match(GroupAddress(0)) is "
            f"{expected}, but the same address given as int / str: {wrong}. The property requires "
            f"that group address 0 (one of the 65,536) matches exactly when its level values lie in "
            f"the ranges ({expected} here) and that matching depends on nothing but pattern, "
            f"address and notation - not on the type the address is passed in."
        )
    finally:
        GroupAddress.address_format = saved
