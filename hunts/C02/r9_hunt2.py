"""C02 hunt 2: a filter of an incompatible level in a callback's filter list hides the filters behind it.

Property: a group address matches a filter exactly when its level values lie in the
filter's ranges; matching never depends on anything but the pattern, the address and
the configured notation.  In TelegramQueue.Callback.is_within_filter the result for
filter B depends on whether another filter A stands *before* it in the list.
"""

import asyncio
from unittest.mock import Mock

import xknx as xknx_pkg
from xknx import XKNX
from xknx.dpt import DPTBinary
from xknx.telegram import AddressFilter, Telegram, TelegramDirection
from xknx.telegram.address import GroupAddress, GroupAddressType
from xknx.telegram.apci import GroupValueWrite

assert xknx_pkg.__file__.startswith("/tmp/hunt_C02/"), xknx_pkg.__file__


def _run(order_matching_first: bool, use_group_addresses: bool = False) -> int:
    async def scenario() -> int:
        saved = GroupAddress.address_format
        try:
            xknx = XKNX(address_format=GroupAddressType.SHORT)
            matching = AddressFilter("1/*")  # 2-level pattern == configured notation
            foreign = AddressFilter("1/2/3")  # 3-level pattern, foreign notation
            assert matching.match(GroupAddress("1/5")) is True
            callback = Mock()
            if use_group_addresses:
                xknx.telegram_queue.register_telegram_received_cb(
                    callback,
                    address_filters=[foreign],
                    group_addresses=[GroupAddress("1/5")],
                )
            else:
                filters = (
                    [matching, foreign] if order_matching_first else [foreign, matching]
                )
                xknx.telegram_queue.register_telegram_received_cb(
                    callback, address_filters=filters
                )
            await xknx.telegram_queue.start()
            xknx.telegrams.put_nowait(
                Telegram(
                    destination_address=GroupAddress("1/5"),
                    direction=TelegramDirection.INCOMING,
                    payload=GroupValueWrite(DPTBinary(1)),
                )
            )
            await xknx.telegrams.join()
            await xknx.telegram_queue.stop()
            return callback.call_count
        finally:
            GroupAddress.address_format = saved

    return asyncio.run(scenario())


def test_filter_result_independent_of_list_order():
    first = _run(order_matching_first=True)
    assert first == 1, f"baseline broken: callback called {first} times"
    second = _run(order_matching_first=False)
    assert second == 1, (
        "telegram to 1/5 (SHORT notation), filters [AddressFilter('1/2/3'), AddressFilter('1/*')]: "
        f"callback was called {second} times, but {first} time(s) with the same filters in the order "
        "['1/*', '1/2/3'].  AddressFilter('1/*') matches 1/5 by pattern, address and notation; the "
        "property requires the match not to depend on anything else (here: an unrelated filter of "
        "an incompatible level that raises before '1/*' is consulted)"
    )


def test_explicit_group_address_hidden_by_incompatible_filter():
    calls = _run(order_matching_first=False, use_group_addresses=True)
    assert calls == 1, (
        "callback registered with address_filters=[AddressFilter('1/2/3')] and "
        f"group_addresses=[GroupAddress('1/5')] was called {calls} times for a telegram to 1/5; "
        "the exception of the incompatible filter must not decide over the other match criteria"
    )
