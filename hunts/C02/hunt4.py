"""C02 hunt 4: whether a callback's filter list matches depends on the order of the filters."""

import pytest

from xknx import XKNX
from xknx.dpt import DPTBinary
from xknx.telegram import AddressFilter, Telegram, TelegramDirection
from xknx.telegram.address import GroupAddress, GroupAddressType
from xknx.telegram.apci import GroupValueWrite


@pytest.fixture(autouse=True)
def restore_notation():
    """XKNX() sets the class wide notation - restore it."""
    saved = GroupAddress.address_format
    yield
    GroupAddress.address_format = saved


async def test_filter_order_does_not_change_matching():
    """Free notation; the pattern "5" is in the matching notation and denotes address 5."""
    xknx = XKNX(address_format=GroupAddressType.FREE)
    calls: dict[str, list[Telegram]] = {"free_first": [], "free_last": [], "ga_list": []}

    # the same two filters in both registrations, only their order differs
    xknx.telegram_queue.register_telegram_received_cb(
        calls["free_first"].append,
        address_filters=[AddressFilter("5"), AddressFilter("1/2/3")],
    )
    xknx.telegram_queue.register_telegram_received_cb(
        calls["free_last"].append,
        address_filters=[AddressFilter("1/2/3"), AddressFilter("5")],
    )
    # and an exact group address next to a filter of another level
    xknx.telegram_queue.register_telegram_received_cb(
        calls["ga_list"].append,
        address_filters=[AddressFilter("1/2/3")],
        group_addresses=[GroupAddress(5)],
    )

    assert AddressFilter("5").match(GroupAddress(5)) is True

    telegram = Telegram(
        destination_address=GroupAddress(5),
        direction=TelegramDirection.INCOMING,
        payload=GroupValueWrite(DPTBinary(1)),
    )
    await xknx.telegram_queue.process_telegram_incoming(telegram)

    observed = {name: len(received) for name, received in calls.items()}
    assert observed == {"free_first": 1, "free_last": 1, "ga_list": 1}, (
        f"telegram to group address 5 in free notation, calls per registration: {observed}. "
        f'The filter "5" denotes address 5 and matches it, and GroupAddress(5) is listed, so all '
        f"three registrations match; the property requires that matching depends on nothing but "
        f"pattern, address and notation, but here it depends on the position of the filter in "
        f"the list (a preceding filter of another level raises in Callback.is_within_filter and "
        f"the remaining filters and group_addresses are never looked at)."
    )
