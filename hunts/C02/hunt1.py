"""C02 hunt 1: a value above the address space is clamped onto 65535 and then matches it."""

import pytest

from xknx.telegram import AddressFilter
from xknx.telegram.address import GroupAddress, GroupAddressType


@pytest.fixture(autouse=True)
def free_notation():
    """Configure free notation (what XKNX(address_format=FREE) does)."""
    saved = GroupAddress.address_format
    GroupAddress.address_format = GroupAddressType.FREE
    yield
    GroupAddress.address_format = saved


@pytest.mark.parametrize(
    ("pattern", "ranges"),
    [
        ("70000", [(70000, 70000)]),
        ("65536", [(65536, 65536)]),
        ("65536-", [(65536, float("inf"))]),
        ("70000-80000", [(70000, 80000)]),
        ("80000-70000", [(70000, 80000)]),
        ("5,70000", [(5, 5), (70000, 70000)]),
    ],
)
def test_value_above_address_space_matches_nothing(pattern, ranges):
    """No group address lies in a range that starts above 65535."""
    address_filter = AddressFilter(pattern)
    wrong = []
    for raw in (0, 1, 5, 6, 65534, 65535):
        expected = any(low <= raw <= high for low, high in ranges)
        observed = address_filter.match(GroupAddress(raw))
        if observed != expected:
            wrong.append((raw, observed, expected))
    assert not wrong, (
        f"AddressFilter({pattern!r}) in free notation: (address, observed, required) = {wrong}; "
        f"the property requires a match exactly when the address value lies in one of the ranges "
        f"{ranges}, and 65535 lies in none of them - Range._adjust_range() clamped both ends "
        f"of the range to 65535, parsed ranges = "
        f"{[r.get_range() for r in address_filter.level_filters[0].ranges]}"
    )
