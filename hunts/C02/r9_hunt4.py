"""C02 hunt 4 (design level, low confidence): the notation an XKNX instance was configured
with is silently replaced when any other XKNX instance is constructed in the process.

Property: matching never depends on anything but the pattern, the address and the
configured notation.  History: instance A = XKNX(address_format=SHORT) registers a callback
with AddressFilter("1/300-"); then a helper instance XKNX() (defaults) is created, e.g. for
a gateway scan.  The same telegram to 1/300 reaches A's callback before, not after.
"""

import asyncio
from unittest.mock import Mock

import xknx as xknx_pkg
from xknx import XKNX
from xknx.dpt import DPTBinary
from xknx.telegram import AddressFilter, Telegram, TelegramDirection
from xknx.telegram.address import GroupAddress, GroupAddressType
from xknx.telegram.apci import GroupValueWrite

assert xknx_pkg.__file__.startswith("/tmp/hunt_C02/"), xknx_pkg.__file__


def test_other_instance_does_not_change_matching():
    async def scenario() -> tuple[int, int]:
        saved = GroupAddress.address_format
        try:
            xknx_a = XKNX(address_format=GroupAddressType.SHORT)
            callback = Mock()
            xknx_a.telegram_queue.register_telegram_received_cb(
                callback, address_filters=[AddressFilter("1/300-")]
            )
            await xknx_a.telegram_queue.start()

            def telegram() -> Telegram:
                return Telegram(
                    destination_address=GroupAddress(2048 + 300),  # 1/300 in SHORT
                    direction=TelegramDirection.INCOMING,
                    payload=GroupValueWrite(DPTBinary(1)),
                )

            xknx_a.telegrams.put_nowait(telegram())
            await xknx_a.telegrams.join()
            before = callback.call_count

            XKNX()  # unrelated helper instance with default arguments

            xknx_a.telegrams.put_nowait(telegram())
            await xknx_a.telegrams.join()
            after = callback.call_count - before
            await xknx_a.telegram_queue.stop()
            return before, after
        finally:
            GroupAddress.address_format = saved

    before, after = asyncio.run(scenario())
    assert before == 1, f"baseline broken: {before}"
    assert after == 1, (
        f"telegram to raw 2348 (1/300 in the SHORT notation instance A was configured with), filter "
        f"'1/300-': delivered {before}x before and {after}x after an unrelated XKNX() was constructed; "
        "the property requires the match to depend only on pattern, address and configured notation"
    )
