"""C02 hunt 3: internal address globs are matched with fnmatch.fnmatch(), which is platform dependent."""

import ntpath
import posixpath
from unittest.mock import patch

import pytest

from xknx.telegram import AddressFilter
from xknx.telegram.address import InternalGroupAddress


@pytest.mark.parametrize(
    ("pattern", "address"),
    [
        ("i-Test", "i-test"),
        ("i-test", "i-TEST"),
        ("i-t?st", "i-TeST"),
        ("i-light*", "i-Light_1"),
    ],
)
def test_internal_glob_same_on_every_platform(pattern, address):
    """
    The platform is simulated at the os boundary only.

    os.path.normcase *is* ntpath.normcase on Windows and posixpath.normcase elsewhere;
    fnmatch.fnmatch() calls it on name and pattern before matching.
    """
    address_filter = AddressFilter(pattern)
    internal_address = InternalGroupAddress(address)
    # the library itself treats these names as different addresses
    assert internal_address != InternalGroupAddress(pattern)
    with patch("os.path.normcase", posixpath.normcase):
        on_posix = address_filter.match(internal_address)
    with patch("os.path.normcase", ntpath.normcase):
        on_windows = address_filter.match(internal_address)
    assert on_posix == on_windows, (
        f"AddressFilter({pattern!r}).match({internal_address!r}) is {on_posix} with the POSIX "
        f"os.path.normcase and {on_windows} with the Windows one; the property requires that "
        f"matching depends on nothing but the pattern, the address and the configured notation "
        f"(and InternalGroupAddress equality is case sensitive, so the glob must be too)."
    )
