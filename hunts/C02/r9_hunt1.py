"""C02 hunt 1: the broadcast group address 0 (0/0/0) cannot be matched when given as int / str.

Property: for every in-grammar pattern a group address (all 65,536 of them) matches
exactly when each of its level values lies in one of the ranges of that level; matching
depends only on pattern, address and notation - not on the Python type the address is
handed over in.
"""

import pytest

import xknx
from xknx.telegram import AddressFilter
from xknx.telegram.address import GroupAddress, GroupAddressType

assert xknx.__file__.startswith("/tmp/hunt_C02/"), xknx.__file__

CASES = [
    # notation, pattern, expected result for raw address 0
    (GroupAddressType.LONG, "*/*/*", True),
    (GroupAddressType.LONG, "0/0/0", True),
    (GroupAddressType.LONG, "-3/0,1/-10", True),
    (GroupAddressType.LONG, "1/2/3", False),
    (GroupAddressType.SHORT, "*/*", True),
    (GroupAddressType.SHORT, "0/-5", True),
    (GroupAddressType.SHORT, "1-/5", False),
    (GroupAddressType.FREE, "*", True),
    (GroupAddressType.FREE, "-10", True),
    (GroupAddressType.FREE, "5-", False),
]


@pytest.fixture(autouse=True)
def _restore_notation():
    saved = GroupAddress.address_format
    yield
    GroupAddress.address_format = saved


@pytest.mark.parametrize(("notation", "pattern", "expected"), CASES)
def test_address_zero_matches_like_any_other_address(notation, pattern, expected):
    GroupAddress.address_format = notation
    address_filter = AddressFilter(pattern)
    # reference: the same address as GroupAddress object is handled fine
    assert address_filter.match(GroupAddress(0)) is expected

    for form in (0, "0", str(GroupAddress(0))):
        try:
            observed = address_filter.match(form)
        except Exception as exc:  # pylint: disable=broad-except
            observed = exc
        assert observed is expected, (
            f"AddressFilter({pattern!r}).match({form!r}) under {notation.name} notation: observed "
            f"{observed!r}; the property requires {expected} (every level value of 0/0/0 is "
            f"{'inside' if expected else 'not inside'} the given ranges) - the same as "
            f"match(GroupAddress(0)) == {expected}; the result must not depend on whether the "
            "address is passed as GroupAddress, int or str"
        )
