"""C02 hunt 3 (borderline - input just outside the strict grammar): a value the Range
parser does not recognise is silently turned into the range {0}.

Property: a group address matches exactly when each of its level values lies in one of
the ranges GIVEN for that level.  "1/2/3, 4" gives the sub ranges {3} and {4}; the library
matches 1/2/0 instead of 1/2/4 - although "1/2/3, 4-5" (same blank) is understood.
"""

import pytest

import xknx
from xknx.telegram import AddressFilter
from xknx.telegram.address import GroupAddress, GroupAddressType

assert xknx.__file__.startswith("/tmp/hunt_C02/"), xknx.__file__


@pytest.fixture(autouse=True)
def _notation():
    saved = GroupAddress.address_format
    GroupAddress.address_format = GroupAddressType.LONG
    yield
    GroupAddress.address_format = saved


def _build(pattern):
    try:
        return AddressFilter(pattern)
    except Exception as exc:  # a refusal of the pattern would be fine
        pytest.skip(f"pattern refused: {exc!r}")


def test_blank_after_comma_range_is_understood():
    """Reference: blanks are tolerated in the a-b form (int() strips them)."""
    address_filter = AddressFilter("1/2/3, 4-5")
    assert address_filter.match(GroupAddress("1/2/4"))
    assert not address_filter.match(GroupAddress("1/2/0"))


@pytest.mark.parametrize(
    ("pattern", "given"),
    [
        ("1/2/3, 4", "{3, 4}"),
        ("1/2/3,", "{3}"),
        ("1/2/x", "{} (no recognisable value)"),
        ("1//3", "{} for the middle level"),
    ],
)
def test_unrecognised_value_does_not_become_zero(pattern, given):
    address_filter = _build(pattern)
    zero = GroupAddress("1/0/3") if pattern == "1//3" else GroupAddress("1/2/0")
    observed = address_filter.match(zero)
    assert observed is False, (
        f"AddressFilter({pattern!r}).match({str(zero)!r}) returned {observed}: the ranges given are "
        f"{given}, none contains 0 - the property requires no match (or the pattern to be refused); "
        "observed: the unrecognised value was silently parsed as the range 0-0"
    )


def test_blank_after_comma_single_value_matches():
    address_filter = _build("1/2/3, 4")
    observed = address_filter.match(GroupAddress("1/2/4"))
    assert observed is True, (
        f"AddressFilter('1/2/3, 4').match('1/2/4') returned {observed}; sub value 4 lies in the given "
        "range {4} so the property requires a match (as it does for '1/2/3, 4-5')"
    )
