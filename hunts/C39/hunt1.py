"""
C39 hunt 1 - Cover: two set_position() calls before the first telegram has looped back.

A Cover without a position group address (up/down + stop only) implements
set_position() with an up/down telegram plus a timed "auto stop". The bookkeeping that
tells process_group_write() "this up/down telegram is my own, keep the travel target
and the auto stopper" is a single boolean (`_auto_stop_requested`). If set_position()
is called a second time before the first telegram came back from the TelegramQueue
(a slider dragged in a UI, two automations, ... - the queue rate limits to 20
telegrams / s so the window is >= 50 ms per queued telegram), the flag is consumed by
the first loop back and the second - own - telegram is treated like a foreign
"move to the end position" command:

* the auto stopper of the last request is cancelled - no STOP is ever sent
* if the direction changed, the travel target is overwritten with the end position

Uses the real XKNX TelegramQueue (consumer + rate limiter); only the CEMI handler
(network boundary) is mocked. No clock is mocked; travel time is 2 s for 100 %.
"""

import asyncio
import os
from unittest.mock import AsyncMock, Mock

import xknx as xknx_pkg
from xknx import XKNX
from xknx.devices import Cover
from xknx.dpt import DPTBinary
from xknx.telegram import GroupAddress

assert os.path.dirname(xknx_pkg.__file__).startswith(
    os.path.dirname(os.path.abspath(__file__))
), f"wrong xknx imported: {xknx_pkg.__file__}"

GA_LONG = GroupAddress("1/1/1")
GA_STOP = GroupAddress("1/1/2")


async def _setup() -> tuple[XKNX, Cover, AsyncMock]:
    xknx = XKNX()
    send_telegram = AsyncMock()
    xknx.cemi_handler = Mock(send_telegram=send_telegram)  # network boundary
    await xknx.telegram_queue.start()
    cover = Cover(
        xknx,
        "TestCover",
        group_address_long=GA_LONG,
        group_address_stop=GA_STOP,
        travel_time_down=2,
        travel_time_up=2,
    )
    xknx.devices.async_add(cover)
    # known start position 50 % (same way the upstream tests initialise it)
    cover.travelcalculator.set_position(50)
    return xknx, cover, send_telegram


def _sent(send_telegram: AsyncMock) -> list[tuple[str, int]]:
    return [
        (str(call.args[0].destination_address), call.args[0].payload.value.value)
        for call in send_telegram.call_args_list
    ]


async def _teardown(xknx: XKNX, cover: Cover) -> None:
    cover.async_remove_tasks()
    await xknx.telegram_queue.stop()


async def test_second_set_position_before_loopback_reversing() -> None:
    """50 % -> set_position(30) -> (changed my mind) set_position(70)."""
    xknx, cover, send_telegram = await _setup()
    try:
        await cover.set_position(30)
        await cover.set_position(70)
        # both telegrams are sent and looped back through Devices.process()
        await xknx.telegrams.join()
        assert _sent(send_telegram) == [("1/1/1", 0), ("1/1/1", 1)]  # UP, DOWN

        # 50 -> 70 takes 0.4 s; give it plenty of time
        await asyncio.sleep(1.5)
        sent = _sent(send_telegram)
        position = cover.current_position()
        stop_sent = ("1/1/2", 1) in sent
        assert position == 70 and stop_sent, (
            f"set_position(30); set_position(70) from 50 %: after the telegrams were "
            f"processed as outgoing the cover reports position {position} "
            f"(is_closed={cover.is_closed()}) and the bus saw {sent} "
            f"(STOP sent: {stop_sent}). C39 requires the device to report the requested "
            f"position 70 - and a STOP telegram must have been sent to get there."
        )
    finally:
        await _teardown(xknx, cover)


async def test_second_set_position_before_loopback_same_direction() -> None:
    """50 % -> set_position(30) -> set_position(20): same direction, no STOP ever sent."""
    xknx, cover, send_telegram = await _setup()
    try:
        await cover.set_position(30)
        await cover.set_position(20)
        await xknx.telegrams.join()
        assert _sent(send_telegram) == [("1/1/1", 0), ("1/1/1", 0)]  # UP, UP

        # 50 -> 20 takes 0.6 s
        await asyncio.sleep(1.5)
        sent = _sent(send_telegram)
        stop_sent = ("1/1/2", 1) in sent
        assert cover.current_position() == 20 and stop_sent, (
            f"set_position(30); set_position(20) from 50 %: device reports position "
            f"{cover.current_position()} but the telegrams it sent are {sent} - the auto "
            f"stopper of the second request was cancelled by the loop back of the "
            f"device's own UP telegram, so no STOP is sent and the real cover runs to "
            f"0 %. C39: the telegrams sent must lead to the requested position 20."
        )
    finally:
        await _teardown(xknx, cover)


async def test_control_single_set_position_works() -> None:
    """Control: one set_position() (telegram looped back before the next call) is fine."""
    xknx, cover, send_telegram = await _setup()
    try:
        await cover.set_position(30)
        await xknx.telegrams.join()
        await cover.set_position(70)
        await xknx.telegrams.join()
        await asyncio.sleep(1.5)
        assert cover.current_position() == 70
        assert ("1/1/2", 1) in _sent(send_telegram)
        assert DPTBinary(1) == send_telegram.call_args_list[-1].args[0].payload.value
    finally:
        await _teardown(xknx, cover)
