"""C39 hunt 4: target temperature through a setpoint shift when the target temperature
has a state address only (the usual setpoint-shift configuration): the device keeps
reporting the old target, derives a wrong base temperature from it, and repeating the
very same request drives the thermostat further away."""

import asyncio
from unittest.mock import AsyncMock, patch

import xknx as _xknx_pkg
from xknx import XKNX
from xknx.devices import Climate
from xknx.dpt import DPTArray, DPTTemperature
from xknx.remote_value.remote_value_setpoint_shift import SetpointShiftMode
from xknx.telegram import GroupAddress, Telegram, TelegramDirection
from xknx.telegram.apci import GroupValueWrite

assert _xknx_pkg.__file__.startswith("/tmp/hunt_C39/"), _xknx_pkg.__file__

GA_SHIFT = GroupAddress("2/0/2")


async def test_setpoint_shift_with_state_only_target_temperature() -> None:
    """Base 21 °C; request 23 °C twice before the thermostat has reported its new target."""
    xknx = XKNX()
    sent: list[Telegram] = []

    async def _send(telegram: Telegram) -> None:
        sent.append(telegram)

    patcher = patch(
        "xknx.cemi.cemi_handler.CEMIHandler.send_telegram",
        new=AsyncMock(side_effect=_send),
    )
    patcher.start()
    climate = Climate(
        xknx,
        "climate",
        group_address_target_temperature_state="2/0/1",
        group_address_setpoint_shift=GA_SHIFT,
        group_address_setpoint_shift_state="2/0/3",
        setpoint_shift_mode=SetpointShiftMode.DPT6010,
        temperature_step=0.5,
    )
    xknx.devices.async_add(climate)
    await xknx.telegram_queue.start()
    try:
        for address, payload in (
            ("2/0/1", DPTTemperature.to_knx(21.0)),
            ("2/0/3", DPTArray(0)),
        ):
            xknx.telegrams.put_nowait(
                Telegram(
                    destination_address=GroupAddress(address),
                    direction=TelegramDirection.INCOMING,
                    payload=GroupValueWrite(payload),
                )
            )
        await asyncio.wait_for(xknx.telegrams.join(), 2)
        assert climate.base_temperature == 21.0

        await climate.set_target_temperature(23.0)
        await asyncio.wait_for(xknx.telegrams.join(), 2)
        reported_after_first = (
            climate.target_temperature.value,
            climate.setpoint_shift,
            climate.base_temperature,
        )
        # the same request again (a retry, a second automation, a UI re-submit)
        await climate.set_target_temperature(23.0)
        await asyncio.wait_for(xknx.telegrams.join(), 2)
    finally:
        await xknx.telegram_queue.stop()
        patcher.stop()

    shifts = [
        t.payload.value.value[0] * 0.5 for t in sent if t.destination_address == GA_SHIFT
    ]
    assert reported_after_first == (23.0, 2.0, 21.0) and shifts == [2.0, 2.0], (
        "C39 violated: set_target_temperature(23) with base 21 °C sent its setpoint shift; once "
        "that telegram was processed as outgoing the device reports (target, shift, base) = "
        f"{reported_after_first}, the property requires (23.0, 2.0, 21.0). Repeating the same "
        f"request wrote the shifts {shifts} K to the bus - the thermostat is asked for "
        f"{21.0 + shifts[-1]} °C instead of 23 °C"
    )
