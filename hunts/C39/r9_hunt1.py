"""C39 hunt 1: two mode setters on a controller-status (HVACStatus) address lose the first request."""

import asyncio
from unittest.mock import AsyncMock, patch

import xknx as _xknx_pkg
from xknx import XKNX
from xknx.devices import ClimateMode
from xknx.dpt import DPTHVACStatus
from xknx.dpt.dpt_1 import HeatCool
from xknx.dpt.dpt_20 import HVACControllerMode, HVACOperationMode, HVACStatus
from xknx.telegram import GroupAddress, Telegram, TelegramDirection
from xknx.telegram.apci import GroupValueWrite

assert _xknx_pkg.__file__.startswith("/tmp/hunt_C39/"), _xknx_pkg.__file__


async def test_hvac_status_two_setters_back_to_back() -> None:
    """set_operation_mode() followed by set_controller_mode() before the queue ran."""
    xknx = XKNX()
    sent: list[Telegram] = []

    async def _send(telegram: Telegram) -> None:
        sent.append(telegram)

    mode = ClimateMode(
        xknx,
        "mode",
        group_address_controller_status="1/1/1",
        group_address_controller_status_state="1/1/2",
    )
    xknx.devices.async_add(mode)
    patcher = patch(
        "xknx.cemi.cemi_handler.CEMIHandler.send_telegram",
        new=AsyncMock(side_effect=_send),
    )
    patcher.start()
    await xknx.telegram_queue.start()
    try:
        # the thermostat reports: standby, heating
        xknx.telegrams.put_nowait(
            Telegram(
                destination_address=GroupAddress("1/1/2"),
                direction=TelegramDirection.INCOMING,
                payload=GroupValueWrite(
                    DPTHVACStatus.to_knx(
                        HVACStatus(
                            mode=HVACOperationMode.STANDBY,
                            dew_point=False,
                            heat_cool=HeatCool.HEAT,
                            inactive=False,
                            frost_alarm=False,
                        )
                    )
                ),
            )
        )
        await xknx.telegrams.join()
        assert mode.operation_mode is HVACOperationMode.STANDBY
        assert mode.controller_mode is HVACControllerMode.HEAT

        # eg. a script: preset "comfort" and hvac mode "cool" - both setters return
        # as soon as their telegram is queued
        await mode.set_operation_mode(HVACOperationMode.COMFORT)
        await mode.set_controller_mode(HVACControllerMode.COOL)
        await asyncio.wait_for(xknx.telegrams.join(), 2)
    finally:
        await xknx.telegram_queue.stop()
        patcher.stop()

    last_sent = DPTHVACStatus.from_knx(sent[-1].payload.value)
    assert (
        mode.operation_mode is HVACOperationMode.COMFORT
        and mode.controller_mode is HVACControllerMode.COOL
    ), (
        "C39 violated: set_operation_mode(COMFORT) and set_controller_mode(COOL) were both "
        "accepted, but after their telegrams were processed as outgoing the device reports "
        f"operation_mode={mode.operation_mode}, controller_mode={mode.controller_mode} "
        f"(last status written to the bus: {last_sent}); the property requires the device to "
        "report every requested value (COMFORT and COOL)"
    )
