"""
C39 hunt 4 - NumericValue / ExposeSensor with DPT 7.003 / 7.004 (time period, 10 / 100 ms).

DPT2ByteUnsigned.to_knx() converts with `int(value) // cls.resolution` - a floor
division. For the two subtypes with a resolution != 1 every value that is not a
multiple of the resolution is rounded DOWN instead of to the nearest representable
value (DPT 8.003 / 8.004 - the signed counterparts - use round()). NumericValue.set(19)
with value_type "time_period_10msec" sends 1 (= 10 ms) and the device reports 10
although 20 is representable and nearer; set(99) with "time_period_100msec" reports 0.

Real XKNX TelegramQueue processing; only the CEMI handler (network boundary) is mocked.
"""

import os
from unittest.mock import AsyncMock, Mock

import pytest

import xknx as xknx_pkg
from xknx import XKNX
from xknx.devices import ExposeSensor, NumericValue

assert os.path.dirname(xknx_pkg.__file__).startswith(
    os.path.dirname(os.path.abspath(__file__))
), f"wrong xknx imported: {xknx_pkg.__file__}"

CASES = [
    # value_type, resolution, requested, nearest representable
    ("time_period_10msec", 10, 19, 20),
    ("time_period_10msec", 10, 9, 10),
    ("time_period_10msec", 10, 128036, 128040),
    ("time_period_100msec", 100, 99, 100),
    ("time_period_100msec", 100, 1250 + 40, 1300),
    # controls - these are fine
    ("time_period_10msec", 10, 14, 10),
    ("time_period_10msec", 10, 20, 20),
    ("delta_time_10ms", 10, 19, 20),  # DPT 8.003 rounds correctly
]


@pytest.mark.parametrize(("value_type", "resolution", "requested", "nearest"), CASES)
async def test_numeric_value_reports_nearest_representable(
    value_type: str, resolution: int, requested: int, nearest: int
) -> None:
    """NumericValue.set() looped back must report the nearest representable value."""
    xknx = XKNX()
    xknx.cemi_handler = Mock(send_telegram=AsyncMock())  # network boundary
    await xknx.telegram_queue.start()
    try:
        device = NumericValue(
            xknx, "TestNumeric", group_address="1/2/3", value_type=value_type
        )
        xknx.devices.async_add(device)
        await device.set(requested)
        await xknx.telegrams.join()  # sent and processed as outgoing
        sent = xknx.cemi_handler.send_telegram.call_args_list[-1].args[0]
        assert device.resolve_state() == nearest, (
            f"NumericValue(value_type={value_type!r}).set({requested}) sent "
            f"{sent.payload.value} and reports {device.resolve_state()}; the datapoint "
            f"represents multiples of {resolution}, C39 requires the nearest "
            f"representable value {nearest} "
            f"(|{requested}-{nearest}| < |{requested}-{device.resolve_state()}|)."
        )
    finally:
        await xknx.telegram_queue.stop()


async def test_expose_sensor_reports_nearest_representable() -> None:
    """Same through ExposeSensor."""
    xknx = XKNX()
    xknx.cemi_handler = Mock(send_telegram=AsyncMock())  # network boundary
    await xknx.telegram_queue.start()
    try:
        device = ExposeSensor(
            xknx, "TestExpose", group_address="1/2/3", value_type="time_period_100msec"
        )
        xknx.devices.async_add(device)
        await device.set(2799)
        await xknx.telegrams.join()
        assert device.resolve_state() == 2800, (
            f"ExposeSensor(value_type='time_period_100msec').set(2799) reports "
            f"{device.resolve_state()}; nearest value DPT 7.004 can represent is 2800."
        )
    finally:
        device.async_remove_tasks()
        await xknx.telegram_queue.stop()
