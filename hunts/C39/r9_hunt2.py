"""C39 hunt 2: Light.set_hs_color() drops the hue (or saturation) of the second of two quick requests."""

import asyncio
from unittest.mock import AsyncMock, patch

import xknx as _xknx_pkg
from xknx import XKNX
from xknx.devices import Light
from xknx.telegram import Telegram

assert _xknx_pkg.__file__.startswith("/tmp/hunt_C39/"), _xknx_pkg.__file__


async def test_hs_color_second_request_loses_hue() -> None:
    """(10, 50) then (0, 50) requested while the first telegrams are still queued."""
    xknx = XKNX()
    sent: list[Telegram] = []

    async def _send(telegram: Telegram) -> None:
        sent.append(telegram)

    light = Light(
        xknx,
        "light",
        group_address_switch="1/0/0",
        group_address_hue="1/0/1",
        group_address_saturation="1/0/2",
    )
    xknx.devices.async_add(light)
    patcher = patch(
        "xknx.cemi.cemi_handler.CEMIHandler.send_telegram",
        new=AsyncMock(side_effect=_send),
    )
    patcher.start()
    await xknx.telegram_queue.start()
    try:
        await light.set_hs_color((0, 0))
        await asyncio.wait_for(xknx.telegrams.join(), 2)
        assert light.current_hs_color == (0, 0)

        # two requests in a row, eg. a colour wheel being dragged - the setters
        # return as soon as their telegrams are queued
        await light.set_hs_color((10, 50))
        await light.set_hs_color((0, 50))
        await asyncio.wait_for(xknx.telegrams.join(), 2)
    finally:
        await xknx.telegram_queue.stop()
        patcher.stop()

    assert light.current_hs_color == (0, 50), (
        "C39 violated: set_hs_color((0, 50)) was the last accepted request, but after all "
        f"telegrams {[(str(t.destination_address), t.payload.value.value) for t in sent[2:]]} "
        f"were processed as outgoing the light reports hs_color={light.current_hs_color}; "
        "the property requires it to report the requested (0, 50) - the hue of the second "
        "request was never sent because it was compared with the not yet updated state"
    )
