"""
C39 hunt 3 - Climate target temperature set through a DPT 6.010 setpoint shift.

Climate.set_target_temperature() -> set_setpoint_shift() sends
  * the offset to the setpoint shift address - RemoteValueSetpointShift.to_knx()
    quantises it to a whole number of `temperature_step`s (round(value / step))
  * `base_temperature + validated_offset` - the UN-quantised offset - to the target
    temperature address ("broadcast new target temperature and set internally").

After both telegrams are processed as outgoing the device reports a target
temperature that the configured setpoint shift datapoint cannot represent and that
contradicts the setpoint shift it reports itself; `base_temperature` (derived as
target - shift) silently moves, so target_temperature_min/max move too and the next
set_target_temperature() computes its shift from a wrong base.

Real XKNX TelegramQueue processing; only the CEMI handler (network boundary) is mocked.
"""

import os
from unittest.mock import AsyncMock, Mock

import pytest

import xknx as xknx_pkg
from xknx import XKNX
from xknx.devices import Climate
from xknx.dpt import DPTArray, DPTTemperature
from xknx.remote_value.remote_value_setpoint_shift import SetpointShiftMode
from xknx.telegram import GroupAddress, Telegram, TelegramDirection
from xknx.telegram.apci import GroupValueWrite

assert os.path.dirname(xknx_pkg.__file__).startswith(
    os.path.dirname(os.path.abspath(__file__))
), f"wrong xknx imported: {xknx_pkg.__file__}"


async def _incoming(xknx: XKNX, ga: str, payload: DPTArray) -> None:
    xknx.telegrams.put_nowait(
        Telegram(
            destination_address=GroupAddress(ga),
            direction=TelegramDirection.INCOMING,
            payload=GroupValueWrite(payload),
        )
    )
    await xknx.telegrams.join()


@pytest.mark.parametrize(
    ("step", "requested", "nearest_representable"),
    [
        (0.5, 22.3, 22.5),  # offset 1.3 K -> 3 steps = 1.5 K
        (0.5, 21.2, 21.0),  # offset 0.2 K -> 0 steps = 0 K
        (1.0, 22.4, 22.0),  # offset 1.4 K -> 1 step  = 1 K
        (0.1, 22.26, 22.3),  # offset 1.26 K -> 13 steps = 1.3 K
    ],
)
async def test_target_temperature_via_setpoint_shift_is_quantised(
    step: float, requested: float, nearest_representable: float
) -> None:
    """Reported target temperature must be base + n * temperature_step."""
    xknx = XKNX()
    send_telegram = AsyncMock()
    xknx.cemi_handler = Mock(send_telegram=send_telegram)  # network boundary
    await xknx.telegram_queue.start()
    try:
        climate = Climate(
            xknx,
            "TestClimate",
            group_address_target_temperature="1/2/1",
            group_address_target_temperature_state="1/2/2",
            group_address_setpoint_shift="1/2/3",
            group_address_setpoint_shift_state="1/2/4",
            setpoint_shift_mode=SetpointShiftMode.DPT6010,
            temperature_step=step,
        )
        xknx.devices.async_add(climate)
        # thermostat reports target 21.0 degC at setpoint shift 0 -> base temperature 21.0
        await _incoming(xknx, "1/2/2", DPTTemperature.to_knx(21.0))
        await _incoming(xknx, "1/2/4", DPTArray(0))
        assert climate.base_temperature == 21.0

        await climate.set_target_temperature(requested)
        await xknx.telegrams.join()  # sent and processed as outgoing

        sent = [
            (str(c.args[0].destination_address), c.args[0].payload.value)
            for c in send_telegram.call_args_list
        ]
        target = climate.target_temperature.value
        shift = climate.setpoint_shift
        base = climate.base_temperature
        assert target is not None and shift is not None and base is not None
        assert target == pytest.approx(nearest_representable, abs=0.011), (
            f"temperature_step={step}, base 21.0, set_target_temperature({requested}): "
            f"telegrams {sent}; device reports target_temperature={target} together with "
            f"setpoint_shift={shift} (base_temperature drifted 21.0 -> {base:.2f}). The "
            f"configured DPT 6.010 setpoint shift can only represent 21.0 + n*{step}; "
            f"C39 requires the nearest representable value {nearest_representable} "
            f"(= 21.0 + the shift that was actually sent)."
        )
        assert base == pytest.approx(21.0, abs=0.011)
    finally:
        await xknx.telegram_queue.stop()
