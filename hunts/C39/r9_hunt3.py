"""C39 hunt 3: a target temperature requested between the loop-back of the setpoint-shift
telegram and the loop-back of the target-temperature telegram is converted with a wrong
base temperature - a wrong shift goes to the bus and the base temperature stays wrong."""

import asyncio
from unittest.mock import AsyncMock, patch

import xknx as _xknx_pkg
from xknx import XKNX
from xknx.devices import Climate
from xknx.dpt import DPTArray, DPTTemperature
from xknx.remote_value.remote_value_setpoint_shift import SetpointShiftMode
from xknx.telegram import GroupAddress, Telegram, TelegramDirection
from xknx.telegram.apci import GroupValueWrite

assert _xknx_pkg.__file__.startswith("/tmp/hunt_C39/"), _xknx_pkg.__file__

GA_TARGET = GroupAddress("2/0/1")
GA_SHIFT = GroupAddress("2/0/2")


async def test_target_temperature_requested_between_the_two_loop_backs() -> None:
    """Base 20 °C; request 22 °C, then 23 °C while the 22 °C target telegram waits for the bus."""
    xknx = XKNX()
    sent: list[Telegram] = []
    first_target_on_the_wire = asyncio.Event()
    bus_confirms = asyncio.Event()

    async def _send(telegram: Telegram) -> None:
        # the network boundary: the first target temperature telegram takes a
        # moment to be confirmed by the bus (L_DATA.con), nothing else is touched
        if telegram.destination_address == GA_TARGET and not bus_confirms.is_set():
            first_target_on_the_wire.set()
            await bus_confirms.wait()
        sent.append(telegram)

    patcher = patch(
        "xknx.cemi.cemi_handler.CEMIHandler.send_telegram",
        new=AsyncMock(side_effect=_send),
    )
    patcher.start()
    climate = Climate(
        xknx,
        "climate",
        group_address_target_temperature=GA_TARGET,
        group_address_target_temperature_state="2/0/3",
        group_address_setpoint_shift=GA_SHIFT,
        group_address_setpoint_shift_state="2/0/4",
        setpoint_shift_mode=SetpointShiftMode.DPT6010,
        temperature_step=0.5,
    )
    xknx.devices.async_add(climate)
    await xknx.telegram_queue.start()
    try:
        for address, payload in (
            ("2/0/3", DPTTemperature.to_knx(20.0)),
            ("2/0/4", DPTArray(0)),
        ):
            xknx.telegrams.put_nowait(
                Telegram(
                    destination_address=GroupAddress(address),
                    direction=TelegramDirection.INCOMING,
                    payload=GroupValueWrite(payload),
                )
            )
        await asyncio.wait_for(xknx.telegrams.join(), 2)
        assert climate.base_temperature == 20.0
        assert climate.target_temperature.value == 20.0

        await climate.set_target_temperature(22.0)  # -> shift +2 K, target 22 °C
        await asyncio.wait_for(first_target_on_the_wire.wait(), 2)
        # the shift telegram has looped back, the target telegram has not yet
        await climate.set_target_temperature(23.0)
        bus_confirms.set()
        await asyncio.wait_for(xknx.telegrams.join(), 2)
    finally:
        await xknx.telegram_queue.stop()
        patcher.stop()

    shifts = [
        t.payload.value.value[0] * 0.5 for t in sent if t.destination_address == GA_SHIFT
    ]
    assert climate.target_temperature.value == 23.0  # this part holds
    assert shifts[-1] == 3.0 and climate.base_temperature == 20.0, (
        "C39 violated: with a base temperature of 20 °C set_target_temperature(23) has to be "
        f"sent as a setpoint shift of +3 K, but the shifts written to the bus were {shifts} K "
        f"(the thermostat is now at {20.0 + shifts[-1]} °C); after all telegrams were processed "
        f"as outgoing the device reports target={climate.target_temperature.value} °C, "
        f"setpoint_shift={climate.setpoint_shift} K, base_temperature={climate.base_temperature} °C "
        "- the property requires the sent telegrams to leave the device at the requested 23 °C "
        "= base 20 °C + shift 3 K"
    )
