"""
C39 hunt 2 - ClimateMode with a writable controller status (DPT HVACStatus) object.

RemoteValueHVACStatus.set_operation_mode() / set_controller_mode() do a
read-modify-write of the *whole* status byte based on `self._value`, which is only
updated when a telegram is processed (looped back). Everything that was requested but is
not yet - or can never be - reflected in `_value` is silently overwritten by the next
setter call, and the stale field is even written to the bus:

* test 1: set_operation_mode(COMFORT) and set_controller_mode(COOL) called back to back
  (one service call setting preset + hvac mode, two automations, ...) before the
  TelegramQueue has looped the first telegram back: the second telegram carries the old
  operation mode, after processing the device reports STANDBY instead of COMFORT.
* test 2: no concurrency at all. operation mode object (DPT 20.102) + controller
  status: set_operation_mode(AUTO) is sent on the DPT 20.102 address only (HVACStatus
  can't encode AUTO). A later set_controller_mode(COOL) re-sends the stale ECONOMY mode
  inside the status byte; the device reports ECONOMY although AUTO was requested and
  nobody asked for a different operation mode.

Real XKNX TelegramQueue processing; only the CEMI handler (network boundary) is mocked.
"""

import os
from unittest.mock import AsyncMock, Mock

import xknx as xknx_pkg
from xknx import XKNX
from xknx.devices import ClimateMode
from xknx.dpt import DPTHVACStatus
from xknx.dpt.dpt_1 import HeatCool
from xknx.dpt.dpt_20 import HVACControllerMode, HVACOperationMode, HVACStatus
from xknx.telegram import GroupAddress, Telegram, TelegramDirection
from xknx.telegram.apci import GroupValueWrite

assert os.path.dirname(xknx_pkg.__file__).startswith(
    os.path.dirname(os.path.abspath(__file__))
), f"wrong xknx imported: {xknx_pkg.__file__}"


async def _incoming_status(xknx: XKNX, ga: str, mode: HVACOperationMode) -> None:
    status = HVACStatus(
        mode=mode,
        dew_point=False,
        heat_cool=HeatCool.HEAT,
        inactive=False,
        frost_alarm=False,
    )
    xknx.telegrams.put_nowait(
        Telegram(
            destination_address=GroupAddress(ga),
            direction=TelegramDirection.INCOMING,
            payload=GroupValueWrite(DPTHVACStatus.to_knx(status)),
        )
    )
    await xknx.telegrams.join()


async def test_two_mode_setters_before_loopback() -> None:
    """set_operation_mode() + set_controller_mode() before the first telegram looped back."""
    xknx = XKNX()
    send_telegram = AsyncMock()
    xknx.cemi_handler = Mock(send_telegram=send_telegram)  # network boundary
    await xknx.telegram_queue.start()
    try:
        climate_mode = ClimateMode(
            xknx,
            "TestClimateMode",
            group_address_controller_status="1/1/1",
            group_address_controller_status_state="1/1/2",
        )
        xknx.devices.async_add(climate_mode)
        # thermostat reports: standby / heating
        await _incoming_status(xknx, "1/1/2", HVACOperationMode.STANDBY)
        assert climate_mode.operation_mode is HVACOperationMode.STANDBY
        assert climate_mode.controller_mode is HVACControllerMode.HEAT

        await climate_mode.set_operation_mode(HVACOperationMode.COMFORT)
        await climate_mode.set_controller_mode(HVACControllerMode.COOL)
        # the device claims both requests right away
        assert climate_mode.operation_mode is HVACOperationMode.COMFORT
        assert climate_mode.controller_mode is HVACControllerMode.COOL

        await xknx.telegrams.join()  # both telegrams sent and processed as outgoing
        sent = [
            DPTHVACStatus.from_knx(call.args[0].payload.value)
            for call in send_telegram.call_args_list
        ]
        assert (
            climate_mode.operation_mode is HVACOperationMode.COMFORT
            and climate_mode.controller_mode is HVACControllerMode.COOL
        ), (
            f"requested COMFORT + COOL; after the device's own telegrams were processed "
            f"as outgoing it reports {climate_mode.operation_mode} / "
            f"{climate_mode.controller_mode}; last status written to the bus: "
            f"{sent[-1]}. C39 requires the device to report the requested values "
            f"(COMFORT / COOL)."
        )
    finally:
        await xknx.telegram_queue.stop()


async def test_controller_mode_setter_reverts_auto_operation_mode() -> None:
    """Sequential: AUTO (not encodable in HVACStatus) is reverted by set_controller_mode()."""
    xknx = XKNX()
    send_telegram = AsyncMock()
    xknx.cemi_handler = Mock(send_telegram=send_telegram)  # network boundary
    await xknx.telegram_queue.start()
    try:
        climate_mode = ClimateMode(
            xknx,
            "TestClimateMode",
            group_address_operation_mode="1/1/3",
            group_address_controller_status="1/1/1",
            group_address_controller_status_state="1/1/2",
        )
        xknx.devices.async_add(climate_mode)
        await _incoming_status(xknx, "1/1/2", HVACOperationMode.ECONOMY)
        assert climate_mode.operation_mode is HVACOperationMode.ECONOMY

        await climate_mode.set_operation_mode(HVACOperationMode.AUTO)
        await xknx.telegrams.join()
        assert climate_mode.operation_mode is HVACOperationMode.AUTO  # fine so far

        await climate_mode.set_controller_mode(HVACControllerMode.COOL)
        await xknx.telegrams.join()
        assert climate_mode.controller_mode is HVACControllerMode.COOL
        last = send_telegram.call_args_list[-1].args[0]
        assert climate_mode.operation_mode is HVACOperationMode.AUTO, (
            f"set_operation_mode(AUTO) was looped back and reported, then "
            f"set_controller_mode(COOL) wrote {DPTHVACStatus.from_knx(last.payload.value)} "
            f"to {last.destination_address} - the device now reports operation mode "
            f"{climate_mode.operation_mode}. C39 requires the requested AUTO to stay "
            f"reported; a controller mode setter must not send / report another "
            f"operation mode."
        )
    finally:
        await xknx.telegram_queue.stop()
