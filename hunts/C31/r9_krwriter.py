"""Independent keyring writer (ETS format) for hunting. Not using xknx."""
import base64, hashlib, os, random
from xml.sax.saxutils import quoteattr
from cryptography.hazmat.primitives.ciphers import Cipher, algorithms, modes

def pwhash(pw: str) -> bytes:
    return hashlib.pbkdf2_hmac("sha256", pw.encode("utf-8"), b"1.keyring.ets.knx.org", 65536, 16)

def enc(data, key, iv):
    c = Cipher(algorithms.AES(key), modes.CBC(iv)).encryptor()
    return base64.b64encode(c.update(data) + c.finalize()).decode()

def enc_pw(pw: str, key, iv, rnd=os.urandom):
    raw = pw.encode("utf-8")
    total = 32
    while 8 + len(raw) >= total:
        total += 16
    pad = total - 8 - len(raw)
    return enc(rnd(8) + raw + bytes([pad]) * pad, key, iv)

def qa(v):
    # escape for attribute incl. whitespace control chars
    s = v.replace("&", "&amp;").replace("<", "&lt;").replace(">", "&gt;").replace('"', "&quot;")
    s = s.replace("\n", "&#10;").replace("\r", "&#13;").replace("\t", "&#9;")
    return '"' + s + '"'

def el(name, attrs, children=None, indent=""):
    a = "".join(f" {k}={qa(str(v))}" for k, v in attrs if v is not None)
    if not children:
        return f"{indent}<{name}{a} />\n"
    return f"{indent}<{name}{a}>\n" + "".join(children) + f"{indent}</{name}>\n"

def sig_str(out, s):
    b = s.encode("utf-8") if isinstance(s, str) else s
    out.append(len(b) & 0xFF); out.extend(b)

def sign_tree(out, name, attrs, children):
    out.append(1); sig_str(out, name)
    for k, v in sorted((k, str(v)) for k, v in attrs if v is not None and k not in ("xmlns", "Signature")):
        sig_str(out, k); sig_str(out, v)
    for c in children or []:
        sign_tree(out, *c)
    out.append(2)

def build(project, password):
    """project: dict describing plain project. returns xml text."""
    key = pwhash(password)
    created = project["created"]
    iv = hashlib.sha256(created.encode()).digest()[:16]
    kids = []
    bb = project.get("backbone")
    if bb is not None:
        kids.append(("Backbone", [("MulticastAddress", bb.get("mc")), ("Latency", bb.get("latency")),
                                  ("Key", enc(bb["key"], key, iv) if bb.get("key") is not None else None)], []))
    for i in project["interfaces"]:
        attrs = [("IndividualAddress", i.get("ia")), ("Type", i["type"]), ("Host", i.get("host")),
                 ("UserID", i.get("user_id")),
                 ("Password", enc_pw(i["password"], key, iv) if i.get("password") is not None else None),
                 ("Authentication", enc_pw(i["auth"], key, iv) if i.get("auth") is not None else None)]
        groups = [("Group", [("Address", ga), ("Senders", " ".join(s))], []) for ga, s in i.get("groups", [])]
        kids.append(("Interface", attrs, groups))
    if project.get("gas") is not None:
        kids.append(("GroupAddresses", [], [("Group", [("Address", ga), ("Key", enc(k, key, iv))], []) for ga, k in project["gas"]]))
    if project.get("devices") is not None:
        devs = []
        for d in project["devices"]:
            devs.append(("Device", [("IndividualAddress", d["ia"]),
                ("ToolKey", enc(d["tool_key"], key, iv) if d.get("tool_key") is not None else None),
                ("ManagementPassword", enc_pw(d["mgmt"], key, iv) if d.get("mgmt") is not None else None),
                ("Authentication", enc_pw(d["auth"], key, iv) if d.get("auth") is not None else None),
                ("SequenceNumber", d.get("seq"))], []))
        kids.append(("Devices", [], devs))
    root_attrs = [("Project", project["name"]), ("CreatedBy", project["created_by"]), ("Created", created)]
    out = bytearray()
    sign_tree(out, "Keyring", root_attrs, kids)
    sig_str(out, base64.b64encode(key))
    signature = base64.b64encode(hashlib.sha256(bytes(out)).digest()[:16]).decode()
    root_attrs += [("Signature", signature), ("xmlns", "http://knx.org/xml/keyring/1")]
    def render(node, indent):
        name, attrs, children = node
        return el(name, attrs, [render(c, indent + "  ") for c in children], indent)
    return '<?xml version="1.0" encoding="utf-8"?>\n' + render(("Keyring", root_attrs, kids), "")
