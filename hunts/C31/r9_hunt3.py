"""C31 hunt 3: two <Group> entries for one group address in an <Interface> - a sender list is dropped."""
import logging

import xknx
from xknx.secure.keyring import sync_load_keyring, verify_keyring_signature
from xknx.telegram import GroupAddress, IndividualAddress

import krwriter

assert xknx.__file__.startswith("/tmp/hunt_C31"), xknx.__file__

PASSWORD = "test"


def test_all_signed_senders_of_a_group_are_loaded(tmp_path):
    logging.disable(logging.CRITICAL)
    project = {
        "name": "P",
        "created_by": "independent writer",
        "created": "2023-02-07T15:07:21",
        "interfaces": [
            {
                "type": "USB",
                "ia": "1.0.12",
                "groups": [(5, ["1.0.4"]), (6, ["1.0.7"]), (5, ["1.0.5", "1.0.6"])],
            }
        ],
        "gas": [(5, b"\x05" * 16), (6, b"\x06" * 16)],
    }
    path = tmp_path / "dup.knxkeys"
    path.write_text(krwriter.build(project, PASSWORD), encoding="utf-8")
    assert verify_keyring_signature(path, PASSWORD) is True

    keyring = sync_load_keyring(path, PASSWORD)
    loaded = keyring.interfaces[0].group_addresses
    contained = {IndividualAddress("1.0.4"), IndividualAddress("1.0.5"), IndividualAddress("1.0.6")}
    assert set(loaded[GroupAddress(5)]) == contained, (
        f"the signed keyring lists senders {sorted(map(str, contained))} for group 0/0/5 of interface 1.0.12, "
        f"the loaded keyring has {[str(s) for s in loaded[GroupAddress(5)]]}; the property requires "
        "exactly the Data Secure sender lists the file contains"
    )
    senders = keyring.get_data_secure_senders()
    assert IndividualAddress("1.0.4") in senders, (
        f"sender 1.0.4 is in the signed file but missing from get_data_secure_senders() = {senders}"
    )
