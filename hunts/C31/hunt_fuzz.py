import os, random, tempfile, logging, copy, sys
import hunt_writer as w
from xknx.secure.keyring import sync_load_keyring, verify_keyring_signature
from xknx.telegram import GroupAddress, IndividualAddress
from xknx.exceptions import InvalidSecureConfiguration
logging.disable(logging.CRITICAL)
rnd = random.Random(int(sys.argv[1]) if len(sys.argv)>1 else 1)
ALPH = "abcXYZ019 äöü€😀&<>\"'\t/\\=#;%"
def rstr(n): return "".join(rnd.choice(ALPH) for _ in range(n))
def ia(): return f"{rnd.randint(0,15)}.{rnd.randint(0,15)}.{rnd.randint(0,255)}"
def write(root):
    with tempfile.NamedTemporaryFile("w", suffix=".knxkeys", delete=False, dir=".", encoding="utf-8") as f:
        f.write(w.document(root))
    return f.name
def gen():
    pw = rstr(rnd.randint(0,30)); created = f"20{rnd.randint(10,30)}-0{rnd.randint(1,9)}-1{rnd.randint(0,9)}T0{rnd.randint(0,9)}:00:00"
    key=w.pw_hash(pw); iv=w.iv_for(created)
    root = w.new_root(rstr(rnd.randint(0,40)), created)
    exp = dict(ifaces=[], gas={}, devs=[], bb=None)
    if rnd.random()<.5:
        k=os.urandom(16); exp["bb"]=k
        root.add(w.El("Backbone", {"MulticastAddress":"224.0.23.12","Latency":str(rnd.randint(0,5000)),"Key":w.enc_key(k,key,iv)}))
    gas = rnd.sample(range(1,65536), rnd.randint(0,6))
    for _ in range(rnd.randint(0,5)):
        a = {"IndividualAddress": ia(), "Type": rnd.choice(["Tunneling","USB","Backbone"])}
        e = dict(ia=a["IndividualAddress"], type=a["Type"], host=None, uid=None, pw=None, auth=None, groups={})
        if rnd.random()<.7: a["Host"]=e["host"]=ia()
        if rnd.random()<.6:
            e["uid"]=rnd.randint(0,127); a["UserID"]=str(e["uid"])
            e["pw"]=rstr(rnd.randint(0,20)); a["Password"]=w.enc_password(e["pw"],key,iv)
            e["auth"]=rstr(rnd.randint(0,20)); a["Authentication"]=w.enc_password(e["auth"],key,iv)
        el = root.add(w.El("Interface", a))
        for g in rnd.sample(gas, rnd.randint(0,len(gas))):
            s=[ia() for _ in range(rnd.randint(0,5))]
            e["groups"][g]=s
            el.add(w.El("Group", {"Address":str(g),"Senders":" ".join(s)}))
        exp["ifaces"].append(e)
    if gas or rnd.random()<.3:
        ge=root.add(w.El("GroupAddresses"))
        for g in gas:
            k=os.urandom(16); exp["gas"][g]=k
            ge.add(w.El("Group", {"Address":str(g),"Key":w.enc_key(k,key,iv)}))
    if rnd.random()<.6:
        de=root.add(w.El("Devices"))
        for _ in range(rnd.randint(0,4)):
            a={"IndividualAddress":ia()}; e=dict(ia=a["IndividualAddress"],tool=None,mp=None,auth=None,seq=0)
            if rnd.random()<.8: e["tool"]=os.urandom(16); a["ToolKey"]=w.enc_key(e["tool"],key,iv)
            if rnd.random()<.5: e["mp"]=rstr(rnd.randint(0,20)); a["ManagementPassword"]=w.enc_password(e["mp"],key,iv)
            if rnd.random()<.5: e["auth"]=rstr(rnd.randint(0,20)); a["Authentication"]=w.enc_password(e["auth"],key,iv)
            if rnd.random()<.7: e["seq"]=rnd.randint(0,2**48-1); a["SequenceNumber"]=str(e["seq"])
            de.add(w.El("Device",a)); exp["devs"].append(e)
    w.sign(root,pw)
    return root,pw,exp
def check(k,exp):
    assert len(k.interfaces)==len(exp["ifaces"])
    for i,e in zip(k.interfaces,exp["ifaces"]):
        assert str(i.individual_address)==e["ia"] and i.type.value==e["type"]
        assert (str(i.host) if i.host else None)==e["host"], (i.host,e)
        assert i.user_id==e["uid"] and i.decrypted_password==e["pw"] and i.decrypted_authentication==e["auth"], (i.__dict__, e)
        assert {ga.raw:[str(s) for s in v] for ga,v in i.group_addresses.items()}==e["groups"]
    assert {g.address.raw:g.decrypted_key for g in k.group_addresses}==exp["gas"]
    assert (k.backbone.decrypted_key if k.backbone else None)==exp["bb"]
    assert len(k.devices)==len(exp["devs"])
    for d,e in zip(k.devices,exp["devs"]):
        assert str(d.individual_address)==e["ia"] and d.decrypted_tool_key==e["tool"] and d.decrypted_management_password==e["mp"] and d.decrypted_authentication==e["auth"] and d.sequence_number==e["seq"], (d.__dict__,e)
def all_els(r):
    yield r
    for c in r.children: yield from all_els(c)
for it in range(60):
    root,pw,exp=gen()
    p=write(root)
    try:
        k=sync_load_keyring(p,pw); check(k,exp)
        assert not verify_keyring_signature(p,pw+"x")
    finally: os.unlink(p)
    # mutations
    for _ in range(4):
        m=copy.deepcopy(root); els=list(all_els(m)); el=rnd.choice(els)
        kind=rnd.choice(["val","name","del","elname","add","move"])
        names=[n for n in el.attrs if not (el is m and n in("Signature","xmlns"))]
        if kind in("val","name","del") and not names: continue
        if kind=="val":
            n=rnd.choice(names); v=el.attrs[n]; 
            nv = v+"x" if not v else (v[:-1]+("0" if v[-1]!="0" else "1"))
            el.attrs[n]=nv
        elif kind=="name":
            n=rnd.choice(names); el.attrs={ (x+"X" if x==n else x):y for x,y in el.attrs.items()}
        elif kind=="del":
            del el.attrs[rnd.choice(names)]
        elif kind=="elname": el.name=el.name+"X"
        elif kind=="add": el.attrs["Extra"]=""
        elif kind=="move":
            if len(els)<3: continue
            a=rnd.choice(els[1:]); 
            par=[e for e in els if a in e.children][0]; par.children.remove(a)
            tgt=rnd.choice([e for e in all_els(m) ]); 
            if tgt is par: tgt.children.insert(0,a) if len(par.children)>0 else None
            else: tgt.children.append(a)
            if tgt is par and len(par.children)<=1: continue
        if w.document(m)==w.document(root): continue
        p=write(m)
        try:
            try: ok=verify_keyring_signature(p,pw)
            except Exception as ex: ok=f"EXC {type(ex).__name__}"
            if ok is not False: print("MUTATION NOT DETECTED", kind, ok, el.name)
        finally: os.unlink(p)
print("done")
