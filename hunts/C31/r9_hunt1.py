"""C31 hunt 1: the file is verified on one read and loaded from a later, separate read.

sync_load_keyring() opens the keyring file three times (ElementTree for the
Signature attribute, SAX for the signed octets, minidom for the content).  If the
file changes between the verification reads and the loading read, content that
was never verified is loaded and no error is raised.
"""
import logging
import os
import pathlib

import pytest

import xknx
from xknx.exceptions import InvalidSecureConfiguration
from xknx.secure.keyring import sync_load_keyring, verify_keyring_signature
from xknx.telegram import GroupAddress

import krwriter

assert xknx.__file__.startswith("/tmp/hunt_C31"), xknx.__file__

PASSWORD = "test"
KEY_A = bytes(range(16))
KEY_B = bytes(range(16, 32))


def _project():
    return {
        "name": "P",
        "created_by": "ETS",
        "created": "2023-02-07T15:07:21",
        "interfaces": [
            {"type": "USB", "ia": "1.0.12", "groups": [(1, ["1.0.4"]), (2, ["1.0.4"])]}
        ],
        "gas": [(1, KEY_A), (2, KEY_B)],
    }


def test_content_changed_between_verification_and_loading(tmp_path, monkeypatch):
    logging.disable(logging.CRITICAL)
    good = krwriter.build(_project(), PASSWORD)
    # tampered variant: the key of group address 2 is removed (that group would be
    # treated as a plain, unsecured group) - Signature attribute left as it was
    lines = good.split("\n")
    tampered = "\n".join(
        ln for ln in lines if not (ln.strip().startswith('<Group Address="2" Key='))
    )
    assert tampered != good

    path = tmp_path / "project.knxkeys"
    path.write_text(good, encoding="utf-8")
    tampered_path = tmp_path / "tampered.knxkeys"
    tampered_path.write_text(tampered, encoding="utf-8")
    assert verify_keyring_signature(path, PASSWORD) is True
    assert verify_keyring_signature(tampered_path, PASSWORD) is False  # tampering is detectable

    # file system boundary: the file is replaced after it was opened twice
    real_open = pathlib.Path.open
    opens = []

    def counting_open(self, *args, **kwargs):
        if os.fspath(self) == os.fspath(path):
            opens.append(1)
            if len(opens) == 3:
                os.replace(tampered_path, path)
        return real_open(self, *args, **kwargs)

    monkeypatch.setattr(pathlib.Path, "open", counting_open)

    try:
        keyring = sync_load_keyring(path, PASSWORD)
    except InvalidSecureConfiguration:
        return  # fine: tampering noticed
    finally:
        monkeypatch.undo()
    keys = keyring.get_data_secure_group_keys()
    assert keys == {GroupAddress(1): KEY_A, GroupAddress(2): KEY_B}, (
        f"sync_load_keyring(validate_signature=True) returned group keys {keys} after {len(opens)} "
        "separate opens of the file: the content it loaded is not the content whose signature it "
        "verified (the key of 0/0/2 was removed from the file after verification). The property "
        "requires that a change to the signed content makes loading fail, or that exactly the "
        "verified content is loaded."
    )
