"""
C31 hunt 1: a keyring with an attribute value longer than 255 UTF-8 bytes cannot be loaded.

`KeyringSAXContentHandler.append_string` does `self.output.append(len(value))` on a bytearray,
which raises `ValueError: byte must be in range(0, 256)` as soon as any element name, attribute
name or attribute value is longer than 255 bytes.  The most natural trigger is the `Senders`
attribute of an `<Interface><Group>` element: it is a space separated list of individual
addresses, so a group address with ~35+ sending devices crosses the limit.

Run: /venv/bin/python -m pytest -q -p no:cacheprovider hunt1.py
"""

from __future__ import annotations

import logging
import os
from pathlib import Path

import pytest

import hunt_writer as w
from xknx.exceptions import InvalidSecureConfiguration
from xknx.secure.keyring import sync_load_keyring
from xknx.telegram import GroupAddress, IndividualAddress

logging.getLogger("xknx.core").setLevel(logging.CRITICAL)

PASSWORD = "correct horse"
CREATED = "2024-03-01T10:11:12"
GROUP_KEY = bytes(range(16))
TUNNEL_PW = "tunnel_pw"

LENGTH_ENCODINGS = {
    # the two plausible one-byte length conventions for >255; they are identical below 128/256
    "mod256": w.length_mod256,
    "leb128": w.length_leb128,
}


def build(tmp_path: Path, n_senders: int, length_byte, project: str = "Big project") -> tuple[Path, list[str]]:
    key, iv = w.pw_hash(PASSWORD), w.iv_for(CREATED)
    senders = [f"1.{1 + x // 200}.{1 + x % 200}" for x in range(n_senders)]
    root = w.new_root(project, CREATED)
    iface = root.add(
        w.El(
            "Interface",
            {
                "IndividualAddress": "1.0.4",
                "Type": "Tunneling",
                "Host": "1.0.3",
                "UserID": "2",
                "Password": w.enc_password(TUNNEL_PW, key, iv),
            },
        )
    )
    iface.add(w.El("Group", {"Address": "2305", "Senders": " ".join(senders)}))
    gas = root.add(w.El("GroupAddresses"))
    gas.add(w.El("Group", {"Address": "2305", "Key": w.enc_key(GROUP_KEY, key, iv)}))
    w.sign(root, PASSWORD, length_byte)
    path = tmp_path / "big.knxkeys"
    path.write_text(w.document(root), encoding="utf-8")
    return path, senders


def check_loaded(keyring, senders: list[str]) -> None:
    assert keyring.get_data_secure_group_keys() == {GroupAddress(2305): GROUP_KEY}
    iface = keyring.interfaces[0]
    assert iface.decrypted_password == TUNNEL_PW
    assert iface.group_addresses[GroupAddress(2305)] == [
        IndividualAddress(s) for s in senders
    ]


@pytest.mark.parametrize("encoding", LENGTH_ENCODINGS)
def test_control_18_senders_loads(tmp_path: Path, encoding: str) -> None:
    """Control: Senders value < 128 bytes -> writer and xknx agree, keyring loads (passes)."""
    path, senders = build(tmp_path, 18, LENGTH_ENCODINGS[encoding])
    assert len(" ".join(senders)) < 128
    check_loaded(sync_load_keyring(path, PASSWORD), senders)


@pytest.mark.parametrize("encoding", LENGTH_ENCODINGS)
def test_group_with_40_senders_loads(tmp_path: Path, encoding: str) -> None:
    """40 devices sending to one secure group address -> Senders attribute is > 255 bytes."""
    path, senders = build(tmp_path, 40, LENGTH_ENCODINGS[encoding])
    assert len(" ".join(senders)) > 255
    try:
        keyring = sync_load_keyring(path, PASSWORD)
    except InvalidSecureConfiguration:
        # the writer's convention for lengths > 255 is not the one xknx expects: not what we hunt
        pytest.skip("length convention mismatch")
    except Exception as exc:  # noqa: BLE001
        pytest.fail(
            f"OBSERVED: loading a correctly signed keyring with the correct password raised "
            f"{type(exc).__name__}: {exc} (Senders attribute is {len(' '.join(senders))} bytes, "
            f"length convention {encoding}). "
            "REQUIRED (C31): loading with the correct password recovers exactly the group keys, "
            "tunnel passwords and Data Secure sender lists the keyring contains. "
            "The same file loads fine with validate_signature=False, so only the signature "
            "serialiser (append_string: bytearray.append(len(value))) is at fault."
        )
    check_loaded(keyring, senders)


def test_same_file_loads_without_signature_check(tmp_path: Path) -> None:
    """Control: the content itself is fine - it is only the signature serialiser that crashes."""
    path, senders = build(tmp_path, 40, w.length_mod256)
    check_loaded(sync_load_keyring(path, PASSWORD, validate_signature=False), senders)


def test_tampered_long_value_is_rejected_as_invalid_secure_configuration(tmp_path: Path) -> None:
    """Tamper side: a mutation that makes one value > 255 bytes must be *rejected*, not crash."""
    path, _ = build(tmp_path, 3, w.length_mod256)
    text = path.read_text(encoding="utf-8")
    assert 'Project="Big project"' in text
    path.write_text(
        text.replace('Project="Big project"', f'Project="{"B" * 300}"'), encoding="utf-8"
    )
    try:
        sync_load_keyring(path, PASSWORD)
    except InvalidSecureConfiguration:
        return
    except Exception as exc:  # noqa: BLE001
        pytest.fail(
            f"OBSERVED: a keyring whose signed Project attribute was changed (to 300 bytes) made "
            f"sync_load_keyring raise {type(exc).__name__}: {exc}. "
            "REQUIRED (C31): signature verification *fails* (InvalidSecureConfiguration, the "
            "documented error of sync_load_keyring / load_keyring) for any change of a signed "
            "attribute value."
        )
    pytest.fail("tampered keyring was accepted")


if __name__ == "__main__":
    raise SystemExit(pytest.main(["-q", "-p", "no:cacheprovider", os.path.abspath(__file__)]))
