"""
C31 hunt 3: the content that is verified is not the content that is loaded (check/use race).

`sync_load_keyring` opens the file THREE times: twice inside `verify_keyring_signature`
(ElementTree for the Signature attribute, SAX for the hash) and a third time for the minidom
parse that fills the `Keyring`.  Each read is an independent open()/close(), so a writer that
replaces the file between the 2nd and the 3rd open (re-export from ETS to the same path, an
upload handler overwriting the stored keyring while the integration reloads, or an attacker
without the password) gets content loaded whose signature was never checked, without any error.
The window is short (one SAX parse + one SHA256), the trigger is therefore rare.

Schedule (deterministic, injected at the file-system boundary only):
  open #1, #2  -> original, correctly signed keyring            (verification succeeds)
  -- file replaced by a variant with ONE changed attribute (Senders) and a stale Signature --
  open #3      -> tampered keyring                              (parsed + returned)

Run: /venv/bin/python -m pytest -q -p no:cacheprovider hunt3.py
"""

from __future__ import annotations

import asyncio
import os
from pathlib import Path
from unittest.mock import patch

import pytest

from xknx.exceptions import InvalidSecureConfiguration
from xknx.secure.keyring import load_keyring, sync_load_keyring, verify_keyring_signature
from xknx.telegram import GroupAddress, IndividualAddress

SOURCE = (
    Path(__file__).parent
    / "test/secure_tests/resources/DataSecure_only_one_interface.knxkeys"
)
PASSWORD = "test"
ORIGINAL_ATTR = 'Address="1" Senders="1.0.1 1.0.2"'
TAMPERED_ATTR = 'Address="1" Senders="1.0.1 1.0.2 15.15.255"'


def run_with_replacement_before_open(nth: int, path: Path, tampered_text: str):
    """Load `path`; just before the `nth` open of it, a concurrent writer replaces the file."""
    real_open = Path.open
    opens = 0

    def counting_open(self: Path, *args, **kwargs):
        nonlocal opens
        if Path(self) == path:
            opens += 1
            if opens == nth:
                tmp = path.with_suffix(".tmp")
                tmp.write_text(tampered_text, encoding="utf-8")
                os.replace(tmp, path)  # atomic replace, like a well behaved writer
        return real_open(self, *args, **kwargs)

    with patch.object(Path, "open", counting_open):
        keyring = asyncio.run(load_keyring(path, PASSWORD))
    return keyring, opens


def test_file_replaced_between_verification_and_parsing(tmp_path: Path) -> None:
    original = SOURCE.read_text(encoding="utf-8")
    assert original.count(ORIGINAL_ATTR) == 1
    tampered = original.replace(ORIGINAL_ATTR, TAMPERED_ATTR)

    path = tmp_path / "project.knxkeys"

    # controls: original verifies, tampered on its own is rejected
    path.write_text(original, encoding="utf-8")
    assert verify_keyring_signature(path, PASSWORD)
    path.write_text(tampered, encoding="utf-8")
    assert not verify_keyring_signature(path, PASSWORD)
    with pytest.raises(InvalidSecureConfiguration):
        sync_load_keyring(path, PASSWORD)

    # the schedule
    path.write_text(original, encoding="utf-8")
    try:
        keyring, opens = run_with_replacement_before_open(3, path, tampered)
    except InvalidSecureConfiguration:
        return  # tampering noticed: property holds
    senders = keyring.interfaces[0].group_addresses[GroupAddress(1)]
    accepted_senders = keyring.get_data_secure_senders()
    assert IndividualAddress("15.15.255") not in senders, (
        f"OBSERVED: load_keyring() opened the file {opens} times; the file was replaced after "
        f"signature verification (opens 1-2) and before parsing (open 3). It returned a Keyring "
        f"whose sender list for 0/0/1 is {[str(s) for s in senders]} and whose Data Secure "
        f"sender table is {sorted(str(s) for s in accepted_senders)} - i.e. the content of a file "
        "that fails signature verification - without raising. "
        "REQUIRED (C31): signature verification fails for any change to the signed content "
        "(attribute values); what is loaded must be what was verified."
    )


if __name__ == "__main__":
    raise SystemExit(pytest.main(["-q", "-p", "no:cacheprovider", os.path.abspath(__file__)]))
