"""C31 hunt 4: one <Interface> without IndividualAddress makes the whole (validly signed) keyring unloadable."""
import logging

import xknx
from xknx.exceptions import InvalidSecureConfiguration
from xknx.secure.keyring import sync_load_keyring, verify_keyring_signature
from xknx.telegram import GroupAddress

import krwriter

assert xknx.__file__.startswith("/tmp/hunt_C31"), xknx.__file__

PASSWORD = "test"


def test_interface_without_individual_address(tmp_path):
    logging.disable(logging.CRITICAL)
    project = {
        "name": "P",
        "created_by": "independent writer",
        "created": "2023-02-07T15:07:21",
        "backbone": {"mc": "224.0.23.12", "latency": 1000, "key": b"\x0b" * 16},
        "interfaces": [
            {"type": "Backbone", "ia": None},  # only the required Type attribute
            {"type": "USB", "ia": "1.0.12", "groups": [(5, ["1.0.4"])]},
        ],
        "gas": [(5, b"\x05" * 16)],
    }
    path = tmp_path / "noia.knxkeys"
    path.write_text(krwriter.build(project, PASSWORD), encoding="utf-8")
    assert verify_keyring_signature(path, PASSWORD) is True
    try:
        keyring = sync_load_keyring(path, PASSWORD)
    except InvalidSecureConfiguration as exc:
        raise AssertionError(
            "sync_load_keyring() with the correct password and a valid signature raised "
            f"InvalidSecureConfiguration (cause: {exc.__cause__!r}) because one <Interface Type=\"Backbone\"/> "
            "has no IndividualAddress; the property requires the group keys / backbone key the file contains to be recovered"
        ) from exc
    assert keyring.get_data_secure_group_keys() == {GroupAddress(5): b"\x05" * 16}
    assert keyring.backbone.decrypted_key == b"\x0b" * 16
