"""
C31 hunt 2: a *wrong* password passes signature verification (and decrypts everything).

The keyring password is fed as HMAC key into PBKDF2-HMAC-SHA256.  HMAC right-pads keys shorter
than the block size (64 bytes) with zero bytes, so `password` and `password + "\\x00" * n` yield
the identical 16 byte keyring key.  xknx passes the password string through unchanged
(`hash_keyring_password(password.encode("utf-8"))`), therefore a password that differs from the
real one by trailing NUL characters verifies the signature of the real ETS exports shipped with
the tests and decrypts all secrets.

Run: /venv/bin/python -m pytest -q -p no:cacheprovider hunt2.py
"""

from __future__ import annotations

import os
from pathlib import Path

import pytest

from xknx.exceptions import InvalidSecureConfiguration
from xknx.secure.keyring import sync_load_keyring, verify_keyring_signature

RESOURCES = Path(__file__).parent / "test" / "secure_tests" / "resources"

REAL_EXPORTS = [
    ("keyring.knxkeys", "pwd"),
    ("testcase.knxkeys", "password"),
    ("special_chars_secure_tunnel.knxkeys", "test"),
    ("DataSecure_only_one_interface.knxkeys", "test"),
    ("DataSecure_usb.knxkeys", "test"),
]


@pytest.mark.parametrize(("file", "password"), REAL_EXPORTS)
def test_control_other_wrong_passwords_fail(file: str, password: str) -> None:
    """Control (passes): ordinary wrong passwords are rejected."""
    assert verify_keyring_signature(RESOURCES / file, password)
    for wrong in (password + " ", password.upper(), "\x00" + password, password[:-1]):
        assert not verify_keyring_signature(RESOURCES / file, wrong)


@pytest.mark.parametrize(("file", "password"), REAL_EXPORTS)
@pytest.mark.parametrize("nuls", [1, 2, 7])
def test_password_with_trailing_nul_is_a_wrong_password(file: str, password: str, nuls: int) -> None:
    wrong = password + "\x00" * nuls
    assert wrong != password
    verified = verify_keyring_signature(RESOURCES / file, wrong)
    loaded = None
    try:
        loaded = sync_load_keyring(RESOURCES / file, wrong)
    except InvalidSecureConfiguration:
        pass
    assert not verified and loaded is None, (
        f"OBSERVED: {file}: verify_keyring_signature(..., {wrong!r}) returned {verified} and "
        f"sync_load_keyring(..., {wrong!r}) "
        f"{'returned a decrypted Keyring' if loaded is not None else 'raised'}, although the "
        f"keyring password is {password!r}. "
        "REQUIRED (C31): signature verification fails for a wrong password."
    )


if __name__ == "__main__":
    raise SystemExit(pytest.main(["-q", "-p", "no:cacheprovider", os.path.abspath(__file__)]))
