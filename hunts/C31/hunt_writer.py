"""
Independent knxkeys writer used by the hunt files (does NOT import xknx.secure.keyring).

Format (KNX keyring 1, as produced by ETS and documented by the Calimero reference
implementation):
 * password hash  = PBKDF2-HMAC-SHA256(password, salt "1.keyring.ets.knx.org", 65536 it., 16 bytes)
 * IV             = SHA256(Created)[:16]
 * keys           = base64(AES128-CBC(key16))
 * passwords      = base64(AES128-CBC(8 random bytes + utf8(password) + padding)),
                    padded to a multiple of 32 bytes with the pad count as pad byte
                    (this is what the real ETS exports shipped with the tests look like).
 * signature      = SHA256(stream)[:16], stream = for every element in document order
                    0x01, str(name), str(attr name), str(attr value) ... (attributes sorted by name,
                    'xmlns' and 'Signature' skipped), children, 0x02; finally str(base64(password hash)).
                    str(x) = one length byte + utf-8 bytes.
"""

from __future__ import annotations

import base64
import hashlib
import os
from xml.sax.saxutils import quoteattr

from cryptography.hazmat.primitives.ciphers import Cipher, algorithms, modes

SALT = b"1.keyring.ets.knx.org"


def pw_hash(password: str) -> bytes:
    return hashlib.pbkdf2_hmac("sha256", password.encode("utf-8"), SALT, 65536, 16)


def iv_for(created: str) -> bytes:
    return hashlib.sha256(created.encode("utf-8")).digest()[:16]


def _enc(data: bytes, key: bytes, iv: bytes) -> str:
    enc = Cipher(algorithms.AES(key), modes.CBC(iv)).encryptor()
    return base64.b64encode(enc.update(data) + enc.finalize()).decode()


def enc_key(key16: bytes, key: bytes, iv: bytes) -> str:
    assert len(key16) == 16
    return _enc(key16, key, iv)


def enc_password(plain: str, key: bytes, iv: bytes) -> str:
    body = os.urandom(8) + plain.encode("utf-8")
    pad = 32 - len(body) % 32
    return _enc(body + bytes([pad]) * pad, key, iv)


class El:
    """Minimal element tree: name, ordered attributes, children."""

    def __init__(self, name: str, attrs: dict[str, str] | None = None) -> None:
        self.name = name
        self.attrs = dict(attrs or {})
        self.children: list[El] = []

    def add(self, child: El) -> El:
        self.children.append(child)
        return child

    def to_xml(self, indent: int = 0) -> str:
        pad = "  " * indent
        attrs = "".join(f" {k}={quoteattr(v)}" for k, v in self.attrs.items())
        if not self.children:
            return f"{pad}<{self.name}{attrs} />\n"
        inner = "".join(c.to_xml(indent + 1) for c in self.children)
        return f"{pad}<{self.name}{attrs}>\n{inner}{pad}</{self.name}>\n"


def _sig_str(out: bytearray, value: str | bytes, length_byte) -> None:
    raw = value.encode("utf-8") if isinstance(value, str) else value
    out.extend(length_byte(len(raw)))
    out.extend(raw)


def _sig_el(out: bytearray, el: El, length_byte) -> None:
    out.append(1)
    _sig_str(out, el.name, length_byte)
    for name in sorted(el.attrs):
        if name in ("xmlns", "Signature"):
            continue
        _sig_str(out, name, length_byte)
        _sig_str(out, el.attrs[name], length_byte)
    for child in el.children:
        _sig_el(out, child, length_byte)
    out.append(2)


def length_mod256(n: int) -> bytes:
    """One length byte, low 8 bits (java.io.ByteArrayOutputStream.write(int) / C# (byte) cast)."""
    return bytes([n & 0xFF])


def length_leb128(n: int) -> bytes:
    """.NET BinaryWriter 7-bit encoded length (identical to one byte for n < 128)."""
    out = bytearray()
    while n >= 0x80:
        out.append((n & 0x7F) | 0x80)
        n >>= 7
    out.append(n)
    return bytes(out)


def sign(root: El, password: str, length_byte=length_mod256) -> None:
    out = bytearray()
    _sig_el(out, root, length_byte)
    _sig_str(out, base64.b64encode(pw_hash(password)), length_byte)
    root.attrs["Signature"] = base64.b64encode(
        hashlib.sha256(bytes(out)).digest()[:16]
    ).decode()


def document(root: El) -> str:
    return '<?xml version="1.0" encoding="utf-8"?>\n' + root.to_xml()


def new_root(project: str, created: str) -> El:
    # attribute order as in ETS exports; Signature is filled in by sign()
    return El(
        "Keyring",
        {
            "Project": project,
            "CreatedBy": "ETS 5.7.7 (Build 1428)",
            "Created": created,
            "Signature": "",
            "xmlns": "http://knx.org/xml/keyring/1",
        },
    )
