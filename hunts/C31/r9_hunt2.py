"""C31 hunt 2: a wrong password (correct password + NUL octets) passes signature verification."""
import logging

import pytest

import xknx
from xknx.exceptions import InvalidSecureConfiguration
from xknx.secure.keyring import sync_load_keyring, verify_keyring_signature

assert xknx.__file__.startswith("/tmp/hunt_C31"), xknx.__file__

RES = "/tmp/hunt_C31/test/secure_tests/resources/"


@pytest.mark.parametrize(
    ("file", "password"),
    [("testcase.knxkeys", "password"), ("keyring.knxkeys", "pwd"), ("DataSecure_usb.knxkeys", "test")],
)
@pytest.mark.parametrize("suffix", ["\x00", "\x00\x00\x00"])
def test_wrong_password_with_nul_suffix_is_rejected(file, password, suffix):
    logging.disable(logging.CRITICAL)
    assert verify_keyring_signature(RES + file, password) is True
    wrong = password + suffix
    assert wrong != password
    result = verify_keyring_signature(RES + file, wrong)
    assert result is False, (
        f"verify_keyring_signature({file!r}, {wrong!r}) returned {result!r} although the keyring "
        f"password is {password!r}; the property requires signature verification to fail for a wrong password"
    )
    with pytest.raises(InvalidSecureConfiguration):
        sync_load_keyring(RES + file, wrong)
