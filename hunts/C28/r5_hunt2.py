"""
C28 hunt 2 - the session handshake lets a bare `ValueError` of the crypto backend
escape for SessionResponses whose ECDH public value is a small-order Curve25519
point (e.g. 32 zero octets); SecureTunnel's reconnect loop dies on it.

Input: a well-formed SESSION_RESPONSE (right length, any session id) with
`ecdh_server_public_key` in {0, 1, p-1, p, the two order-8 points}.
No device authentication password configured (it is optional), so the
SessionResponse MAC is not checked - any TCP peer can send this.

Only the network boundary (TCPTransport.connect -> socket creation) is mocked.
"""

import asyncio
from unittest.mock import Mock, patch

import pytest

from xknx import XKNX
from xknx.exceptions import CommunicationError
from xknx.io.ip_secure import SecureSession
from xknx.io.transport.tcp_transport import TCPTransport
from xknx.io.tunnel import SecureTunnel
from xknx.knxip import KNXIPFrame, SessionRequest, SessionResponse

P = 2**255 - 19
SMALL_ORDER_PUBLIC_VALUES = {
    "0": bytes(32),
    "1": (1).to_bytes(32, "little"),
    "order8-a": bytes.fromhex(
        "e0eb7a7c3b41b8ae1656e3faf19fc46ada098deb9c32b1fd866205165f49b800"
    ),
    "order8-b": bytes.fromhex(
        "5f9c95bca3508c24b1d0b1559c83ef5b04445cc4581c8e86d8224eddd09f1157"
    ),
    "p-1": (P - 1).to_bytes(32, "little"),
    "p": P.to_bytes(32, "little"),
}


def _fake_tcp_connect(written: list[bytes]):
    async def _connect(self: TCPTransport) -> None:
        self.transport = Mock()
        self.transport.write = written.append

    return _connect


async def _answer_session_request(
    session: SecureSession, written: list[bytes], server_public_key: bytes
) -> None:
    """Play the server: wait for the SessionRequest, answer with a SessionResponse."""
    for _ in range(20):
        if written:
            break
        await asyncio.sleep(0)
    request, _ = KNXIPFrame.from_knx(written[0])
    assert isinstance(request.body, SessionRequest)
    response = KNXIPFrame.init_from_body(
        SessionResponse(
            secure_session_id=1,
            ecdh_server_public_key=server_public_key,
            message_authentication_code=bytes(16),  # not checked without device auth
        )
    )
    session.data_received_callback(response.to_knx())


@pytest.mark.parametrize("name", SMALL_ORDER_PUBLIC_VALUES)
async def test_session_connect_small_order_server_key(name: str) -> None:
    """SecureSession.connect() must fail with a CommunicationError - or handshake."""
    written: list[bytes] = []
    with patch.object(TCPTransport, "connect", _fake_tcp_connect(written)):
        session = SecureSession(
            remote_addr=("10.0.0.9", 3671), user_id=2, user_password="secret"
        )
        task = asyncio.create_task(session.connect())
        await _answer_session_request(session, written, SMALL_ORDER_PUBLIC_VALUES[name])
        done, _ = await asyncio.wait([task], timeout=0.2)
        if not done:
            # handshake went on (SessionAuthenticate sent, waiting for its answer)
            task.cancel()
            session.stop()
            return
        exc = task.exception()
        session.stop()
        assert isinstance(exc, CommunicationError), (
            f"SessionResponse with ECDH public value {name}: SecureSession.connect() "
            f"raised {type(exc).__name__}({exc}) from the crypto backend. The handshake "
            "shall either produce the SessionAuthenticate MAC (which does not depend on "
            "the shared secret; an independent RFC 7748 implementation yields one) or "
            "refuse the response with IPSecureError/CommunicationError, the only error "
            "its callers (Tunnel.connect, Tunnel._reconnect) handle."
        )


async def test_secure_tunnel_reconnect_dies_on_small_order_server_key() -> None:
    """The reconnect loop of a SecureTunnel must survive such a SessionResponse."""
    written: list[bytes] = []
    xknx = XKNX()
    with patch.object(TCPTransport, "connect", _fake_tcp_connect(written)):
        tunnel = SecureTunnel(
            xknx,
            cemi_received_callback=Mock(),
            gateway_ip="10.0.0.9",
            gateway_port=3671,
            user_id=2,
            user_password="secret",
            auto_reconnect=True,
            auto_reconnect_wait=0,
        )
        # the TCP connection was lost - the tunnel starts its reconnect task
        tunnel._tunnel_lost()
        reconnect_task = tunnel._reconnect_task
        assert reconnect_task is not None
        await _answer_session_request(tunnel.transport, written, bytes(32))
        await asyncio.wait([reconnect_task], timeout=0.2)
        died = reconnect_task.done()
        exc = reconnect_task.exception() if died else None
        state = xknx.connection_manager.state
        socket_left_open = tunnel.transport.transport is not None
        if not died:
            reconnect_task.cancel()
        tunnel.transport.stop()
        assert not died, (
            "one SessionResponse with an all-zero ECDH public value ended the "
            f"auto-reconnect task of SecureTunnel with {type(exc).__name__}({exc}); "
            f"connection state is left at {state}, TCP transport left open: "
            f"{socket_left_open}. No further reconnect attempt is ever made - the "
            "tunnel stays down although auto_reconnect=True. A refused handshake "
            "shall surface as IPSecureError (a CommunicationError) and be retried."
        )
