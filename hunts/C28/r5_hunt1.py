"""
C28 hunt 1 - a cancelled SecureGroup.connect() is swallowed and leaves the
secure multicast transport permanently unable to unwrap authentic SecureWrappers.

Schedule: the task awaiting `SecureGroup.connect()` is cancelled (plain
`task.cancel()` or an expiring `asyncio.timeout()` / `asyncio.wait_for()`)
while `SecureSequenceTimer.synchronize()` is suspended at `await waiter_fut`
(the 3.3 s window in which nobody has answered the TimerNotify yet).

Only the network boundary (UDPTransport.connect -> socket creation) is mocked.
"""

import asyncio
from unittest.mock import Mock, patch

from xknx.io.ip_secure import SecureGroup
from xknx.io.transport.udp_transport import UDPTransport
from xknx.knxip import KNXIPFrame, RoutingIndication

BACKBONE_KEY = bytes.fromhex("000102030405060708090a0b0c0d0e0f")
RAW_CEMI = bytes.fromhex("2900bce010fa092d010080")


async def _fake_udp_connect(self: UDPTransport) -> None:
    """Stand-in for the socket creation of UDPTransport.connect()."""
    self.transport = Mock()
    self.local_addr_assigned = ("10.0.0.1", 50000)


def _new_group() -> SecureGroup:
    return SecureGroup(
        local_addr=("10.0.0.1", 0),
        remote_addr=("224.0.23.12", 3671),
        backbone_key=BACKBONE_KEY,
        latency_ms=1000,
    )


def _authentic_wrapper_from_peer(timer_value: int) -> bytes:
    """Let a second, fully synchronised library instance wrap a RoutingIndication."""
    peer = _new_group()
    peer.transport = Mock()
    peer.secure_timer.timer_authenticated = True
    peer.secure_timer.update(timer_value)
    plain = KNXIPFrame.init_from_body(RoutingIndication(raw_cemi=RAW_CEMI))
    raw = peer.encrypt_frame(plain).to_knx()
    peer.secure_timer.stop()
    return raw


async def _deliver_and_check(group: SecureGroup, how: str) -> None:
    received: list[KNXIPFrame] = []
    group.register_callback(lambda frame, source, transport: received.append(frame))
    # connect() has returned - nothing is pending that could still authenticate the timer
    wrapper = _authentic_wrapper_from_peer(group.secure_timer.current_timer_value())
    group.data_received_callback(wrapper, ("10.0.0.2", 3671))
    plain = KNXIPFrame.init_from_body(RoutingIndication(raw_cemi=RAW_CEMI))
    try:
        assert received and received[0] == plain, (
            f"{how}: SecureGroup.connect() RETURNED NORMALLY although its task was "
            "cancelled during timer synchronisation; the transport now looks connected "
            f"(timer_authenticated={group.secure_timer.timer_authenticated}, "
            f"notify timer={group.secure_timer._notify_timer_handle}) but an authentic, "
            "fresh SecureWrapper (right backbone key, session id 0, current timer value) "
            f"was discarded instead of unwrapped: delivered={received}. "
            "C28 requires that a wrapped frame unwraps to the identical frame; "
            "a cancelled connect() must raise CancelledError/TimeoutError instead "
            "of leaving a transport that rejects every authentic wrapper for ever."
        )
    finally:
        group.stop()


@patch.object(UDPTransport, "connect", _fake_udp_connect)
async def test_connect_cancelled_by_timeout_during_timer_sync() -> None:
    """`asyncio.timeout()` around connect() expires while the timer is synchronised."""
    group = _new_group()
    timed_out = False
    try:
        async with asyncio.timeout(0.05):
            await group.connect()
    except TimeoutError:
        timed_out = True
    if timed_out:
        group.stop()
        return  # cancellation was honoured - nothing claims to be connected
    await _deliver_and_check(group, "asyncio.timeout(0.05) around connect()")


@patch.object(UDPTransport, "connect", _fake_udp_connect)
async def test_connect_task_cancelled_during_timer_sync() -> None:
    """Plain task.cancel() while connect() waits for the TimerNotify answer."""
    group = _new_group()
    task = asyncio.create_task(group.connect())
    await asyncio.sleep(0.05)
    assert not task.done()
    task.cancel()
    await asyncio.wait([task])
    if task.cancelled():
        group.stop()
        return  # cancellation was honoured
    assert task.exception() is None
    await _deliver_and_check(group, "task.cancel() of connect()")
