"""
C28 hunt 3 - at the wrap-around of the 48 bit session sequence counter the secure
session can neither be stopped nor re-established ("reset"), although that is
what the IPSecureError raised by `encrypt_frame()` tells the user to do.

History: an established session whose `_sequence_number` reached 2**48
(all 2**48 sequence numbers 0 .. 2**48-1 were used for SecureWrappers).
  1. send() raises IPSecureError "sequence counter overflow ... reset the secure session"
  2. stop()    -> wants to wrap a SessionStatus CLOSE -> raises the same IPSecureError
                  before `initialized` is cleared and before the TCP transport is closed
  3. connect() -> begins with `self.stop()` -> raises again; a new session (which
                  would start at sequence number 0 with a new key) is never negotiated

Only the network boundary (TCPTransport.connect -> socket creation) is mocked.
"""

import asyncio
from unittest.mock import Mock, patch

import pytest

from xknx.exceptions import IPSecureError
from xknx.io.ip_secure import SecureSession
from xknx.io.transport.tcp_transport import TCPTransport
from xknx.knxip import KNXIPFrame, SecureWrapper, SessionRequest, TunnellingRequest


async def test_reset_of_session_after_sequence_counter_overflow() -> None:
    """The session must be resettable after its sequence counter is used up."""
    written: list[bytes] = []
    connects = 0

    async def _connect(self: TCPTransport) -> None:
        nonlocal connects
        connects += 1
        self.transport = Mock()
        self.transport.write = written.append

    with patch.object(TCPTransport, "connect", _connect):
        session = SecureSession(
            remote_addr=("10.0.0.9", 3671), user_id=2, user_password="secret"
        )
        # an established session (key agreed, authenticated)
        await TCPTransport.connect(session)
        old_tcp_transport = session.transport
        session._key = bytes(range(16))
        session.session_id = 1
        session.initialized = True

        frame = KNXIPFrame.init_from_body(
            TunnellingRequest(raw_cemi=bytes.fromhex("2900bce010fa092d010080"))
        )
        # the last sequence number still wraps and unwraps
        session._sequence_number = 2**48 - 1
        session.send(frame)
        wrapper, _ = KNXIPFrame.from_knx(written.pop())
        assert isinstance(wrapper.body, SecureWrapper)
        assert wrapper.body.sequence_information == b"\xff" * 6
        assert session.decrypt_frame(wrapper) == frame
        # the counter is used up now
        assert session._sequence_number == 2**48
        with pytest.raises(IPSecureError, match="reset the secure session"):
            session.send(frame)

        # follow the advice: reset the session
        stop_error = None
        try:
            session.stop()
        except IPSecureError as err:
            stop_error = err
        connect_task = asyncio.create_task(session.connect())
        await asyncio.sleep(0.05)
        new_session_requested = any(
            isinstance(KNXIPFrame.from_knx(raw)[0].body, SessionRequest)
            for raw in written
        )
        connect_error = (
            connect_task.exception()
            if connect_task.done() and not connect_task.cancelled()
            else None
        )
        state = (
            f"stop() raised: {type(stop_error).__name__ if stop_error else None}; "
            f"initialized={session.initialized}; "
            f"old TCP transport closed={old_tcp_transport.close.called}; "
            f"keepalive task={session._keepalive_task}; "
            f"connect() raised: {type(connect_error).__name__ if connect_error else None}; "
            f"TCP connects={connects}; new SessionRequest sent={new_session_requested}"
        )
        connect_task.cancel()
        session.stop_keepalive_task()
        assert stop_error is None and new_session_requested, (
            "after the sequence counter overflow the secure session can not be reset: "
            + state
            + ". C28: wrapping shall stay correct at the counter wrap-around - the "
            "overflow is reported with 'reset the secure session to restore normal "
            "operation', so stop() has to tear the session down (without the wrapped "
            "SessionStatus CLOSE it has no sequence number for) and connect() has to "
            "negotiate a new session starting at sequence number 0."
        )
