"""
C22 hunt 1: an exception raised while a frame is handed to the callbacks escapes
`TCPTransport.data_received_callback` into the event loop.

History (plain KNXnet/IP TCP tunnel, `auto_reconnect=False`):
  the tunnelling server sends, in ONE TCP segment,
     DisconnectRequest(channel=9)   - a channel that is not ours
     DisconnectRequest(channel=1)   - our channel
     TunnellingRequest(channel=1)   - a well-formed frame following them
  1st frame: `_Tunnel._tunnel_lost()` (no auto-reconnect) stops the transport
             (`transport.transport = None`) but keeps `communication_channel == 1`
  2nd frame: `_disconnect_request_received` answers with a DisconnectResponse via
             `transport.send()` -> CommunicationError("Transport not connected")
  Nothing between the callback and `asyncio.Protocol.data_received` catches it.

Run: /venv/bin/python -m pytest -q -p no:cacheprovider hunt1.py
"""

from __future__ import annotations

import asyncio
import os
import sys

sys.path.insert(0, os.path.dirname(os.path.abspath(__file__)))

from xknx import XKNX  # noqa: E402
from xknx.io.tunnel import TCPTunnel  # noqa: E402
from xknx.knxip import (  # noqa: E402
    HPAI,
    ConnectResponse,
    ConnectResponseData,
    DisconnectRequest,
    HostProtocol,
    KNXIPFrame,
    TunnellingRequest,
)
from xknx.telegram import IndividualAddress  # noqa: E402

RAW_CEMI = bytes.fromhex("2900bce010fa092d010081")  # L_Data.ind GroupValueWrite


def _segment() -> tuple[bytes, bytes]:
    other = KNXIPFrame.init_from_body(DisconnectRequest(communication_channel_id=9))
    ours = KNXIPFrame.init_from_body(DisconnectRequest(communication_channel_id=1))
    follow = KNXIPFrame.init_from_body(
        TunnellingRequest(
            communication_channel_id=1, sequence_counter=0, raw_cemi=RAW_CEMI
        )
    )
    return other.to_knx() + ours.to_knx() + follow.to_knx(), follow.to_knx()


def test_direct_call_no_exception_escapes() -> None:
    """Feed the segment straight into the asyncio protocol object of the transport."""

    async def scenario() -> None:
        xknx = XKNX()
        received_cemi: list[bytes] = []
        tunnel = TCPTunnel(
            xknx,
            cemi_received_callback=received_cemi.append,
            gateway_ip="127.0.0.1",
            gateway_port=3671,
            auto_reconnect=False,
        )
        # network boundary: an established asyncio transport
        from unittest.mock import Mock

        tunnel.transport.transport = Mock()
        tunnel.communication_channel = 1
        protocol = tunnel.transport.TCPTransportFactory(
            data_received_callback=tunnel.transport.data_received_callback,
            connection_lost_callback=tunnel.transport._connection_lost,
        )
        segment, _ = _segment()
        escaped: BaseException | None = None
        try:
            protocol.data_received(segment)
        except Exception as exc:  # pylint: disable=broad-exception-caught
            escaped = exc
        assert escaped is None, (
            f"observed: {escaped!r} escaped asyncio.Protocol.data_received() for a "
            "stream of three well-formed frames; C22 requires that the transport never "
            "lets an exception escape into the event loop"
        )
        assert received_cemi == [RAW_CEMI], (
            f"observed: cEMI frames handed on = {received_cemi}; C22 requires every "
            "well-formed frame of the stream (here the TunnellingRequest following the "
            "two DisconnectRequests) to be handed to the callbacks exactly once"
        )

    asyncio.run(scenario())


def test_real_socket_no_exception_reaches_the_event_loop() -> None:
    """The same history over a real localhost TCP connection."""

    async def scenario() -> None:
        loop = asyncio.get_running_loop()
        loop_errors: list[dict] = []
        loop.set_exception_handler(lambda _loop, ctx: loop_errors.append(ctx))

        segment, _ = _segment()

        async def server(
            reader: asyncio.StreamReader, writer: asyncio.StreamWriter
        ) -> None:
            await reader.readexactly(6 + 20)  # ConnectRequest
            response = KNXIPFrame.init_from_body(
                ConnectResponse(
                    communication_channel=1,
                    data_endpoint=HPAI(protocol=HostProtocol.IPV4_TCP),
                    crd=ConnectResponseData(
                        individual_address=IndividualAddress("1.1.5")
                    ),
                )
            )
            writer.write(response.to_knx())
            await writer.drain()
            await asyncio.sleep(0.1)
            writer.write(segment)  # one segment - three frames
            await writer.drain()
            await asyncio.sleep(0.2)
            writer.close()

        srv = await asyncio.start_server(server, "127.0.0.1", 0)
        port = srv.sockets[0].getsockname()[1]

        xknx = XKNX()
        received_cemi: list[bytes] = []
        tunnel = TCPTunnel(
            xknx,
            cemi_received_callback=received_cemi.append,
            gateway_ip="127.0.0.1",
            gateway_port=port,
            auto_reconnect=False,
        )
        await tunnel.connect()
        assert tunnel.communication_channel == 1
        await asyncio.sleep(0.5)
        tunnel.stop_heartbeat()
        tunnel.transport.stop()
        srv.close()

        assert not loop_errors, (
            "observed: the event loop's exception handler was called with "
            f"{[(c.get('message'), repr(c.get('exception'))) for c in loop_errors]}; "
            "C22 requires that the transport never lets an exception escape into the "
            "event loop"
        )
        assert received_cemi == [RAW_CEMI], (
            f"observed: cEMI frames handed on = {received_cemi}; C22 requires the "
            "well-formed TunnellingRequest of the stream to be handed to the callbacks"
        )

    asyncio.run(scenario())
