"""
C22 hunt 2 (borderline, see HUNT_REPORT.md): a malformed frame whose header is completely
readable but announces a total length below the header length (0..5) is not skipped -
everything that shares a chunk with it is thrown away, so whether the well-formed frames
following it are delivered depends on how the TCP stream happens to be chunked.

Stream:  06 10 02 08 00 04 | <ConnectionStateResponse> | <TunnellingAck>
         (malformed header)   (well-formed)               (well-formed)

Run: /venv/bin/python -m pytest -q -p no:cacheprovider hunt2.py
"""

from __future__ import annotations

import itertools
import os
import sys

sys.path.insert(0, os.path.dirname(os.path.abspath(__file__)))

from xknx.io.transport import TCPTransport  # noqa: E402
from xknx.knxip import (  # noqa: E402
    ConnectionStateResponse,
    KNXIPFrame,
    TunnellingAck,
)

BAD = bytes.fromhex("06 10 02 08 00 04")  # total length 4 < header length 6
GOOD_1 = KNXIPFrame.init_from_body(
    ConnectionStateResponse(communication_channel_id=1)
).to_knx()
GOOD_2 = KNXIPFrame.init_from_body(
    TunnellingAck(communication_channel_id=1, sequence_counter=7)
).to_knx()
STREAM = BAD + GOOD_1 + GOOD_2


def _deliver(cuts: tuple[int, ...]) -> list[bytes]:
    transport = TCPTransport(("127.0.0.1", 3671))
    got: list[bytes] = []
    transport.register_callback(lambda frame, _src, _tr: got.append(frame.to_knx()))
    prev = 0
    for cut in (*cuts, len(STREAM)):
        transport.data_received_callback(STREAM[prev:cut])
        prev = cut
    return got


def test_frames_after_a_short_length_header_are_delivered_for_every_chunking() -> None:
    """Every split of the stream has to hand GOOD_1, GOOD_2 to the callbacks."""
    results: dict[tuple[bytes, ...], list[tuple[int, ...]]] = {}
    positions = range(1, len(STREAM))
    for count in range(3):  # 0, 1 and 2 cuts: every boundary set of up to 3 chunks
        for cuts in itertools.combinations(positions, count):
            results.setdefault(tuple(_deliver(cuts)), []).append(cuts)

    expected = (GOOD_1, GOOD_2)
    wrong = {k: v for k, v in results.items() if k != expected}
    assert not wrong, (
        "observed: the frames handed to the callbacks depend on the chunking - "
        + "; ".join(
            f"{[f.hex() for f in delivered]} for {len(cuts)} splits (eg. cuts at {cuts[0]})"
            for delivered, cuts in results.items()
        )
        + ". C22 requires a malformed frame with a readable header length to be skipped "
        "without losing the frames that follow it, and every well-formed frame to be "
        "handed over exactly once however the stream is chunked"
    )
