"""
C22 hunt 1: the `connection_lost` of an EARLIER TCP connection stops the CURRENT one.

`TCPTransport.connect()` creates a new protocol object per connection, but every
protocol reports its loss to the same `TCPTransport._connection_lost()`, which only
asks "is there a transport at the moment?" - not "is it mine?".

asyncio delivers `connection_lost` of a transport that was closed with a non-empty
write buffer only after that buffer has been flushed or the socket failed - that may be
long after `stop()` returned and after a reconnect has succeeded. The late
`connection_lost` of connection A then closes connection B, reports a lost connection,
and the well-formed frames the peer sends on stream B are never handed to the callbacks.

Run: /venv/bin/python -m pytest -q -p no:cacheprovider hunt1.py
"""

from __future__ import annotations

import asyncio
from unittest.mock import Mock, patch

from xknx.io.transport import TCPTransport
from xknx.knxip import (
    ConnectionStateResponse,
    KNXIPFrame,
    TunnellingRequest,
)

FRAME_ON_B = KNXIPFrame.init_from_body(
    ConnectionStateResponse(communication_channel_id=1)
).to_knx()


async def test_stale_connection_lost_real_sockets() -> None:
    """History on real localhost sockets: connect A, stop with unsent data, connect B, A dies."""
    server_side: list[tuple[asyncio.StreamReader, asyncio.StreamWriter]] = []

    async def on_connection(
        reader: asyncio.StreamReader, writer: asyncio.StreamWriter
    ) -> None:
        server_side.append((reader, writer))

    server = await asyncio.start_server(on_connection, "127.0.0.1", 0)
    port = server.sockets[0].getsockname()[1]

    lost_reports: list[int] = []
    received: list[KNXIPFrame] = []
    transport = TCPTransport(
        ("127.0.0.1", port), connection_lost_cb=lambda: lost_reports.append(1)
    )
    transport.register_callback(lambda frame, _source, _tr: received.append(frame))
    try:
        # connection A - the peer hangs and does not read any more
        await transport.connect()
        await asyncio.sleep(0.05)
        assert len(server_side) == 1
        server_side[0][1].transport.pause_reading()
        big_frame = KNXIPFrame.init_from_body(
            TunnellingRequest(
                communication_channel_id=1, sequence_counter=0, raw_cemi=bytes(60000)
            )
        )
        asyncio_transport_a = transport.transport
        assert asyncio_transport_a is not None
        for _ in range(400):
            transport.send(big_frame)
        assert asyncio_transport_a.get_write_buffer_size() > 0, (
            "precondition: kernel buffers should be full"
        )

        # the user (or the tunnel's reconnect) gives connection A up ...
        transport.stop()
        await asyncio.sleep(0.05)
        assert lost_reports == []  # an intentional stop is not reported - fine
        # ... and connects again: connection B
        await transport.connect()
        await asyncio.sleep(0.05)
        assert len(server_side) == 2
        asyncio_transport_b = transport.transport
        assert asyncio_transport_b is not None

        # now the old connection A finally dies (peer resets it)
        server_side[0][1].transport.abort()
        await asyncio.sleep(0.1)

        # the peer sends a well-formed frame on the healthy connection B
        server_side[1][1].write(FRAME_ON_B)
        await asyncio.sleep(0.1)

        assert (
            transport.transport is asyncio_transport_b
            and not asyncio_transport_b.is_closing()
            and lost_reports == []
            and len(received) == 1
        ), (
            "C22 violated: the late connection_lost of the EARLIER connection A stopped "
            f"the CURRENT connection B (transport.transport={transport.transport!r}, "
            f"B.is_closing()={asyncio_transport_b.is_closing()}), reported "
            f"{len(lost_reports)} lost connection(s) and {len(received)} of 1 well-formed "
            "frames sent on stream B reached the callbacks; the property requires every "
            "well-formed frame of the stream to be handed to the callbacks exactly once"
        )
    finally:
        transport.stop()
        for _reader, writer in server_side:
            writer.transport.abort()
        server.close()


async def test_stale_connection_lost_mocked_network() -> None:
    """The same schedule with asyncio's `create_connection` mocked (network boundary only)."""
    loop = asyncio.get_running_loop()
    protocols: list[asyncio.Protocol] = []
    asyncio_transports: list[Mock] = []

    async def fake_create_connection(protocol_factory, host=None, port=None):  # type: ignore[no-untyped-def]
        protocol = protocol_factory()
        asyncio_transport = Mock(name=f"asyncio_transport_{len(protocols)}")
        protocol.connection_made(asyncio_transport)
        protocols.append(protocol)
        asyncio_transports.append(asyncio_transport)
        return asyncio_transport, protocol

    lost_reports: list[int] = []
    received: list[KNXIPFrame] = []
    transport = TCPTransport(
        ("192.168.1.2", 3671), connection_lost_cb=lambda: lost_reports.append(1)
    )
    transport.register_callback(lambda frame, _source, _tr: received.append(frame))

    with patch.object(loop, "create_connection", fake_create_connection):
        await transport.connect()  # connection A
        transport.stop()  # A.close() - write buffer not empty: connection_lost is deferred
        asyncio_transports[0].close.assert_called_once_with()
        await transport.connect()  # connection B
        assert transport.transport is asyncio_transports[1]

        # asyncio finally reports the loss of A (write buffer flushed / socket error)
        protocols[0].connection_lost(ConnectionResetError())

        still_connected = transport.transport is asyncio_transports[1]
        b_closed = asyncio_transports[1].close.called
        # stream B carries on
        protocols[1].data_received(FRAME_ON_B)

    assert still_connected and not b_closed and lost_reports == [] and len(received) == 1, (
        "C22 violated: connection_lost of the earlier connection A was applied to the "
        f"current connection B: still_connected={still_connected}, "
        f"B.close() called={b_closed}, lost connections reported={len(lost_reports)}, "
        f"frames of stream B delivered={len(received)} of 1; the property requires the "
        "frames of the current stream to be handed to the callbacks exactly once - an "
        "event of an earlier connection must not end it"
    )
