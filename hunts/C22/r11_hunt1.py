"""C22 hunt 1: a single authenticated datagram makes the SecureGroup transport raise into the event loop.

A TimerNotify (or SecureWrapper) datagram carrying the highest legal 48 bit timer value
0xFFFFFFFFFFFF is a well-formed, correctly authenticated frame. The SecureGroup transport
adopts that value as its own clock. One millisecond later its own timer no longer fits the
6 octet field and the transport's notify timer (`loop.call_later` callback) raises
OverflowError straight into the event loop - and is never rescheduled again.
"""

import asyncio
from unittest.mock import Mock

from xknx.io.ip_secure import SecureGroup, SecureSequenceTimer
from xknx.knxip import KNXIPFrame

BACKBONE_KEY = bytes.fromhex("0102030405060708090a0b0c0d0e0f10")
PEER = ("192.168.1.50", 3671)


class FakeTimeLoop(asyncio.SelectorEventLoop):
    """Event loop whose clock can be moved forward (mock of the clock only)."""

    offset = 0.0

    def time(self) -> float:
        return super().time() + self.offset


async def scenario(loop: FakeTimeLoop) -> tuple[list[dict], SecureGroup]:
    loop_errors: list[dict] = []
    loop.set_exception_handler(lambda _loop, context: loop_errors.append(context))

    group = SecureGroup(
        local_addr=("192.168.1.1", 0),
        remote_addr=("224.0.23.12", 3671),
        backbone_key=BACKBONE_KEY,
        latency_ms=1000,
    )
    # network boundary: no real sockets
    group.transport = Mock()
    group.multicast_listener = None
    group.local_addr_assigned = ("192.168.1.1", 54321)

    # synchronise - nobody answers, we become timekeeper (advance the mocked clock)
    sync = asyncio.create_task(group.secure_timer.synchronize())
    await asyncio.sleep(0)
    loop.offset += 10
    await sync
    assert group.secure_timer.timer_authenticated

    # a peer holding the backbone key whose timer is at the top of the 48 bit range
    sent: list[KNXIPFrame] = []
    peer = SecureSequenceTimer(
        backbone_key=BACKBONE_KEY,
        latency_ms=1000,
        transport_send=lambda frame, addr: sent.append(frame),
    )
    peer.update(0xFFFFFFFFFFFF)
    peer.send_timer_notify(
        message_tag=b"\x12\x34", serial_number=bytes.fromhex("00fa12345678")
    )
    datagram = sent[0].to_knx()
    assert KNXIPFrame.from_knx(datagram)[0].body.timer_value == 0xFFFFFFFFFFFF

    # the datagram arrives
    group.data_received_callback(datagram, PEER)

    # let the notify timer of the transport expire (follower periodic notify <= ~11.5 s)
    for _ in range(4):
        loop.offset += 10
        await asyncio.sleep(0.01)
    handle = group.secure_timer._notify_timer_handle
    group.stop()
    return loop_errors, handle


def test_timer_at_top_of_range_does_not_raise_into_event_loop() -> None:
    loop = FakeTimeLoop()
    try:
        loop_errors, handle = loop.run_until_complete(scenario(loop))
    finally:
        loop.close()
    assert not loop_errors, (
        "after one authenticated TimerNotify datagram with timer value 0xFFFFFFFFFFFF the "
        f"SecureGroup transport let an exception escape into the event loop: "
        f"{[repr(c.get('exception')) + ' in ' + repr(c.get('handle')) for c in loop_errors]} "
        "- C22 requires that for any sequence of datagrams the transport never lets an "
        "exception escape into the event loop"
    )
