"""
C22 hunt 1: TCPTransport keeps the partial-frame buffer of a dead connection.

`TCPTransport._buffer` is only ever reset inside `data_received_callback`. Neither
`stop()`, `_connection_lost()` nor `connect()` clears it - and `_Tunnel` re-uses the one
TCPTransport object for every reconnect (`_init_transport()` is only called from `__init__`,
`_reconnect()` calls `self.transport.stop()` / `self.transport.connect()`).

So the bytes of a frame that was cut off by a connection loss are glued in front of the
byte stream of the NEXT connection: the first well-formed frames of the new stream are
lost (or parsed from a mix of bytes of two different connections).

Real TCPTransport / TCPTunnel, real asyncio loopback sockets; only the KNX gateway is faked.
"""

from __future__ import annotations

import asyncio

from xknx import XKNX
from xknx.core import XknxConnectionState
from xknx.io.transport import TCPTransport
from xknx.io.tunnel import TCPTunnel
from xknx.knxip import (
    HPAI,
    ConnectionStateRequest,
    ConnectRequest,
    ConnectResponse,
    ConnectResponseData,
    DisconnectRequest,
    HostProtocol,
    KNXIPFrame,
    TunnellingRequest,
)
from xknx.telegram import IndividualAddress


def _tunnelling_request(sequence_counter: int) -> bytes:
    """Return a well-formed TunnellingRequest frame (L_Data.ind GroupValueWrite)."""
    return KNXIPFrame.init_from_body(
        TunnellingRequest(
            communication_channel_id=1,
            sequence_counter=sequence_counter,
            raw_cemi=bytes.fromhex("2900bcd011010902010081"),
        )
    ).to_knx()


async def test_partial_frame_of_lost_connection_corrupts_next_stream() -> None:
    """Frames of the stream after a reconnect must be delivered once and in order."""
    frame_a = _tunnelling_request(1)
    frame_b = _tunnelling_request(2)
    frame_c = _tunnelling_request(3)
    frame_d = _tunnelling_request(4)
    assert len(frame_b) == 21

    # per connection: the byte chunks the fake gateway writes before it closes
    scripts = [
        [frame_a + frame_b[:10]],  # connection 1 dies in the middle of frame B
        [frame_c + frame_d],  # connection 2: a fresh stream of two well-formed frames
    ]
    connection_done: list[asyncio.Event] = [asyncio.Event(), asyncio.Event()]
    connection_index = 0

    async def gateway(
        reader: asyncio.StreamReader, writer: asyncio.StreamWriter
    ) -> None:
        nonlocal connection_index
        index = connection_index
        connection_index += 1
        for chunk in scripts[index]:
            writer.write(chunk)
            await writer.drain()
        await asyncio.sleep(0.05)
        writer.close()
        connection_done[index].set()

    server = await asyncio.start_server(gateway, "127.0.0.1", 0)
    port = server.sockets[0].getsockname()[1]

    lost = asyncio.Event()
    transport = TCPTransport(("127.0.0.1", port), connection_lost_cb=lost.set)
    received: list[int] = []
    transport.register_callback(
        lambda frame, source, tp: received.append(frame.body.sequence_counter)
    )
    try:
        await transport.connect()
        await asyncio.wait_for(lost.wait(), 2)
        assert received == [1], f"setup: expected frame A only, got {received}"
        assert transport.transport is None  # the transport stopped itself

        # the same object is connected again - exactly what _Tunnel._reconnect() does
        lost.clear()
        await transport.connect()
        await asyncio.wait_for(lost.wait(), 2)
    finally:
        transport.stop()
        server.close()
        await server.wait_closed()

    assert received == [1, 3, 4], (
        "C22 violated (every well-formed frame of the TCP stream is handed to the "
        "callbacks exactly once, in stream order): the stream of the second connection was "
        "the two well-formed TunnellingRequests with sequence counters 3 and 4, so the "
        f"callbacks must have seen counters [1, 3, 4] overall - observed {received}. "
        f"10 stale bytes of the first connection's cut-off frame were kept in "
        f"TCPTransport._buffer and prepended to the new stream "
        f"(buffer after the second connection: {transport._buffer.hex()!r})."
    )


async def test_tunnel_never_reconnects_after_cut_off_frame() -> None:
    """End to end: a TCPTunnel shall reconnect to a gateway that answers correctly."""
    connect_response = KNXIPFrame.init_from_body(
        ConnectResponse(
            communication_channel=1,
            data_endpoint=HPAI(protocol=HostProtocol.IPV4_TCP),
            crd=ConnectResponseData(individual_address=IndividualAddress("1.0.5")),
        )
    ).to_knx()
    # header of a TunnellingRequest announcing 0xFFFF bytes, of which only 4 body bytes
    # make it through before the connection breaks
    cut_off_frame = bytes.fromhex("06 10 04 20 ff ff 04 01 00 00")

    connections = 0
    connect_responses_sent = 0

    async def gateway(
        reader: asyncio.StreamReader, writer: asyncio.StreamWriter
    ) -> None:
        nonlocal connections, connect_responses_sent
        connections += 1
        first = connections == 1
        buffer = b""
        try:
            while True:
                data = await reader.read(1024)
                if not data:
                    break
                buffer += data
                while len(buffer) >= 6 and len(buffer) >= int.from_bytes(
                    buffer[4:6], "big"
                ):
                    length = int.from_bytes(buffer[4:6], "big")
                    frame, _ = KNXIPFrame.from_knx(buffer[:length])
                    buffer = buffer[length:]
                    if isinstance(frame.body, ConnectRequest):
                        writer.write(connect_response)
                        connect_responses_sent += 1
                        await writer.drain()
                        if first:
                            await asyncio.sleep(0.05)
                            writer.write(cut_off_frame)
                            await writer.drain()
                            await asyncio.sleep(0.05)
                            writer.close()
                            return
                    elif isinstance(frame.body, ConnectionStateRequest | DisconnectRequest):
                        pass
        except (ConnectionError, asyncio.CancelledError):
            pass
        finally:
            writer.close()

    server = await asyncio.start_server(gateway, "127.0.0.1", 0)
    port = server.sockets[0].getsockname()[1]

    xknx = XKNX()
    tunnel = TCPTunnel(
        xknx,
        cemi_received_callback=lambda raw: None,
        gateway_ip="127.0.0.1",
        gateway_port=port,
        auto_reconnect=True,
        auto_reconnect_wait=0,
    )
    try:
        await tunnel.connect()
        assert xknx.connection_manager.state is XknxConnectionState.CONNECTED
        # the gateway now sends the cut-off frame and drops the connection;
        # give the tunnel time for 3 complete reconnect attempts (1 s request timeout each)
        for _ in range(70):
            await asyncio.sleep(0.05)
            if (
                connections >= 2
                and xknx.connection_manager.state is XknxConnectionState.CONNECTED
            ):
                break
            if connections >= 4:
                break
        state = xknx.connection_manager.state
        stale = tunnel.transport._buffer
    finally:
        tunnel.auto_reconnect = False
        await tunnel.disconnect()
        server.close()
        await server.wait_closed()

    assert state is XknxConnectionState.CONNECTED, (
        "C22 violated (every well-formed frame of the TCP stream is handed to the "
        f"callbacks exactly once): the gateway accepted {connections - 1} reconnects and "
        f"answered every ConnectRequest with a well-formed ConnectResponse "
        f"({connect_responses_sent} sent in total), but only the first one was ever "
        f"delivered - connection state is {state}. Each ConnectResponse of a new "
        f"connection is appended to the cut-off frame of the FIRST connection that is "
        f"still in TCPTransport._buffer ({len(stale)} bytes, starting {stale[:10].hex()!r}, "
        "announcing 65535 bytes), so the tunnel can not reconnect until 64 KiB accumulated."
    )
