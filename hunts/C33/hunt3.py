"""
C33 hunt 3: a cancelled stop() (eg. `asyncio.wait_for(xknx.stop(), timeout)` / `asyncio.timeout()` around
the shutdown) corrupts both queues for every later use of the same XKNX object.

Schedule (virtual time is not needed, the sends are merely slow):
  t=0.00  start(); outgoing telegrams T1, T2 are queued; every send takes 0.3 s (slow gateway)
  t=0.05  `await asyncio.wait_for(xknx.telegram_queue.stop(), 0.2)`     (XKNX.stop() reaches this await too)
  t=0.25  the timeout cancels stop() while it awaits `self._consumer_task` - an `asyncio.gather()` future.
          Cancelling the awaiting task cancels the gather future and with it BOTH children:
            * `_telegram_consumer` is cancelled in `await self.outgoing_queue.join()`
              -> `self.xknx.telegrams.task_done()` for the sentinel never runs   (unfinished +1 for ever)
            * `_outgoing_rate_limiter` is cancelled in the send of T1
              -> the sentinel `None` (and T2) stay in `outgoing_queue`
  later   start() again: the new rate limiter pops the left-over T2 (ok) and then the stale `None`
          -> it terminates right after the restart. From now on no outgoing telegram reaches the interface.
"""

import asyncio
from unittest.mock import AsyncMock, patch

import pytest

from xknx import XKNX
from xknx.dpt import DPTBinary
from xknx.telegram import GroupAddress, Telegram, TelegramDirection
from xknx.telegram.apci import GroupValueWrite

pytestmark = pytest.mark.timeout(60)


class SlowInterface:
    """Network boundary: a gateway that needs `delay` seconds for each frame."""

    def __init__(self, xknx: XKNX, delay: float) -> None:
        self.xknx = xknx
        self.delay = delay
        self.sent = []

    async def send_cemi(self, cemi) -> None:
        self.sent.append(cemi.data.dst_addr)
        await asyncio.sleep(self.delay)
        self.xknx.cemi_handler._l_data_confirmation_event.set()

    async def disconnect(self) -> None:
        return


def outgoing(ga: str) -> Telegram:
    return Telegram(
        destination_address=GroupAddress(ga),
        direction=TelegramDirection.OUTGOING,
        payload=GroupValueWrite(DPTBinary(1)),
    )


async def _returns(awaitable, timeout: float) -> bool:
    try:
        await asyncio.wait_for(awaitable, timeout)
    except TimeoutError:
        return False
    return True


async def test_cancelled_stop_then_restart() -> None:
    xknx = XKNX()
    try:
        with patch("xknx.io.KNXIPInterface._start", new_callable=AsyncMock):
            await xknx.start()
        interface = SlowInterface(xknx, delay=0.3)
        xknx.knxip_interface._interface = interface

        xknx.telegrams.put_nowait(outgoing("1/1/1"))
        xknx.telegrams.put_nowait(outgoing("1/1/2"))
        await asyncio.sleep(0.05)
        # shutdown with a deadline - the deadline hits while T1 is still being sent
        stop_in_time = await _returns(xknx.telegram_queue.stop(), 0.2)
        assert not stop_in_time  # precondition of this schedule, not the defect

        # the application tries again later / reconnects with the same XKNX object
        await xknx.telegram_queue.start()
        interface.delay = 0
        await asyncio.sleep(0.1)  # left-overs are drained
        state = (
            f"xknx.telegrams: qsize={xknx.telegrams.qsize()} unfinished={xknx.telegrams._unfinished_tasks}; "
            f"outgoing_queue: qsize={xknx.telegram_queue.outgoing_queue.qsize()} "
            f"unfinished={xknx.telegram_queue.outgoing_queue._unfinished_tasks}"
        )
        sent_before = len(interface.sent)
        xknx.telegrams.put_nowait(outgoing("1/1/3"))
        joined = await _returns(xknx.join(), 1.0)
        new_frames = interface.sent[sent_before:]

        assert joined and new_frames == [GroupAddress("1/1/3")], (
            "C33 violated: after a stop() that was cancelled by its caller's timeout and a restart, "
            f"a freshly queued outgoing telegram to 1/1/3 reached the interface {len(new_frames)} times and "
            f"xknx.join() returned: {joined}. Queue state after the restart (nothing queued by the user): "
            f"{state}. The property requires every queued telegram to reach the interface and to be marked "
            "done, so that waiting for the queue and stopping always return."
        )
    finally:
        xknx.started.clear()
        task = xknx.telegram_queue._consumer_task
        if task is not None and not task.done():
            task.cancel()
            await asyncio.gather(task, return_exceptions=True)
