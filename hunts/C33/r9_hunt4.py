"""C33 hunt 4: a device error on an outgoing (internal) telegram hides the telegram
from the telegram_received callbacks and from the other devices on the address."""

import asyncio
from unittest.mock import AsyncMock

import xknx as _xknx_pkg
from xknx import XKNX
from xknx.cemi import CEMIHandler
from xknx.io import ConnectionConfig
from xknx.telegram import GroupAddress, Telegram, TelegramDirection
from xknx.telegram.apci import GroupValueWrite
from xknx.dpt import DPTBinary

assert _xknx_pkg.__file__.startswith("/tmp/hunt_C33/"), _xknx_pkg.__file__


class FakeInterface:
    """Network boundary: stands in for KNXIPInterface."""

    def __init__(self) -> None:
        self.connection_config = ConnectionConfig()
        self.start = AsyncMock()
        self.stop = AsyncMock()


class FakeCEMIHandler(CEMIHandler):
    """Real CEMIHandler; only the send towards the interface is recorded."""

    def __init__(self, xknx: XKNX, send: AsyncMock) -> None:
        super().__init__(xknx)
        self._send = send

    async def send_telegram(self, telegram: Telegram) -> None:
        await self._send(telegram)


def _setup() -> tuple[XKNX, AsyncMock]:
    xknx = XKNX()
    xknx.knxip_interface = FakeInterface()  # type: ignore[assignment]
    send = AsyncMock()
    xknx.cemi_handler = FakeCEMIHandler(xknx, send)
    return xknx, send


def _write() -> Telegram:
    return Telegram(
        destination_address=GroupAddress("1/2/3"),
        direction=TelegramDirection.OUTGOING,
        payload=GroupValueWrite(DPTBinary(1)),
    )


async def _returns(awaitable, timeout: float = 0.5) -> bool:
    try:
        await asyncio.wait_for(awaitable, timeout=timeout)
    except TimeoutError:
        return False
    return True


from xknx.devices import Device, Switch
from xknx.telegram.address import InternalGroupAddress


class BrokenDevice(Device):
    """A (custom) device whose telegram handler fails."""

    def __init__(self, xknx: XKNX, name: str, address: str) -> None:
        super().__init__(xknx, name)
        self.address = InternalGroupAddress(address)

    def _iter_remote_values(self):  # type: ignore[no-untyped-def]
        return iter(())

    def has_group_address(self, group_address) -> bool:  # type: ignore[no-untyped-def]
        return group_address == self.address

    def group_addresses(self):  # type: ignore[no-untyped-def]
        return {self.address}

    def process_group_write(self, telegram: Telegram) -> None:
        raise RuntimeError("device error")


async def test_device_error_on_internal_telegram() -> None:
    xknx, send = _setup()
    broken = BrokenDevice(xknx, "broken", "i-test")
    switch = Switch(xknx, "switch", group_address="i-test")
    xknx.devices.async_add(broken)
    xknx.devices.async_add(switch)
    assert list(xknx.devices.devices_by_group_address(InternalGroupAddress("i-test"))) == [
        broken,
        switch,
    ]
    seen: list[Telegram] = []
    xknx.telegram_queue.register_telegram_received_cb(seen.append, match_for_outgoing=True)

    await xknx.telegram_queue.start()
    telegram = Telegram(
        destination_address=InternalGroupAddress("i-test"),
        direction=TelegramDirection.OUTGOING,
        payload=GroupValueWrite(DPTBinary(1)),
    )
    xknx.telegrams.put_nowait(telegram)
    await asyncio.wait_for(xknx.telegram_queue.stop(), timeout=2)

    assert send.await_count == 0
    assert seen == [telegram] and switch.state is True, (
        f"internal telegram with one failing device: callbacks saw {seen!r}, the "
        f"healthy Switch on the same address has state {switch.state!r}. The property "
        "requires internal telegrams to be processed by devices and callbacks whatever "
        "a device or callback does (an incoming telegram with the same failing device "
        "does reach the callbacks)."
    )
