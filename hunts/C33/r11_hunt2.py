"""C33 hunt 2: stop() cancelled (timeout) while draining a slow send loses the sentinel's
task_done - after a restart xknx.join() / XKNX.stop() never return."""

import asyncio

import pytest

from r11_hunt_common import FakeInterface, outgoing
from xknx import XKNX


async def test_join_returns_after_cancelled_stop_and_restart():
    xknx = XKNX()
    gate = asyncio.Event()
    xknx.knxip_interface = FakeInterface(xknx, gate=gate)
    await xknx.telegram_queue.start()
    xknx.telegrams.put_nowait(outgoing())  # slow send: blocks on `gate`

    with pytest.raises(TimeoutError):
        # caller gives up on a stop() that waits for the slow send
        await asyncio.wait_for(xknx.telegram_queue.stop(), 0.05)
    assert not xknx.telegram_queue.running

    gate.set()  # the interface is fine again
    xknx.knxip_interface.gate = None
    await xknx.telegram_queue.start()  # restart
    assert xknx.telegram_queue.running
    xknx.telegrams.put_nowait(outgoing(value=0))
    await asyncio.sleep(0.05)
    assert xknx.telegrams.empty()  # everything queued was taken and sent
    assert len(xknx.knxip_interface.sent) == 2
    try:
        await asyncio.wait_for(xknx.join(), 1)
    except TimeoutError:
        pytest.fail(
            "xknx.join() did not return within 1 s on a running, idle, restarted queue "
            f"(telegrams unfinished counter stuck at {xknx.telegrams._unfinished_tasks}, "
            "queue empty): the stop sentinel taken before the cancelled stop() was never "
            "marked done. C33: every queued item is eventually marked done so that waiting "
            "for the queue and stopping always return"
        )


async def test_xknx_stop_returns_after_cancelled_queue_stop_and_restart():
    xknx = XKNX()
    gate = asyncio.Event()
    xknx.knxip_interface = FakeInterface(xknx, gate=gate)
    await xknx.telegram_queue.start()
    xknx.telegrams.put_nowait(outgoing())
    with pytest.raises(TimeoutError):
        await asyncio.wait_for(xknx.telegram_queue.stop(), 0.05)
    gate.set()
    xknx.knxip_interface.gate = None
    await xknx.telegram_queue.start()
    await asyncio.sleep(0.05)
    try:
        await asyncio.wait_for(xknx.stop(), 1)
    except TimeoutError:
        pytest.fail(
            "XKNX.stop() did not return within 1 s after restart (hangs in join(): "
            f"unfinished={xknx.telegrams._unfinished_tasks}, qsize={xknx.telegrams.qsize()}); "
            "C33 requires stopping to always return"
        )
