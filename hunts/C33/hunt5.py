"""
C33 hunt 5 (lower confidence - see HUNT_REPORT.md): a device error while processing an OUTGOING telegram
hides that telegram from every telegram_received_cb and from every other device on the same address.

`TelegramQueue.process_telegram_outgoing()` runs `self.xknx.devices.process(telegram)` first and
`self._run_telegram_received_cbs(telegram)` second, with nothing in between that would contain a device
error (`process_telegram_incoming()` has the opposite order, so there the callbacks do run).
`Devices.process()` stops at the first raising device.

Input: internal address "i-test" with two devices; the first one raises in `process_group_write`.
One outgoing GroupValueWrite to "i-test" is queued.
"""

import asyncio
from collections.abc import Iterator
from typing import Any
from unittest.mock import AsyncMock, patch

import pytest

from xknx import XKNX
from xknx.devices import Device, Switch
from xknx.dpt import DPTBinary
from xknx.remote_value import RemoteValue, RemoteValueSwitch
from xknx.telegram import Telegram, TelegramDirection
from xknx.telegram.address import InternalGroupAddress
from xknx.telegram.apci import GroupValueWrite

pytestmark = pytest.mark.timeout(60)


class FaultyDevice(Device):
    """A (custom) device with a bug in its telegram handler."""

    def __init__(self, xknx: XKNX, name: str, group_address: str) -> None:
        super().__init__(xknx, name)
        self.value = RemoteValueSwitch(xknx, group_address=group_address, device_name=name)

    def _iter_remote_values(self) -> Iterator[RemoteValue[Any]]:
        yield self.value

    def process_group_write(self, telegram: Telegram) -> None:
        raise RuntimeError("device error")


async def test_device_error_on_internal_outgoing_telegram() -> None:
    xknx = XKNX()
    seen_by_callback = []
    xknx.telegram_queue.register_telegram_received_cb(
        seen_by_callback.append, match_for_outgoing=True
    )
    xknx.devices.async_add(FaultyDevice(xknx, "faulty", group_address="i-test"))
    healthy = Switch(xknx, "healthy", group_address="i-test")
    xknx.devices.async_add(healthy)

    telegram = Telegram(
        destination_address=InternalGroupAddress("i-test"),
        direction=TelegramDirection.OUTGOING,
        payload=GroupValueWrite(DPTBinary(1)),
    )
    try:
        with patch("xknx.io.KNXIPInterface._start", new_callable=AsyncMock):
            await xknx.start()
            xknx.telegrams.put_nowait(telegram)
            await asyncio.wait_for(xknx.join(), 1)  # marked done - this clause holds
            await asyncio.wait_for(xknx.stop(), 1)
    finally:
        xknx.started.clear()

    assert seen_by_callback == [telegram] and healthy.state is True, (
        "C33 violated: an outgoing telegram to the internal address i-test was marked done, but after the "
        f"first device on that address raised, telegram_received_cb(match_for_outgoing=True) saw "
        f"{len(seen_by_callback)} telegrams (expected 1) and the second, healthy Switch on i-test has state "
        f"{healthy.state!r} (expected True). The property requires telegrams to internal addresses to be "
        "processed by devices and callbacks, for device errors too."
    )
