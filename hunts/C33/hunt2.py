"""
C33 hunt 2: while the tunnel is reconnecting, a queued outgoing telegram is never marked done -
`xknx.join()` and `xknx.stop()` do not return for as long as the gateway stays unreachable.

Schedule: tunnel established -> gateway disappears (heartbeat fails => `_tunnel_lost()` => reconnect loop,
every connect attempt fails with OSError) -> one outgoing telegram is queued (eg. by the StateUpdater or a
device) -> the application shuts down: `await xknx.stop()`.

`XKNX.stop()` awaits `self.join()` *before* it stops the interface. The telegram sits in
`_Tunnel._send_ready()` awaiting the endless reconnect task, so `task_done()` is never reached and
`stop()` never gets to `knxip_interface.stop()` - the only call that would cancel the reconnect.

Real classes: XKNX, TelegramQueue, CEMIHandler, KNXIPInterface, UDPTunnel. Mocked: UDPTransport
connect / send / stop (network boundary).
"""

import asyncio
from unittest.mock import AsyncMock, patch

import pytest

from xknx import XKNX
from xknx.dpt import DPTBinary
from xknx.io.tunnel import UDPTunnel
from xknx.telegram import GroupAddress, Telegram, TelegramDirection
from xknx.telegram.apci import GroupValueWrite

pytestmark = pytest.mark.timeout(60)

RECONNECT_WAIT = 0.05  # seconds between reconnect attempts (default is 3)
OBSERVE = 2.0  # how long we give stop() - 40 reconnect attempts


async def test_stop_returns_while_tunnel_is_reconnecting() -> None:
    xknx = XKNX()
    connect_attempts = []

    async def connect_unreachable() -> None:
        connect_attempts.append(asyncio.get_running_loop().time())
        raise OSError("[Errno 101] Network is unreachable")

    with (
        patch("xknx.io.KNXIPInterface._start", new_callable=AsyncMock),
        patch("xknx.io.transport.UDPTransport.connect", side_effect=connect_unreachable),
        patch("xknx.io.transport.UDPTransport.send"),
        patch("xknx.io.transport.UDPTransport.stop"),
    ):
        await xknx.start()
        tunnel = UDPTunnel(
            xknx,
            cemi_received_callback=xknx.knxip_interface.cemi_received,
            gateway_ip="192.0.2.1",
            gateway_port=3671,
            local_ip="192.0.2.2",
            auto_reconnect=True,
            auto_reconnect_wait=RECONNECT_WAIT,
        )
        xknx.knxip_interface._interface = tunnel
        # the heartbeat detected the lost tunnel (this is what `_heartbeat_failed()` does)
        tunnel._tunnel_lost()
        await asyncio.sleep(4 * RECONNECT_WAIT)
        assert tunnel._reconnect_task is not None
        assert not xknx.connection_manager.connected.is_set()

        xknx.telegrams.put_nowait(
            Telegram(
                destination_address=GroupAddress("1/2/3"),
                direction=TelegramDirection.OUTGOING,
                payload=GroupValueWrite(DPTBinary(1)),
            )
        )
        attempts_before = len(connect_attempts)
        stop_task = asyncio.create_task(xknx.stop())
        done, _ = await asyncio.wait({stop_task}, timeout=OBSERVE)
        stop_returned = bool(done)
        unfinished = xknx.telegrams._unfinished_tasks
        attempts_during = len(connect_attempts) - attempts_before

        # --- cleanup, so that neither the test nor XKNX.__del__ hangs ---
        if not stop_returned:
            stop_task.cancel()
            await asyncio.gather(stop_task, return_exceptions=True)
            await xknx.knxip_interface.stop()  # cancels the reconnect; the send fails now
            await asyncio.wait_for(xknx.stop(), 5)
        xknx.started.clear()

    assert stop_returned, (
        "C33 violated: with the tunnel in its reconnect loop (gateway unreachable) and ONE outgoing "
        f"telegram queued, xknx.stop() did not return within {OBSERVE}s "
        f"({attempts_during} failed reconnect attempts went by, xknx.telegrams unfinished={unfinished}); "
        "it only returned after the test stopped the interface itself. The property requires every queued "
        "telegram to be marked done whatever the send outcome, so that waiting for the queue and stopping "
        "always return."
    )
