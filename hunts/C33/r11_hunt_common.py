"""Shared helpers for hunt*.py - a fake KNX/IP interface (network boundary only)."""

from __future__ import annotations

import asyncio

from xknx import XKNX
from xknx.dpt import DPTBinary
from xknx.telegram import GroupAddress, Telegram, TelegramDirection, tpci
from xknx.telegram.address import InternalGroupAddress
from xknx.telegram.apci import GroupValueWrite


class FakeInterface:
    """Stands in for xknx.knxip_interface: records frames and confirms them (L_DATA_CON)."""

    def __init__(
        self,
        xknx: XKNX,
        gate: asyncio.Event | None = None,
        con_delay_group: float = 0.0,
        con_delay_other: float = 0.0,
    ) -> None:
        self.xknx = xknx
        self.gate = gate
        self.con_delay_group = con_delay_group
        self.con_delay_other = con_delay_other
        self.sent: list[tuple[float, object]] = []

    async def send_cemi(self, cemi) -> None:
        loop = asyncio.get_running_loop()
        self.sent.append((loop.time(), cemi))
        if self.gate is not None:
            await self.gate.wait()  # a slow send
        is_group = isinstance(cemi.data.tpci, tpci.TDataGroup)
        delay = self.con_delay_group if is_group else self.con_delay_other
        confirm = self.xknx.cemi_handler._l_data_confirmation_event.set
        if delay:
            loop.call_later(delay, confirm)
        else:
            loop.call_soon(confirm)

    async def stop(self) -> None:
        return


def outgoing(addr: str = "1/2/3", value: int = 1) -> Telegram:
    dst = InternalGroupAddress(addr) if addr.startswith("i-") else GroupAddress(addr)
    return Telegram(
        destination_address=dst,
        direction=TelegramDirection.OUTGOING,
        payload=GroupValueWrite(DPTBinary(value)),
    )


def incoming(addr: str = "1/2/3", value: int = 1) -> Telegram:
    return Telegram(
        destination_address=GroupAddress(addr),
        direction=TelegramDirection.INCOMING,
        payload=GroupValueWrite(DPTBinary(value)),
    )
