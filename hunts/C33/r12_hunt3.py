"""C33 hunt 3: the rate limit pause is dropped by stop() - a restarted queue sends at once."""

import asyncio
from unittest.mock import AsyncMock

from xknx import XKNX
from xknx.dpt import DPTBinary
from xknx.telegram import GroupAddress, Telegram, TelegramDirection
from xknx.telegram.apci import GroupValueWrite


def _out(n: int) -> Telegram:
    return Telegram(
        destination_address=GroupAddress(f"1/2/{n}"),
        direction=TelegramDirection.OUTGOING,
        payload=GroupValueWrite(DPTBinary(1)),
    )


async def test_rate_limit_holds_across_restart() -> None:
    """Telegrams reach the interface at least 1/r apart - also around a restart."""
    rate_limit = 5  # 200 ms
    xknx = XKNX(rate_limit=rate_limit)
    loop = asyncio.get_running_loop()
    sent_at: list[float] = []

    async def send(telegram: Telegram) -> None:
        sent_at.append(loop.time())

    xknx.cemi_handler = AsyncMock()  # network boundary, as in the test suite
    xknx.cemi_handler.send_telegram.side_effect = send

    await xknx.telegram_queue.start()
    xknx.telegrams.put_nowait(_out(1))
    await xknx.telegrams.join()
    # restart of the queue (the interface stays the same)
    await xknx.telegram_queue.stop()
    await xknx.telegram_queue.start()
    xknx.telegrams.put_nowait(_out(2))
    await xknx.telegrams.join()
    await xknx.telegram_queue.stop()

    assert len(sent_at) == 2
    gap = sent_at[1] - sent_at[0]
    assert gap >= 1 / rate_limit - 0.01, (
        f"two telegrams reached the interface {gap * 1000:.1f} ms apart with rate_limit="
        f"{rate_limit}; the property requires at least {1000 / rate_limit:.0f} ms between "
        "them - stop() cancelled and dropped the pause started by the first send"
    )
