"""C33 hunt 4: with a rate limit, two queued telegrams reach the interface back to back when the
first one had to wait for the CEMI send lock (eg. held by a management request)."""

import asyncio

from r11_hunt_common import FakeInterface, outgoing
from xknx import XKNX
from xknx.telegram import tpci
from xknx.telegram.apci import IndividualAddressRead


async def test_rate_limit_spacing_with_concurrent_management_send():
    rate = 10  # -> at least 0.1 s between telegrams
    xknx = XKNX(rate_limit=rate)
    # the management frame is confirmed after 0.3 s, group frames after 1 ms
    xknx.knxip_interface = FakeInterface(
        xknx, con_delay_group=0.001, con_delay_other=0.3
    )
    await xknx.telegram_queue.start()
    mgmt = asyncio.create_task(xknx.management.send_broadcast(IndividualAddressRead()))
    await asyncio.sleep(0)  # management frame is out and waits for its L_DATA_CON
    xknx.telegrams.put_nowait(outgoing(value=0))
    xknx.telegrams.put_nowait(outgoing(value=1))
    await asyncio.wait_for(xknx.join(), 3)
    await mgmt
    await xknx.telegram_queue.stop()

    group = [
        (t, c)
        for t, c in xknx.knxip_interface.sent
        if isinstance(c.data.tpci, tpci.TDataGroup)
    ]
    assert [c.data.payload.value.value for _, c in group] == [0, 1]  # order kept
    gap = group[1][0] - group[0][0]
    assert gap >= 1 / rate - 0.002, (
        f"rate_limit={rate}: the two queued telegrams reached knxip_interface.send_cemi "
        f"{gap * 1000:.1f} ms apart; C33 requires at least {1000 / rate:.0f} ms between "
        "outgoing telegrams at the interface"
    )
