"""C33 hunt 2: stop() cancelled before the consumer took the stop sentinel.

The sentinel stays in xknx.telegrams although the run is over; the next start() takes it
at once and ends - telegrams queued to the restarted queue are never processed.
"""

import asyncio
from unittest.mock import AsyncMock

import pytest

from xknx import XKNX
from xknx.dpt import DPTBinary
from xknx.telegram import GroupAddress, Telegram, TelegramDirection
from xknx.telegram.apci import GroupValueWrite


async def test_restart_after_stop_cancelled_at_once() -> None:
    """A queue restarted after a cancelled stop() processes telegrams."""
    xknx = XKNX()
    xknx.cemi_handler = AsyncMock()  # network boundary, as in the test suite
    seen: list[Telegram] = []
    xknx.telegram_queue.register_telegram_received_cb(seen.append)

    await xknx.telegram_queue.start()
    await asyncio.sleep(0)  # consumer waits for a telegram

    # stop() is cancelled in the loop iteration it was started in
    # (eg. a sibling in a TaskGroup / gather failing, a shutdown handler timing out)
    stop_task = asyncio.create_task(xknx.telegram_queue.stop())
    await asyncio.sleep(0)  # stop() has queued the sentinel and awaits the consumer
    stop_task.cancel()
    with pytest.raises(asyncio.CancelledError):
        await stop_task
    assert not xknx.telegram_queue.running
    left = xknx.telegrams.qsize()

    # restart
    await xknx.telegram_queue.start()
    await asyncio.sleep(0.01)
    running_after_restart = xknx.telegram_queue.running

    xknx.telegrams.put_nowait(
        Telegram(
            destination_address=GroupAddress("1/2/3"),
            direction=TelegramDirection.INCOMING,
            payload=GroupValueWrite(DPTBinary(1)),
        )
    )
    try:
        await asyncio.wait_for(xknx.telegrams.join(), timeout=1)
    except asyncio.TimeoutError:
        pytest.fail(
            "xknx.telegrams.join() did not return within 1 s for a telegram queued to the "
            f"restarted queue (callbacks saw {len(seen)} telegrams; items left in "
            f"xknx.telegrams by the cancelled stop(): {left}; running 10 ms after "
            f"start(): {running_after_restart}). The stop sentinel of the cancelled stop() "
            "was left in the queue and ended the new run at once; the property requires "
            "every queued telegram to be processed and marked done so that waiting for "
            "the queue always returns."
        )
    assert running_after_restart
