"""C33 hunt 1: stop() cancelled while the sender waits for the rate limit pause.

The telegram taken out of the outgoing queue is neither sent nor marked done, and the
cancelled pause is left behind for the restarted queue.
"""

import asyncio
from unittest.mock import AsyncMock

import pytest

from xknx import XKNX
from xknx.dpt import DPTBinary
from xknx.telegram import GroupAddress, Telegram, TelegramDirection
from xknx.telegram.apci import GroupValueWrite


def _out(n: int) -> Telegram:
    return Telegram(
        destination_address=GroupAddress(f"1/2/{n}"),
        direction=TelegramDirection.OUTGOING,
        payload=GroupValueWrite(DPTBinary(1)),
    )


async def _setup() -> tuple[XKNX, list[str]]:
    xknx = XKNX(rate_limit=5)  # 200 ms pause
    sent: list[str] = []

    async def send(telegram: Telegram) -> None:
        sent.append(str(telegram.destination_address))

    xknx.cemi_handler = AsyncMock()  # network boundary, as in the test suite
    xknx.cemi_handler.send_telegram.side_effect = send
    await xknx.telegram_queue.start()
    xknx.telegrams.put_nowait(_out(1))
    xknx.telegrams.put_nowait(_out(2))
    await asyncio.sleep(0.02)
    assert sent == ["1/2/1"]  # 1/2/2 waits for the pause
    # the application gives up on stop() after 50 ms - the sender is waiting for the pause
    with pytest.raises(asyncio.TimeoutError):
        await asyncio.wait_for(xknx.telegram_queue.stop(), timeout=0.05)
    assert not xknx.telegram_queue.running
    return xknx, sent


async def test_telegram_waiting_for_pause_is_marked_done_when_stop_is_cancelled() -> (
    None
):
    """Every queued telegram is eventually marked done - waiting for the queue returns."""
    xknx, sent = await _setup()
    # restart: whatever is left is processed by the new run
    await xknx.telegram_queue.start()
    try:
        await asyncio.wait_for(xknx.telegrams.join(), timeout=1)
    except asyncio.TimeoutError:
        pytest.fail(
            "xknx.telegrams.join() did not return within 1 s after the restart: "
            f"unfinished tasks={xknx.telegrams._unfinished_tasks}, sent={sent}. "
            "The telegram 1/2/2 was taken out of the outgoing queue, never sent and never "
            "marked done (stop() was cancelled while the sender awaited the rate limit "
            "pause); the property requires every queued telegram to be marked done so "
            "that waiting for the queue always returns."
        )


async def test_stop_returns_after_stop_was_cancelled_during_pause() -> None:
    """Stopping always returns - also on the run after a cancelled stop()."""
    xknx, sent = await _setup()
    await xknx.telegram_queue.start()
    try:
        await asyncio.wait_for(xknx.telegram_queue.stop(), timeout=1)
    except asyncio.TimeoutError:
        pytest.fail(
            "stop() of the restarted queue did not return within 1 s: "
            f"outgoing_queue unfinished={xknx.telegram_queue.outgoing_queue._unfinished_tasks}"
            f", sent={sent}. The property requires stopping to always return."
        )


async def test_restarted_queue_sends_after_stop_was_cancelled_during_pause() -> None:
    """A restarted queue sends the telegrams queued to it."""
    xknx, sent = await _setup()
    await xknx.telegram_queue.start()
    xknx.telegrams.put_nowait(_out(3))
    await asyncio.sleep(0.5)  # more than the pause
    assert "1/2/3" in sent, (
        f"telegram 1/2/3 queued after the restart was not sent within 0.5 s (sent={sent}, "
        f"running={xknx.telegram_queue.running}, "
        f"pause cancelled={xknx.telegram_queue._rate_limiter.cancelled()}): the sender of "
        "the new run awaited the pause task cancelled together with the old run and died "
        "with CancelledError; the property requires outgoing telegrams never to stall the "
        "queue."
    )
