"""C33 hunt 1: a telegram queued by a device / callback while the stop sentinel is
already in the queue is left behind the sentinel and is never marked done."""

import asyncio
from unittest.mock import AsyncMock

import xknx as _xknx_pkg
from xknx import XKNX
from xknx.cemi import CEMIHandler
from xknx.io import ConnectionConfig
from xknx.devices import ExposeSensor
from xknx.telegram import GroupAddress, IndividualAddress, Telegram, TelegramDirection
from xknx.telegram.apci import GroupValueRead

assert _xknx_pkg.__file__.startswith("/tmp/hunt_C33/"), _xknx_pkg.__file__


class FakeInterface:
    """Network boundary: stands in for KNXIPInterface."""

    def __init__(self) -> None:
        self.connection_config = ConnectionConfig()
        self.start = AsyncMock()
        self.stop = AsyncMock()


class FakeCEMIHandler(CEMIHandler):
    """Real CEMIHandler; only the send towards the interface is recorded."""

    def __init__(self, xknx: XKNX, send: AsyncMock) -> None:
        super().__init__(xknx)
        self._send = send

    async def send_telegram(self, telegram: Telegram) -> None:
        await self._send(telegram)


def _setup() -> tuple[XKNX, AsyncMock]:
    xknx = XKNX()
    xknx.knxip_interface = FakeInterface()  # type: ignore[assignment]
    send = AsyncMock()
    xknx.cemi_handler = FakeCEMIHandler(xknx, send)
    return xknx, send


def _read(ga: str) -> Telegram:
    return Telegram(
        destination_address=GroupAddress(ga),
        source_address=IndividualAddress("1.1.9"),
        direction=TelegramDirection.INCOMING,
        payload=GroupValueRead(),
    )


async def _joins(xknx: XKNX) -> bool:
    try:
        await asyncio.wait_for(xknx.join(), timeout=0.5)
    except TimeoutError:
        return False
    return True


async def test_read_request_arriving_while_the_interface_stops() -> None:
    """xknx.stop(): a GroupValueRead arrives as the interface shuts down."""
    xknx, send = _setup()
    sensor = ExposeSensor(
        xknx, "temp", group_address="1/2/3", value_type="temperature"
    )
    xknx.devices.async_add(sensor)
    await xknx.start()
    await sensor.set(21.0)
    await xknx.join()
    assert send.await_count == 1

    async def interface_stop() -> None:
        # the last frame the gateway delivers before the tunnel is closed
        xknx.cemi_handler.telegram_received(_read("1/2/3"))

    xknx.knxip_interface.stop = AsyncMock(side_effect=interface_stop)

    await asyncio.wait_for(xknx.stop(), timeout=2)

    left = xknx.telegrams.qsize()
    joined = await _joins(xknx)
    assert left == 0 and joined, (
        f"after xknx.stop() returned, {left} telegram(s) are still in xknx.telegrams "
        f"(unfinished={xknx.telegrams._unfinished_tasks}) and xknx.join() "
        f"{'returned' if joined else 'never returns'}; the response queued by the "
        "ExposeSensor landed behind the stop sentinel. The property requires every "
        "queued telegram to be marked done so that waiting for the queue always returns."
    )


async def test_callback_queues_a_telegram_while_stopping() -> None:
    """telegram_queue.stop() right after an incoming telegram whose callback sends."""
    xknx, send = _setup()
    await xknx.telegram_queue.start()

    def forward(telegram: Telegram) -> None:
        xknx.telegrams.put_nowait(
            Telegram(
                destination_address=GroupAddress("7/7/7"),
                direction=TelegramDirection.OUTGOING,
                payload=GroupValueRead(),
            )
        )

    xknx.telegram_queue.register_telegram_received_cb(forward)
    xknx.telegrams.put_nowait(_read("1/2/3"))
    await asyncio.wait_for(xknx.telegram_queue.stop(), timeout=2)

    left = xknx.telegrams.qsize()
    joined = await _joins(xknx)
    assert left == 0 and joined and send.await_count == 1, (
        f"telegram queued by a callback before the queue stopped: sent to the "
        f"interface {send.await_count}x, {left} left in xknx.telegrams, join "
        f"{'returned' if joined else 'hangs'}; the property requires it to be "
        "processed and marked done."
    )
