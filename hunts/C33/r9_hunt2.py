"""C33 hunt 2: two overlapping stop() calls leave a stop sentinel in xknx.telegrams.

Waiting for the queue then never returns, the restarted queue dies at once and the
next xknx.stop() hangs on the first telegram that was queued."""

import asyncio
from unittest.mock import AsyncMock

import xknx as _xknx_pkg
from xknx import XKNX
from xknx.cemi import CEMIHandler
from xknx.io import ConnectionConfig
from xknx.telegram import GroupAddress, Telegram, TelegramDirection
from xknx.telegram.apci import GroupValueWrite
from xknx.dpt import DPTBinary

assert _xknx_pkg.__file__.startswith("/tmp/hunt_C33/"), _xknx_pkg.__file__


class FakeInterface:
    """Network boundary: stands in for KNXIPInterface."""

    def __init__(self) -> None:
        self.connection_config = ConnectionConfig()
        self.start = AsyncMock()
        self.stop = AsyncMock()


class FakeCEMIHandler(CEMIHandler):
    """Real CEMIHandler; only the send towards the interface is recorded."""

    def __init__(self, xknx: XKNX, send: AsyncMock) -> None:
        super().__init__(xknx)
        self._send = send

    async def send_telegram(self, telegram: Telegram) -> None:
        await self._send(telegram)


def _setup() -> tuple[XKNX, AsyncMock]:
    xknx = XKNX()
    xknx.knxip_interface = FakeInterface()  # type: ignore[assignment]
    send = AsyncMock()
    xknx.cemi_handler = FakeCEMIHandler(xknx, send)
    return xknx, send


def _write() -> Telegram:
    return Telegram(
        destination_address=GroupAddress("1/2/3"),
        direction=TelegramDirection.OUTGOING,
        payload=GroupValueWrite(DPTBinary(1)),
    )


async def _returns(awaitable, timeout: float = 0.5) -> bool:
    try:
        await asyncio.wait_for(awaitable, timeout=timeout)
    except TimeoutError:
        return False
    return True


async def test_overlapping_stop_then_join() -> None:
    """Two tasks stop the same XKNX (signal handler + context manager exit)."""
    xknx, _send = _setup()
    await xknx.start()
    xknx.telegrams.put_nowait(_write())
    await xknx.join()

    await asyncio.wait_for(asyncio.gather(xknx.stop(), xknx.stop()), timeout=2)

    left = list(xknx.telegrams._queue)
    joined = await _returns(xknx.join())
    assert not left and joined, (
        f"after two overlapping xknx.stop() calls returned, xknx.telegrams still holds "
        f"{left!r} (unfinished={xknx.telegrams._unfinished_tasks}) and xknx.join() "
        f"{'returned' if joined else 'never returns'}; the property requires that "
        "waiting for the queue always returns."
    )


async def test_overlapping_stop_then_restart() -> None:
    """After the overlapping stops the instance is restarted and used again."""
    xknx, send = _setup()
    await xknx.start()
    await asyncio.wait_for(asyncio.gather(xknx.stop(), xknx.stop()), timeout=2)

    await xknx.start()
    await asyncio.sleep(0)  # let the consumer tasks start
    await asyncio.sleep(0)
    xknx.telegrams.put_nowait(_write())
    stopped = await _returns(xknx.stop(), timeout=1)
    assert stopped and send.await_count == 1, (
        f"restart after two overlapping stops: the queued telegram reached the "
        f"interface {send.await_count}x and xknx.stop() "
        f"{'returned' if stopped else 'never returns'} - the leftover sentinel ended "
        "the restarted consumer at once. The property requires every queued telegram "
        "to be sent / marked done and stopping to always return."
    )
