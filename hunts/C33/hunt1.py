"""
C33 hunt 1: stop() of a queue that is not running leaves its `None` stop sentinel in xknx.telegrams.

History A (retry after a failed start):  start() fails -> stop() (cleanup) -> start() succeeds -> queue a telegram
History B (stop is not idempotent):      start() -> stop() -> stop() -> join() / start() -> queue a telegram

In both histories the restarted consumer eats the stale sentinel first and shuts down again at once,
although XKNX reports `started`. No telegram is ever processed or marked done afterwards, so
`xknx.join()` and `xknx.stop()` never return.
"""

import asyncio
from unittest.mock import AsyncMock, patch

import pytest

from xknx import XKNX
from xknx.dpt import DPTBinary
from xknx.exceptions import CommunicationError
from xknx.telegram import GroupAddress, Telegram, TelegramDirection
from xknx.telegram.apci import GroupValueWrite

pytestmark = pytest.mark.timeout(60)


class FakeInterface:
    """Network boundary: records CEMI frames and confirms them (L_DATA.con) at once."""

    def __init__(self, xknx: XKNX) -> None:
        self.xknx = xknx
        self.sent = []

    async def send_cemi(self, cemi) -> None:
        self.sent.append(cemi)
        self.xknx.cemi_handler._l_data_confirmation_event.set()

    async def disconnect(self) -> None:
        return


def outgoing() -> Telegram:
    return Telegram(
        destination_address=GroupAddress("1/2/3"),
        direction=TelegramDirection.OUTGOING,
        payload=GroupValueWrite(DPTBinary(1)),
    )


async def _returns(awaitable, timeout: float = 1.0) -> bool:
    try:
        await asyncio.wait_for(awaitable, timeout)
    except TimeoutError:
        return False
    return True


async def _cleanup(xknx: XKNX) -> None:
    """Do not let XKNX.__del__ run stop() (it would block the interpreter)."""
    xknx.started.clear()
    task = xknx.telegram_queue._consumer_task
    if task is not None and not task.done():
        task.cancel()
        try:
            await task
        except BaseException:  # noqa: BLE001
            pass


async def test_retry_after_failed_start_and_cleanup_stop() -> None:
    """start() fails, stop() cleans up, the retried start() must give a working queue."""
    xknx = XKNX()
    try:
        with patch(
            "xknx.io.KNXIPInterface._start",
            new_callable=AsyncMock,
            side_effect=[CommunicationError("gateway not reachable"), None],
        ):
            with pytest.raises(CommunicationError):
                await xknx.start()  # 1st attempt: no gateway
            await xknx.stop()  # cleanup (task registry was started) - returns fine
            await xknx.start()  # 2nd attempt succeeds
        assert xknx.started.is_set()
        interface = FakeInterface(xknx)
        xknx.knxip_interface._interface = interface

        xknx.telegrams.put_nowait(outgoing())
        joined = await _returns(xknx.join())
        assert joined and len(interface.sent) == 1, (
            "C33 violated: after start() failed, stop() and a successful start(), a queued outgoing "
            f"telegram was never marked done (xknx.join() returned: {joined}, frames that reached the "
            f"interface: {len(interface.sent)}, consumer task: {xknx.telegram_queue._consumer_task!r}). "
            "The property requires every queued telegram to reach the interface and to be marked done, "
            "so that waiting for the queue and stopping always return."
        )
    finally:
        await _cleanup(xknx)


async def test_stop_twice_then_join_and_restart() -> None:
    """A second stop() must not make join()/stop() hang nor kill the next start()."""
    xknx = XKNX()
    try:
        with patch("xknx.io.KNXIPInterface._start", new_callable=AsyncMock):
            await xknx.start()
            await xknx.stop()
            await xknx.stop()  # returns, but leaves `None` in xknx.telegrams
            unfinished = xknx.telegrams._unfinished_tasks
            joined = await _returns(xknx.join())
            assert joined, (
                "C33 violated: after start(), stop(), stop() the queue holds no telegram at all, yet "
                f"xknx.join() does not return (unfinished={unfinished}, qsize={xknx.telegrams.qsize()}: "
                "the stale stop sentinel). The property requires that waiting for the queue always returns."
            )
    finally:
        await _cleanup(xknx)


async def test_stop_twice_then_restart_processes_telegrams() -> None:
    xknx = XKNX()
    try:
        with patch("xknx.io.KNXIPInterface._start", new_callable=AsyncMock):
            await xknx.start()
            await xknx.stop()
            await xknx.stop()
            await xknx.start()
        interface = FakeInterface(xknx)
        xknx.knxip_interface._interface = interface
        xknx.telegrams.put_nowait(outgoing())
        stopped = await _returns(xknx.stop())
        assert stopped and len(interface.sent) == 1, (
            "C33 violated: history start, stop, stop, start, queue one outgoing telegram, stop: "
            f"xknx.stop() returned: {stopped}; frames that reached the interface: {len(interface.sent)}; "
            f"consumer task right after start: {xknx.telegram_queue._consumer_task!r}. "
            "The property requires the telegram to be sent and marked done and stop() to return."
        )
    finally:
        await _cleanup(xknx)
