"""
C33 hunt 6 (lower confidence - see HUNT_REPORT.md): errors raised OUTSIDE the guarded region of
`TelegramQueue._telegram_consumer()` kill the consumer task; from then on nothing is processed or marked done.

a) `self.xknx.group_address_dpt.set_decoded_data(telegram)` is called before the try blocks. It contains an
   `assert isinstance(telegram.destination_address, GroupAddress | InternalGroupAddress)` that fires for a
   Telegram(destination_address=IndividualAddress, payload=GroupValueWrite) - a combination the Telegram
   dataclass accepts (no address/payload validation).
b) a telegram_received_cb that raises a BaseException which is not an Exception - eg. asyncio.CancelledError
   from `some_cancelled_future.result()` - passes `except Exception` in `_run_telegram_received_cbs()` and in
   `_telegram_consumer()`.
"""

import asyncio
from unittest.mock import AsyncMock, patch

import pytest

from xknx import XKNX
from xknx.dpt import DPTBinary
from xknx.telegram import GroupAddress, IndividualAddress, Telegram, TelegramDirection
from xknx.telegram.apci import GroupValueWrite

pytestmark = pytest.mark.timeout(60)


async def _returns(awaitable, timeout: float) -> bool:
    try:
        await asyncio.wait_for(awaitable, timeout)
    except TimeoutError:
        return False
    return True


def incoming() -> Telegram:
    return Telegram(
        destination_address=GroupAddress("1/2/3"),
        direction=TelegramDirection.INCOMING,
        payload=GroupValueWrite(DPTBinary(1)),
    )


async def _teardown(xknx: XKNX) -> None:
    xknx.started.clear()
    task = xknx.telegram_queue._consumer_task
    if task is not None:
        task.cancel()
        await asyncio.gather(task, return_exceptions=True)


async def test_group_value_write_to_individual_address() -> None:
    xknx = XKNX()
    seen = []
    xknx.telegram_queue.register_telegram_received_cb(seen.append)
    try:
        with patch("xknx.io.KNXIPInterface._start", new_callable=AsyncMock):
            await xknx.start()
        xknx.telegrams.put_nowait(
            Telegram(
                destination_address=IndividualAddress("1.1.1"),
                direction=TelegramDirection.OUTGOING,
                payload=GroupValueWrite(DPTBinary(1)),
            )
        )
        xknx.telegrams.put_nowait(incoming())
        joined = await _returns(xknx.join(), 1)
        assert joined and len(seen) == 1, (
            "C33 violated: after queueing an outgoing GroupValueWrite addressed to IndividualAddress 1.1.1 "
            f"followed by an ordinary incoming telegram, xknx.join() returned: {joined}; the incoming telegram "
            f"reached {len(seen)} callbacks; consumer task: {xknx.telegram_queue._consumer_task!r}. The property "
            "requires every queued telegram to be marked done whatever the outcome, so that waiting for the "
            "queue and stopping always return."
        )
    finally:
        await _teardown(xknx)


async def test_callback_raising_cancelled_error() -> None:
    xknx = XKNX()
    calls = []

    def callback(telegram: Telegram) -> None:
        calls.append(telegram)
        if len(calls) == 1:
            cancelled = asyncio.get_running_loop().create_future()
            cancelled.cancel()
            cancelled.result()  # raises asyncio.CancelledError (a BaseException)

    xknx.telegram_queue.register_telegram_received_cb(callback)
    try:
        with patch("xknx.io.KNXIPInterface._start", new_callable=AsyncMock):
            await xknx.start()
        xknx.telegrams.put_nowait(incoming())
        xknx.telegrams.put_nowait(incoming())
        joined = await _returns(xknx.join(), 1)
        assert joined and len(calls) == 2, (
            "C33 violated: the telegram_received_cb raised asyncio.CancelledError for the first of two incoming "
            f"telegrams; xknx.join() returned: {joined}, callback calls: {len(calls)} (expected 2), consumer "
            f"task: {xknx.telegram_queue._consumer_task!r}. The property requires every queued telegram to be "
            "marked done whatever the callback behaviour."
        )
    finally:
        await _teardown(xknx)
