"""
C33 hunt 4: a telegram that arrives from the bus while XKNX.stop() is in progress is queued but never
marked done - afterwards `xknx.join()` and a further `xknx.stop()` hang for ever.

`XKNX.stop()` stops the TelegramQueue (the consumer) BEFORE it stops the KNX/IP interface (the producer):

        await self.join()
        await self.telegram_queue.stop()     # consumer gone
        await self.knxip_interface.stop()    # tunnel still receives until the DisconnectResponse / 1 s timeout

Schedule: start(), stop() is called; while the tunnel waits for the gateway's DisconnectResponse an ordinary
L_DATA.ind group telegram is delivered in a TunnellingRequest. The tunnel ACKs it and CEMIHandler does
`xknx.telegrams.put_nowait(telegram)` - behind the stop sentinel. Nobody will ever call task_done() for it.

Real classes: XKNX, TelegramQueue, CEMIHandler, KNXIPInterface, UDPTunnel, UDPTransport.data_received_callback.
Mocked: UDPTransport.send / stop (socket).
"""

import asyncio
from unittest.mock import AsyncMock, patch

import pytest

from xknx import XKNX
from xknx.cemi import CEMIFrame, CEMILData, CEMIMessageCode
from xknx.dpt import DPTBinary
from xknx.io.tunnel import UDPTunnel
from xknx.knxip import KNXIPFrame, TunnellingRequest
from xknx.telegram import GroupAddress, IndividualAddress, Telegram
from xknx.telegram.apci import GroupValueWrite

pytestmark = pytest.mark.timeout(60)


async def _returns(awaitable, timeout: float) -> bool:
    try:
        await asyncio.wait_for(awaitable, timeout)
    except TimeoutError:
        return False
    return True


async def test_telegram_received_during_stop() -> None:
    xknx = XKNX()
    seen_by_callback = []
    xknx.telegram_queue.register_telegram_received_cb(seen_by_callback.append)

    bus_telegram = Telegram(
        destination_address=GroupAddress("1/2/3"),
        source_address=IndividualAddress("1.1.5"),
        payload=GroupValueWrite(DPTBinary(1)),
    )
    raw_frame = KNXIPFrame.init_from_body(
        TunnellingRequest(
            communication_channel_id=7,
            sequence_counter=0,
            raw_cemi=CEMIFrame(
                code=CEMIMessageCode.L_DATA_IND,
                data=CEMILData.init_from_telegram(bus_telegram),
            ).to_knx(),
        )
    ).to_knx()

    try:
        with (
            patch("xknx.io.KNXIPInterface._start", new_callable=AsyncMock),
            patch("xknx.io.transport.UDPTransport.send"),
            patch("xknx.io.transport.UDPTransport.stop"),
        ):
            await xknx.start()
            tunnel = UDPTunnel(
                xknx,
                cemi_received_callback=xknx.knxip_interface.cemi_received,
                gateway_ip="192.0.2.1",
                gateway_port=3671,
                local_ip="192.0.2.2",
            )
            tunnel.communication_channel = 7  # an established tunnel
            xknx.knxip_interface._interface = tunnel

            stop_task = asyncio.create_task(xknx.stop())
            # the DisconnectRequest is on its way (the gateway answers within <= 1 s) ...
            await asyncio.sleep(0.1)
            assert not stop_task.done()
            # ... and the gateway forwards one more group telegram from the bus
            tunnel.transport.data_received_callback(raw_frame, ("192.0.2.1", 3671))
            await asyncio.wait_for(stop_task, 5)  # stop() itself returns

        assert not xknx.started.is_set()
        qsize, unfinished = xknx.telegrams.qsize(), xknx.telegrams._unfinished_tasks
        joined = await _returns(xknx.join(), 0.5)
        stopped_again = await _returns(xknx.stop(), 0.5)
        assert unfinished == 0 and joined and stopped_again, (
            "C33 violated: a group telegram received from the tunnel while xknx.stop() was waiting for the "
            f"DisconnectResponse was queued but never marked done: xknx.telegrams qsize={qsize}, "
            f"unfinished={unfinished}, telegram_received_cb calls={len(seen_by_callback)}; afterwards "
            f"xknx.join() returned: {joined}, a second xknx.stop() returned: {stopped_again}. The property "
            "requires every queued telegram to be eventually marked done, so that waiting for the queue and "
            "stopping always return."
        )
    finally:
        xknx.started.clear()
