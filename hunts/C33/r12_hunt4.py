"""C33 hunt 4: rate limiting switched off (xknx.rate_limit = 0) while a telegram is sent."""

import asyncio
from unittest.mock import AsyncMock

import pytest

from xknx import XKNX
from xknx.dpt import DPTBinary
from xknx.telegram import GroupAddress, Telegram, TelegramDirection
from xknx.telegram.apci import GroupValueWrite


def _out(n: int) -> Telegram:
    return Telegram(
        destination_address=GroupAddress(f"1/2/{n}"),
        direction=TelegramDirection.OUTGOING,
        payload=GroupValueWrite(DPTBinary(1)),
    )


async def test_rate_limit_disabled_during_send() -> None:
    """Every queued telegram is marked done whatever happens during the send."""
    xknx = XKNX(rate_limit=20)
    sent: list[str] = []

    async def send(telegram: Telegram) -> None:
        await asyncio.sleep(0.05)  # waiting for the L_DATA.con
        sent.append(str(telegram.destination_address))

    xknx.cemi_handler = AsyncMock()  # network boundary, as in the test suite
    xknx.cemi_handler.send_telegram.side_effect = send

    await xknx.telegram_queue.start()
    xknx.telegrams.put_nowait(_out(1))
    xknx.telegrams.put_nowait(_out(2))
    await asyncio.sleep(0.01)  # 1/2/1 is being sent
    xknx.rate_limit = 0  # public attribute; 0 is the documented "no rate limit"
    try:
        await asyncio.wait_for(xknx.telegrams.join(), timeout=1)
    except asyncio.TimeoutError:
        pytest.fail(
            "xknx.telegrams.join() did not return within 1 s: sent="
            f"{sent}, unfinished={xknx.telegrams._unfinished_tasks}, "
            f"running={xknx.telegram_queue.running}. The sender died with "
            "ZeroDivisionError in its `finally` before marking the telegram done; the "
            "property requires every queued telegram to be marked done whatever the send "
            "outcome."
        )
