"""C33 hunt 3: xknx.stop() never returns when a telegram is pending and the telegram
queue is not running (start() failed before the queue was started, or the instance
was already stopped)."""

import asyncio
from unittest.mock import AsyncMock

import xknx as _xknx_pkg
from xknx import XKNX
from xknx.cemi import CEMIHandler
from xknx.io import ConnectionConfig
from xknx.telegram import GroupAddress, Telegram, TelegramDirection
from xknx.telegram.apci import GroupValueWrite
from xknx.dpt import DPTBinary

assert _xknx_pkg.__file__.startswith("/tmp/hunt_C33/"), _xknx_pkg.__file__


class FakeInterface:
    """Network boundary: stands in for KNXIPInterface."""

    def __init__(self) -> None:
        self.connection_config = ConnectionConfig()
        self.start = AsyncMock()
        self.stop = AsyncMock()


class FakeCEMIHandler(CEMIHandler):
    """Real CEMIHandler; only the send towards the interface is recorded."""

    def __init__(self, xknx: XKNX, send: AsyncMock) -> None:
        super().__init__(xknx)
        self._send = send

    async def send_telegram(self, telegram: Telegram) -> None:
        await self._send(telegram)


def _setup() -> tuple[XKNX, AsyncMock]:
    xknx = XKNX()
    xknx.knxip_interface = FakeInterface()  # type: ignore[assignment]
    send = AsyncMock()
    xknx.cemi_handler = FakeCEMIHandler(xknx, send)
    return xknx, send


def _write() -> Telegram:
    return Telegram(
        destination_address=GroupAddress("1/2/3"),
        direction=TelegramDirection.OUTGOING,
        payload=GroupValueWrite(DPTBinary(1)),
    )


async def _returns(awaitable, timeout: float = 0.5) -> bool:
    try:
        await asyncio.wait_for(awaitable, timeout=timeout)
    except TimeoutError:
        return False
    return True


async def test_stop_after_failed_start() -> None:
    """The usual try/finally around start(): connecting fails, stop() must return."""
    from xknx.exceptions import CommunicationError

    xknx, _send = _setup()
    xknx.knxip_interface.start = AsyncMock(side_effect=CommunicationError("no gateway"))
    # a value set before connecting - queued for the bus
    xknx.telegrams.put_nowait(_write())
    try:
        await xknx.start()
    except CommunicationError:
        pass
    stopped = await _returns(xknx.stop(), timeout=1)
    assert stopped, (
        "xknx.stop() after a failed xknx.start() never returns: it waits in "
        f"xknx.join() for {xknx.telegrams.qsize()} telegram(s) nobody will ever mark "
        "done because the telegram queue was never started. The property requires "
        "stopping to always return."
    )


async def test_second_stop_with_late_telegram() -> None:
    """stop(); a late device.set() queues a telegram; stop() again (e.g. __aexit__)."""
    xknx, _send = _setup()
    await xknx.start()
    await asyncio.wait_for(xknx.stop(), timeout=2)
    xknx.telegrams.put_nowait(_write())
    stopped = await _returns(xknx.stop(), timeout=1)
    assert stopped, (
        "the second xknx.stop() never returns: a telegram queued after the first stop "
        "is never marked done and stop() waits for it in xknx.join(). The property "
        "requires stopping to always return."
    )
