"""C33 hunt 3: a telegram callback (or device) raising asyncio.CancelledError kills the consumer;
later telegrams are never marked done, join() hangs."""

import asyncio

import pytest

from r11_hunt_common import incoming, FakeInterface
from xknx import XKNX


async def test_callback_raising_cancelled_error_does_not_stall_queue():
    xknx = XKNX()
    xknx.knxip_interface = FakeInterface(xknx)
    cancelled = asyncio.get_running_loop().create_future()
    cancelled.cancel()
    seen = []

    def callback(telegram):
        seen.append(telegram)
        # typical: looking at the outcome of a future/task that was cancelled
        cancelled.result()  # raises asyncio.CancelledError (a BaseException)

    xknx.telegram_queue.register_telegram_received_cb(callback)
    await xknx.telegram_queue.start()
    xknx.telegrams.put_nowait(incoming(value=1))
    xknx.telegrams.put_nowait(incoming(value=0))
    try:
        await asyncio.wait_for(xknx.join(), 1)
    except TimeoutError:
        pytest.fail(
            f"join() did not return: the callback saw {len(seen)} of 2 telegrams, "
            f"queue running={xknx.telegram_queue.running}, "
            f"unfinished={xknx.telegrams._unfinished_tasks}. A raising callback "
            "(asyncio.CancelledError) terminated the consumer task; C33 requires every queued "
            "telegram to be marked done whatever the callback behaviour"
        )
    finally:
        # don't leak the orphaned rate limiter task
        for task in asyncio.all_tasks():
            if task is not asyncio.current_task():
                task.cancel()
