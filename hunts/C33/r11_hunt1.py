"""C33 hunt 1: a device error on an outgoing / internal telegram skips the telegram callbacks
(and the remaining devices of that address)."""

import asyncio

from r11_hunt_common import FakeInterface, outgoing
from xknx import XKNX
from xknx.devices import Switch


class BrokenSwitch(Switch):
    def process_group_write(self, telegram):
        raise RuntimeError("device bug")


async def _run(addr: str):
    xknx = XKNX()
    xknx.knxip_interface = FakeInterface(xknx)
    cb_seen = []
    xknx.telegram_queue.register_telegram_received_cb(
        cb_seen.append, match_for_outgoing=True
    )
    good_seen = []

    class GoodSwitch(Switch):
        def process_group_write(self, telegram):
            good_seen.append(telegram)

    xknx.devices.async_add(BrokenSwitch(xknx, "broken", group_address=addr))
    xknx.devices.async_add(GoodSwitch(xknx, "good", group_address=addr))
    await xknx.telegram_queue.start()
    telegram = outgoing(addr)
    xknx.telegrams.put_nowait(telegram)
    await asyncio.wait_for(xknx.join(), 2)
    await asyncio.wait_for(xknx.telegram_queue.stop(), 2)
    return xknx, telegram, cb_seen, good_seen


async def test_internal_telegram_reaches_callbacks_despite_device_error():
    xknx, telegram, cb_seen, good_seen = await _run("i-hunt")
    assert xknx.knxip_interface.sent == []  # internal: never reaches the interface
    assert cb_seen == [telegram], (
        f"callback registered with match_for_outgoing saw {len(cb_seen)} telegrams after the "
        "internal telegram was processed while one device raised; C33 requires internal "
        "telegrams to still be processed by devices AND callbacks under device errors"
    )


async def test_outgoing_telegram_reaches_callbacks_despite_device_error():
    xknx, telegram, cb_seen, good_seen = await _run("1/2/3")
    assert len(xknx.knxip_interface.sent) == 1  # it was sent to the bus
    assert cb_seen == [telegram], (
        f"telegram was sent to the interface but the outgoing-telegram callback saw "
        f"{len(cb_seen)} telegrams because a device raised; the callback must still be run"
    )


async def test_second_device_processes_despite_first_device_error():
    xknx, telegram, cb_seen, good_seen = await _run("i-hunt")
    assert good_seen == [telegram], (
        f"healthy device sharing the internal address processed {len(good_seen)} telegrams "
        "because the device before it raised; C33 requires the telegram to be processed by devices"
    )
