"""
C43 hunt 2: closing the connection while a request is in flight makes the request
raise asyncio.CancelledError (its task was never cancelled) instead of a management error.

Property clause: "a management request returns only a response of the expected type
carrying the expected sequence number, or fails with a management error within bounded time".

`P2PConnection.disconnect()` cancels the futures `_ack_waiter` / `_response_waiter` the
request coroutine is suspended on. A cancelled future raises CancelledError in the awaiting
coroutine - `request()` does not translate it, so the requesting task ends up *cancelled*
although nobody called `task.cancel()`.
"""

import asyncio
from unittest.mock import AsyncMock, patch

import pytest

from xknx import XKNX
from xknx.exceptions import ManagementConnectionError
from xknx.telegram import IndividualAddress, Telegram, TelegramDirection, apci, tpci

DEVICE = IndividualAddress("4.0.1")


@pytest.fixture(autouse=True)
def send_telegram_mock():
    """Mock only the send side of the CEMI handler (network boundary)."""
    with patch(
        "xknx.cemi.cemi_handler.CEMIHandler.send_telegram", new_callable=AsyncMock
    ) as mock:
        yield mock


def incoming(xknx: XKNX, _tpci: tpci.TPCI, payload: apci.APCI | None = None) -> Telegram:
    """Return a telegram of the device addressed to us."""
    return Telegram(
        source_address=DEVICE,
        destination_address=xknx.current_address,
        direction=TelegramDirection.INCOMING,
        tpci=_tpci,
        payload=payload,
    )


async def outcome_of(task: asyncio.Task) -> str:
    """Describe how the request ended."""
    done, _ = await asyncio.wait([task], timeout=1)
    if not done:
        task.cancel()
        return "still pending"
    if task.cancelled():
        return "task cancelled (asyncio.CancelledError escaped request())"
    exc = task.exception()
    if exc is None:
        return f"returned {task.result()}"
    if isinstance(exc, ManagementConnectionError):
        return "management error"
    return f"raised {exc!r}"


@pytest.mark.parametrize("stage", ["waiting_for_ack", "waiting_for_response"])
async def test_disconnect_during_request(stage: str) -> None:
    """Management.disconnect() from another task while a request waits for ACK / response."""
    xknx = XKNX()
    conn = await xknx.management.connect(DEVICE, rate_limit=0)
    task = asyncio.create_task(conn.request(apci.DeviceDescriptorRead(descriptor=0)))
    await asyncio.sleep(0)
    if stage == "waiting_for_response":
        xknx.cemi_handler.telegram_received(incoming(xknx, tpci.TAck(0)))
        await asyncio.sleep(0)
    assert not task.done()

    # eg. a shutdown / cleanup path of the application closes the connection
    await xknx.management.disconnect(DEVICE)

    outcome = await outcome_of(task)
    assert outcome == "management error", (
        f"observed: request() {stage} while the connection was closed locally -> {outcome}; "
        "the property requires that a request returns the expected response or fails "
        "with a management error (ManagementConnectionError)"
    )
