"""
C43 hunt 4 - the rate limiter of request() measures an interval with the wall clock;
a backward step of the system time makes the request sleep for the size of the step.

Property clause: "a management request returns [...] or fails with a management error
within bounded time".

`P2PConnection.request()`:
    time_diff = time.time() - self._last_response_time
    wait_time = 1 / self.rate_limit
    if time_diff < wait_time:
        await asyncio.sleep(wait_time - time_diff)
`time.time()` is not monotonic. When the system clock is set back by S seconds between
two requests (NTP step, manual correction, VM resume, DST bug of an RTC-less host),
`time_diff` is about -S and the request sleeps S + 1/rate_limit seconds before it even
sends its telegram. With the default rate_limit=20 the intended pause is 50 ms.
"""

import asyncio
from unittest.mock import AsyncMock, patch

from xknx import XKNX
from xknx.management.management import (
    MANAGAMENT_ACK_TIMEOUT,
    MANAGAMENT_CONNECTION_TIMEOUT,
)
from xknx.telegram import IndividualAddress, Telegram, TelegramDirection, apci, tpci

IA = IndividualAddress("4.0.1")


class VirtualClock:
    """Virtual loop time (same technique as test/conftest.py EventLoopClockAdvancer)."""

    def __init__(self, loop: asyncio.AbstractEventLoop) -> None:
        """Patch loop.time."""
        self.offset = 0.0
        self._base = loop.time
        loop.time = self.time  # type: ignore[method-assign]

    def time(self) -> float:
        """Return virtual loop time."""
        return self._base() + self.offset

    async def drain(self) -> None:
        """Run ready callbacks."""
        for _ in range(20):
            await asyncio.sleep(0)

    async def advance(self, seconds: float) -> None:
        """Advance virtual time."""
        await self.drain()
        self.offset += seconds
        await asyncio.sleep(0)
        await self.drain()


def incoming(xknx: XKNX, _tpci: tpci.TPCI, payload: apci.APCI | None = None) -> Telegram:
    """Return a frame as received from the device IA."""
    return Telegram(
        source_address=IA,
        destination_address=xknx.current_address,
        direction=TelegramDirection.INCOMING,
        tpci=_tpci,
        payload=payload,
    )


async def test_request_is_bounded_when_wall_clock_steps_back() -> None:
    """Request 1 succeeds, the system time is set back one hour, request 2 hangs."""
    clock = VirtualClock(asyncio.get_running_loop())
    wall_epoch = [1_700_000_000.0]

    def wall_time() -> float:
        """System time: advances with virtual time, can be stepped."""
        return wall_epoch[0] + clock.offset

    with patch("time.time", side_effect=wall_time):
        xknx = XKNX()
        xknx.cemi_handler = AsyncMock()
        conn = await xknx.management.connect(IA)  # default rate_limit=20 -> 50 ms pause

        first = asyncio.create_task(
            conn.request(apci.DeviceDescriptorRead(descriptor=0))
        )
        await clock.drain()
        xknx.management.process(incoming(xknx, tpci.TAck(0)))
        xknx.management.process(
            incoming(xknx, tpci.TDataConnected(0), apci.DeviceDescriptorResponse())
        )
        await first

        wall_epoch[0] -= 3600  # system time is set back by one hour
        xknx.cemi_handler.send_telegram.reset_mock()

        second = asyncio.create_task(
            conn.request(apci.DeviceDescriptorRead(descriptor=0))
        )
        # worst case of a request without clock step: rate limit pause + 2 sends
        # (3 s L_Data.con each, mocked away here) + 2 ACK timeouts + response timeout
        bound = 1 / conn.rate_limit + 2 * 3 + 2 * MANAGAMENT_ACK_TIMEOUT + MANAGAMENT_CONNECTION_TIMEOUT
        elapsed = 0
        while not second.done() and elapsed < 10 * bound:
            await clock.advance(1)
            elapsed += 1
        sent = xknx.cemi_handler.send_telegram.call_args_list
        try:
            assert second.done(), (
                f"request() neither returned nor failed after {elapsed} s of loop time "
                f"(worst case of the protocol: {bound:.2f} s) and has not even sent its telegram "
                f"(send_telegram calls: {sent}) after the system time was set back by 3600 s - it "
                "sleeps in the rate limiter. The property requires a request to return or fail "
                "with a management error within bounded time."
            )
        finally:
            second.cancel()
            await asyncio.gather(second, return_exceptions=True)
