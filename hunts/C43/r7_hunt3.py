"""
C43 hunt 3: the rate limiter of `P2PConnection.request()` measures with the wall clock.

Property clause: "a management request returns only a response ..., or fails with a
management error within bounded time".

`request()` computes `time.time() - self._last_response_time` and sleeps
`1 / rate_limit - time_diff`. If the system clock is stepped backwards between two
requests (NTP step, manual adjustment, VM resume) `time_diff` is negative and the request
sleeps for the whole step (here: one hour) before it sends anything - with all devices
answering promptly. No timeout of the transport layer bounds this sleep.
"""

import asyncio
from unittest.mock import AsyncMock, patch

import pytest

from xknx import XKNX
from xknx.management.management import (
    MANAGAMENT_ACK_TIMEOUT,
    MANAGAMENT_CONNECTION_TIMEOUT,
)
from xknx.telegram import IndividualAddress, Telegram, TelegramDirection, apci, tpci

DEVICE = IndividualAddress("4.0.1")
RATE_LIMIT = 20  # library default: at most 50 ms between requests


class VirtualClock:
    """Advance loop time (same technique as test/conftest.py time_travel)."""

    def __init__(self, loop: asyncio.AbstractEventLoop) -> None:
        self.offset = 0.0
        self._base_time = loop.time
        self.loop = loop
        self.loop.time = self.time  # type: ignore[method-assign]

    def time(self) -> float:
        return self._base_time() + self.offset

    async def _exhaust(self) -> None:
        while self.loop._ready:  # type: ignore[attr-defined]
            await asyncio.sleep(0)

    async def advance(self, seconds: float) -> None:
        await self._exhaust()
        self.offset += seconds
        await asyncio.sleep(0)
        await self._exhaust()


@pytest.fixture(autouse=True)
def send_telegram_mock():
    """Mock only the send side of the CEMI handler (network boundary)."""
    with patch(
        "xknx.cemi.cemi_handler.CEMIHandler.send_telegram", new_callable=AsyncMock
    ) as mock:
        yield mock


def incoming(xknx: XKNX, _tpci: tpci.TPCI, payload: apci.APCI | None = None) -> Telegram:
    return Telegram(
        source_address=DEVICE,
        destination_address=xknx.current_address,
        direction=TelegramDirection.INCOMING,
        tpci=_tpci,
        payload=payload,
    )


async def test_wall_clock_step_backwards_blocks_request() -> None:
    """Second request after the wall clock was set back by one hour."""
    clock = VirtualClock(asyncio.get_running_loop())
    wall = {"now": 1_700_000_000.0}
    xknx = XKNX()

    with patch("xknx.management.management.time.time", side_effect=lambda: wall["now"]):
        conn = await xknx.management.connect(DEVICE, rate_limit=RATE_LIMIT)

        # first request: answered immediately
        task = asyncio.create_task(conn.request(apci.DeviceDescriptorRead(descriptor=0)))
        await asyncio.sleep(0)
        xknx.cemi_handler.telegram_received(incoming(xknx, tpci.TAck(0)))
        xknx.cemi_handler.telegram_received(
            incoming(xknx, tpci.TDataConnected(0), apci.DeviceDescriptorResponse())
        )
        await task

        # system clock is stepped back by one hour (NTP step / manual adjustment)
        wall["now"] -= 3600
        xknx.cemi_handler.send_telegram.reset_mock()

        task = asyncio.create_task(conn.request(apci.DeviceDescriptorRead(descriptor=0)))
        # the longest a request may legitimately take: rate limit pause + 2 ACK timeouts
        # + response timeout (confirmation is immediate with the mocked sender)
        bound = (
            1 / RATE_LIMIT + 2 * MANAGAMENT_ACK_TIMEOUT + MANAGAMENT_CONNECTION_TIMEOUT
        )
        for _ in range(int((bound + 1) / 0.05) + 1):  # small steps: timers are chained
            await clock.advance(0.05)
        sent = [
            c.args[0]
            for c in xknx.cemi_handler.send_telegram.call_args_list
            if isinstance(c.args[0].tpci, tpci.TDataConnected)
        ]
        finished = task.done()
        # find out how long it really sleeps
        waited = bound + 1
        while not sent and waited < 4000:
            await clock.advance(100)
            waited += 100
            sent = [
                c.args[0]
                for c in xknx.cemi_handler.send_telegram.call_args_list
                if isinstance(c.args[0].tpci, tpci.TDataConnected)
            ]
        task.cancel()
        assert finished, (
            f"observed: {bound + 1:.2f} s (virtual) after request() was called it had neither "
            f"returned nor failed and had not even sent its telegram - it was sent only after "
            f"~{waited:.0f} s; the property requires a response or a management error within "
            f"bounded time (rate limit {1 / RATE_LIMIT} s + 2x{MANAGAMENT_ACK_TIMEOUT} s ACK "
            f"+ {MANAGAMENT_CONNECTION_TIMEOUT} s response timeout)"
        )
