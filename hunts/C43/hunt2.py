"""
C43 hunt 2 - unnumbered frames of the peer are taken as the response "number 0".

Property clause: "a management request returns only a response of the expected type
carrying the expected sequence number, or fails with a management error".

`P2PConnection.process()` compares `telegram.tpci.sequence_number` with the expected
number for every frame that is not T_Disconnect / T_ACK / T_NAK. The unnumbered
TPCIs (T_Data_Individual, T_Connect) have no sequence number on the wire, but the
`TPCI` base class gives them the class attribute `sequence_number = 0`. Whenever
the connection expects number 0 (first request, and every 16th after that) such a
frame is accepted as the response, handed to the caller and the receive counter is
advanced - so the genuine numbered response that follows is rejected.
"""

import asyncio
from unittest.mock import AsyncMock

from xknx import XKNX
from xknx.exceptions import ManagementConnectionError
from xknx.telegram import IndividualAddress, Telegram, TelegramDirection, apci, tpci

IA = IndividualAddress("4.0.1")


def incoming(xknx: XKNX, _tpci: tpci.TPCI, payload: apci.APCI | None = None) -> Telegram:
    """Return a frame as received from the device IA."""
    return Telegram(
        source_address=IA,
        destination_address=xknx.current_address,
        direction=TelegramDirection.INCOMING,
        tpci=_tpci,
        payload=payload,
    )


async def drain() -> None:
    """Run ready callbacks."""
    for _ in range(10):
        await asyncio.sleep(0)


async def test_connectionless_data_is_returned_as_connection_oriented_response() -> None:
    """A T_Data_Individual with a payload of the expected type answers request 0."""
    xknx = XKNX()
    xknx.cemi_handler = AsyncMock()
    conn = await xknx.management.connect(IA, rate_limit=0)

    task = asyncio.create_task(conn.request(apci.DeviceDescriptorRead(descriptor=0)))
    await drain()
    xknx.management.process(incoming(xknx, tpci.TAck(0)))
    # connectionless frame of the same device - eg. its answer to a connectionless
    # A_DeviceDescriptor_Read - raw TPCI 0b000000xx: no sequence number at all
    stray = incoming(
        xknx,
        tpci.TDataIndividual(),
        apci.DeviceDescriptorResponse(descriptor=0, value=0x0705),
    )
    assert stray.tpci.numbered is False
    xknx.management.process(stray)
    # the genuine connection-oriented response, number 0, value 0x07B0
    genuine = incoming(
        xknx,
        tpci.TDataConnected(0),
        apci.DeviceDescriptorResponse(descriptor=0, value=0x07B0),
    )
    xknx.management.process(genuine)
    await drain()

    assert task.done()
    try:
        response = task.result()
    except ManagementConnectionError:
        return  # failing with a management error is allowed by the property
    assert isinstance(response.tpci, tpci.TDataConnected) and (
        response.tpci.sequence_number == 0
    ), (
        f"request() returned {response!r} with tpci={response.tpci!r} "
        f"(numbered={response.tpci.numbered}) - an unnumbered T_Data_Individual - and "
        f"dropped the genuine T_Data_Connected(0) response (value 0x07B0); receive counter "
        f"is now {conn._expected_sequence_number}. The property requires a request to return "
        "only a response carrying the expected sequence number."
    )


async def test_same_frame_is_rejected_when_expected_number_is_not_zero() -> None:
    """Control (passes): with expected number 1 the same frame is rejected."""
    xknx = XKNX()
    xknx.cemi_handler = AsyncMock()
    conn = await xknx.management.connect(IA, rate_limit=0)
    for seq in (0, 1):
        task = asyncio.create_task(
            conn.request(apci.DeviceDescriptorRead(descriptor=0))
        )
        await drain()
        xknx.management.process(incoming(xknx, tpci.TAck(seq)))
        if seq == 1:
            xknx.management.process(
                incoming(
                    xknx,
                    tpci.TDataIndividual(),
                    apci.DeviceDescriptorResponse(descriptor=0, value=0x0705),
                )
            )
            await drain()
            assert not task.done()
        xknx.management.process(
            incoming(
                xknx,
                tpci.TDataConnected(seq),
                apci.DeviceDescriptorResponse(descriptor=0, value=0x07B0),
            )
        )
        response = await task
        assert response.payload.value == 0x07B0


async def test_t_connect_of_peer_is_returned_as_response() -> None:
    """A T_Connect of the peer is the "response" of a request without RESPONSE_TYPE."""
    xknx = XKNX()
    xknx.cemi_handler = AsyncMock()
    conn = await xknx.management.connect(IA, rate_limit=0)

    write = apci.PropertyValueWrite(
        object_index=0, property_id=1, count=1, start_index=1, data=b"\x00"
    )
    assert not isinstance(write, apci.APCIRequest)  # no response type to verify
    task = asyncio.create_task(conn.request(write))
    await drain()
    xknx.management.process(incoming(xknx, tpci.TAck(0)))
    # the peer - eg. a second management client running on that address - sends
    # T_Connect to us while we hold a connection to it
    xknx.management.process(incoming(xknx, tpci.TConnect()))
    # the genuine response, number 0
    xknx.management.process(
        incoming(
            xknx,
            tpci.TDataConnected(0),
            apci.PropertyValueResponse(
                object_index=0, property_id=1, count=1, start_index=1, data=b"\x00"
            ),
        )
    )
    await drain()

    assert task.done()
    try:
        response = task.result()
    except ManagementConnectionError:
        return  # allowed
    assert isinstance(response.tpci, tpci.TDataConnected), (
        f"request() returned the control frame {response!r} (tpci={response.tpci!r}, "
        f"payload={response.payload!r}) as the response, advanced the receive counter to "
        f"{conn._expected_sequence_number} and dropped the genuine T_Data_Connected(0). The "
        "property requires a request to return only a response carrying the expected sequence "
        "number, or to fail with a management error."
    )


async def test_wire_level_connectionless_frame_answers_the_request() -> None:
    """The same history as raw cEMI bytes through the real CEMIHandler."""
    from unittest.mock import Mock

    from xknx.cemi import CEMIFrame, CEMILData, CEMIMessageCode

    xknx = XKNX()
    xknx.current_address = IndividualAddress("1.1.250")
    sent: list[CEMIFrame] = []

    async def send_cemi(cemi: CEMIFrame) -> None:
        """Network boundary: record the frame and confirm it (L_Data.con)."""
        sent.append(cemi)
        xknx.cemi_handler.handle_cemi_frame(
            CEMIFrame(code=CEMIMessageCode.L_DATA_CON, data=cemi.data)
        )

    xknx.knxip_interface = Mock()
    xknx.knxip_interface.send_cemi = send_cemi

    def raw_ind(_tpci: tpci.TPCI, payload: apci.APCI | None = None) -> bytes:
        """Return the raw L_Data.ind of a frame sent by the device to us."""
        return CEMIFrame(
            code=CEMIMessageCode.L_DATA_IND,
            data=CEMILData.init_from_telegram(
                Telegram(
                    source_address=IA,
                    destination_address=xknx.current_address,
                    tpci=_tpci,
                    payload=payload,
                )
            ),
        ).to_knx()

    conn = await xknx.management.connect(IA, rate_limit=0)
    task = asyncio.create_task(conn.request(apci.DeviceDescriptorRead(descriptor=0)))
    await drain()
    xknx.cemi_handler.handle_raw_cemi(raw_ind(tpci.TAck(0)))
    stray = raw_ind(
        tpci.TDataIndividual(),
        apci.DeviceDescriptorResponse(descriptor=0, value=0x0705),
    )
    # TPCI/APCI octets: 0x03 0x40 - control=0, numbered=0, no sequence number
    assert stray[-4] & 0xFC == 0x00
    xknx.cemi_handler.handle_raw_cemi(stray)
    xknx.cemi_handler.handle_raw_cemi(
        raw_ind(
            tpci.TDataConnected(0),
            apci.DeviceDescriptorResponse(descriptor=0, value=0x07B0),
        )
    )
    await drain()
    assert task.done()
    try:
        response = task.result()
    except ManagementConnectionError:
        return
    acks = [c.data.tpci for c in sent if isinstance(c.data.tpci, tpci.TAck)]
    assert response.tpci.numbered and response.payload.value == 0x07B0, (
        f"request() returned the connectionless frame (tpci={response.tpci!r}, "
        f"value={response.payload.value:#06x}) received as raw cEMI {stray.hex()}; the genuine "
        f"T_Data_Connected(0) (value 0x07b0) was acknowledged ({acks}) but dropped. The property "
        "requires a request to return only a response carrying the expected sequence number."
    )
