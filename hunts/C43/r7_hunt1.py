"""
C43 hunt 1: received T_Data_Connected frames are acknowledged unconditionally.

Property clause: "a received data frame is acknowledged only if it belongs to an
open connection and carries the expected or the immediately preceding number."

`Management.process` sends a T_ACK for every T_Data_Connected before it even looks
up the connection - so it acknowledges
  (a) data frames with a sequence number that is neither expected nor the repetition,
  (b) data frames on a connection the peer has already closed with T_Disconnect,
  (c) data frames of a connection we closed ourselves (no connection at all).
"""

import asyncio
from unittest.mock import AsyncMock, patch

import pytest

from xknx import XKNX
from xknx.telegram import IndividualAddress, Telegram, TelegramDirection, apci, tpci

DEVICE = IndividualAddress("4.0.1")


def incoming(xknx: XKNX, _tpci: tpci.TPCI, payload: apci.APCI | None = None) -> Telegram:
    """Return a telegram of the device addressed to us."""
    return Telegram(
        source_address=DEVICE,
        destination_address=xknx.current_address,
        direction=TelegramDirection.INCOMING,
        tpci=_tpci,
        payload=payload,
    )


def sent_acks(xknx: XKNX) -> list[int]:
    """Return sequence numbers of all T_ACK sent to the device."""
    return [
        c.args[0].tpci.sequence_number
        for c in xknx.cemi_handler.send_telegram.call_args_list
        if isinstance(c.args[0].tpci, tpci.TAck)
    ]


async def settle() -> None:
    """Let background tasks run."""
    for _ in range(5):
        await asyncio.sleep(0)


async def open_connection_with_one_exchange(xknx: XKNX):
    """Open a connection and do one request/response (numbers 0), so expected rx number is 1."""
    conn = await xknx.management.connect(DEVICE, rate_limit=0)
    task = asyncio.create_task(conn.request(apci.DeviceDescriptorRead(descriptor=0)))
    await asyncio.sleep(0)
    # through the real receive path of the CEMI handler
    xknx.cemi_handler.telegram_received(incoming(xknx, tpci.TAck(0)))
    xknx.cemi_handler.telegram_received(
        incoming(xknx, tpci.TDataConnected(0), apci.DeviceDescriptorResponse())
    )
    response = await task
    assert response.tpci.sequence_number == 0
    await settle()
    assert sent_acks(xknx) == [0]
    xknx.cemi_handler.send_telegram.reset_mock()
    return conn


@pytest.fixture(autouse=True)
def send_telegram_mock():
    """Mock only the send side of the CEMI handler (network boundary); receive path is real."""
    with patch(
        "xknx.cemi.cemi_handler.CEMIHandler.send_telegram", new_callable=AsyncMock
    ) as mock:
        yield mock


def make_xknx() -> XKNX:
    """Return XKNX."""
    return XKNX()


@pytest.mark.parametrize("seq", [2, 3, 7, 8, 15])
async def test_out_of_sequence_data_is_not_acknowledged(seq: int) -> None:
    """Open connection, expected rx number 1 (repetition would be 0): `seq` is neither."""
    xknx = make_xknx()
    conn = await open_connection_with_one_exchange(xknx)
    assert conn._expected_sequence_number == 1

    xknx.cemi_handler.telegram_received(
        incoming(xknx, tpci.TDataConnected(seq), apci.DeviceDescriptorResponse())
    )
    await settle()
    acks = sent_acks(xknx)
    assert acks == [], (
        f"observed: T_Data_Connected(seq={seq}) on an open connection expecting 1 "
        f"(preceding 0) was acknowledged with T_ACK{acks}; the property requires an ACK "
        "only for the expected or the immediately preceding number"
    )


async def test_data_after_peer_disconnect_is_not_acknowledged() -> None:
    """The peer closed the connection with T_Disconnect - the connection is not open any more."""
    xknx = make_xknx()
    conn = await open_connection_with_one_exchange(xknx)
    xknx.cemi_handler.telegram_received(incoming(xknx, tpci.TDisconnect()))
    assert conn._connected is False

    xknx.cemi_handler.telegram_received(
        incoming(xknx, tpci.TDataConnected(1), apci.DeviceDescriptorResponse())
    )
    await settle()
    acks = sent_acks(xknx)
    assert acks == [], (
        f"observed: data frame received after the peer's T_Disconnect was acknowledged "
        f"with T_ACK{acks}; the property requires an ACK only for data of an OPEN connection"
    )


async def test_data_after_own_disconnect_is_not_acknowledged() -> None:
    """We closed the connection - a late (repeated) response must not be acknowledged."""
    xknx = make_xknx()
    conn = await open_connection_with_one_exchange(xknx)
    await conn.disconnect()
    assert DEVICE not in xknx.management._connections
    xknx.cemi_handler.send_telegram.reset_mock()

    xknx.cemi_handler.telegram_received(
        incoming(xknx, tpci.TDataConnected(1), apci.DeviceDescriptorResponse())
    )
    await settle()
    acks = sent_acks(xknx)
    assert acks == [], (
        f"observed: data frame of a connection that does not exist (closed by us) was "
        f"acknowledged with T_ACK{acks}; the property requires an ACK only for data "
        "belonging to an open connection"
    )
