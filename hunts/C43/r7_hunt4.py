"""
C43 hunt 4: one received response is handed to two requests.

Property clause: "each response is used once" (and "a management request returns only a
response ... carrying the expected sequence number").

`P2PConnection._receive()` awaits the shared future `self._response_waiter`. When a second
task issues a request on the same connection while the first one is still waiting for its
response (its data was already acknowledged, so the transport layer is free to send), both
coroutines await the *same* future: the single T_Data_Connected(0) of the device resolves
both requests. The second request returns the response of the first one; the device's answer
to the second request (number 1) is then left over in a fresh future and discarded by the
next request.
"""

import asyncio
from unittest.mock import AsyncMock, patch

import pytest

from xknx import XKNX
from xknx.telegram import IndividualAddress, Telegram, TelegramDirection, apci, tpci

DEVICE = IndividualAddress("4.0.1")


@pytest.fixture(autouse=True)
def send_telegram_mock():
    """Mock only the send side of the CEMI handler (network boundary)."""
    with patch(
        "xknx.cemi.cemi_handler.CEMIHandler.send_telegram", new_callable=AsyncMock
    ) as mock:
        yield mock


def incoming(xknx: XKNX, _tpci: tpci.TPCI, payload: apci.APCI | None = None) -> Telegram:
    return Telegram(
        source_address=DEVICE,
        destination_address=xknx.current_address,
        direction=TelegramDirection.INCOMING,
        tpci=_tpci,
        payload=payload,
    )


async def settle() -> None:
    for _ in range(5):
        await asyncio.sleep(0)


async def test_one_response_resolves_two_requests() -> None:
    """Task A waits for its response, task B sends the next request on the same connection."""
    xknx = XKNX()
    conn = await xknx.management.connect(DEVICE, rate_limit=0)

    # A: read memory at 0x0100 - acknowledged, device still prepares the answer
    task_a = asyncio.create_task(conn.request(apci.MemoryRead(address=0x0100, count=1)))
    await settle()
    xknx.cemi_handler.telegram_received(incoming(xknx, tpci.TAck(0)))
    await settle()

    # B: read memory at 0x0200 - acknowledged as well
    task_b = asyncio.create_task(conn.request(apci.MemoryRead(address=0x0200, count=1)))
    await settle()
    xknx.cemi_handler.telegram_received(incoming(xknx, tpci.TAck(1)))
    await settle()
    assert not task_a.done()
    assert not task_b.done()

    # the device answers A: ONE data frame, number 0
    response_a = incoming(
        xknx,
        tpci.TDataConnected(0),
        apci.MemoryResponse(address=0x0100, data=b"\xaa"),
    )
    xknx.cemi_handler.telegram_received(response_a)
    await settle()

    a_result = task_a.result() if task_a.done() and not task_a.exception() else None
    b_result = task_b.result() if task_b.done() and not task_b.exception() else None
    for task in (task_a, task_b):
        task.cancel()

    assert a_result is response_a
    assert b_result is not response_a, (
        "observed: after a single received T_Data_Connected(0) both pending requests "
        f"returned - request B (MemoryRead 0x0200, sent with number 1) returned {b_result}, "
        "the very same telegram object request A returned; the property requires that each "
        "response is used once"
    )
