"""
C43 hunt 1 - received T_Data_Connected frames are acknowledged unconditionally.

Property clause: "a received data frame is acknowledged only if it belongs to an
open connection and carries the expected or the immediately preceding number."

`Management.process()` sends a T_ACK for every T_Data_Connected addressed to us
before it even looks up the connection or the sequence number.
"""

import asyncio
from unittest.mock import AsyncMock

from xknx import XKNX
from xknx.telegram import IndividualAddress, Telegram, TelegramDirection, apci, tpci

IA = IndividualAddress("4.0.1")


def incoming(xknx: XKNX, _tpci: tpci.TPCI, payload: apci.APCI | None = None) -> Telegram:
    """Return a frame as received from the device IA."""
    return Telegram(
        source_address=IA,
        destination_address=xknx.current_address,
        direction=TelegramDirection.INCOMING,
        tpci=_tpci,
        payload=payload,
    )


async def drain() -> None:
    """Let background tasks (the T_ACK sender) run."""
    for _ in range(10):
        await asyncio.sleep(0)


def sent_acks(xknx: XKNX) -> list[int]:
    """Return sequence numbers of all T_ACK frames handed to the CEMI handler."""
    return [
        c.args[0].tpci.sequence_number
        for c in xknx.cemi_handler.send_telegram.call_args_list
        if isinstance(c.args[0].tpci, tpci.TAck)
    ]


async def test_control_expected_and_preceding_number_are_acked() -> None:
    """Sanity check (passes): the frames the property allows to be acked are acked."""
    xknx = XKNX()
    xknx.cemi_handler = AsyncMock()
    conn = await xknx.management.connect(IA, rate_limit=0)
    task = asyncio.create_task(conn.request(apci.DeviceDescriptorRead(descriptor=0)))
    await drain()
    xknx.management.process(incoming(xknx, tpci.TAck(0)))
    resp = incoming(xknx, tpci.TDataConnected(0), apci.DeviceDescriptorResponse())
    xknx.management.process(resp)  # expected number 0
    await task
    xknx.management.process(resp)  # duplicate: immediately preceding number
    await drain()
    assert sent_acks(xknx) == [0, 0]


async def test_open_connection_wrong_sequence_number_is_acked() -> None:
    """Open connection, expected number 0, device sends number 5."""
    xknx = XKNX()
    xknx.cemi_handler = AsyncMock()
    conn = await xknx.management.connect(IA, rate_limit=0)
    assert conn._expected_sequence_number == 0
    xknx.cemi_handler.send_telegram.reset_mock()

    xknx.management.process(
        incoming(xknx, tpci.TDataConnected(5), apci.DeviceDescriptorResponse())
    )
    await drain()

    # the connection itself rejected the frame ...
    assert conn._expected_sequence_number == 0
    assert not conn._response_waiter.done()
    # ... but it was acknowledged
    assert sent_acks(xknx) == [], (
        f"T_ACK {sent_acks(xknx)} was sent for a T_Data_Connected with sequence number 5 "
        "on an open connection that expects 0 (immediately preceding would be 15) and that "
        "dropped the frame. The property requires a data frame to be acknowledged only if "
        "it carries the expected or the immediately preceding number."
    )


async def test_connection_closed_by_peer_is_still_acked() -> None:
    """The peer sent T_Disconnect; a later data frame of it is acknowledged anyway."""
    xknx = XKNX()
    xknx.cemi_handler = AsyncMock()
    conn = await xknx.management.connect(IA, rate_limit=0)
    xknx.management.process(incoming(xknx, tpci.TDisconnect()))
    assert conn._connected is False
    xknx.cemi_handler.send_telegram.reset_mock()

    xknx.management.process(
        incoming(xknx, tpci.TDataConnected(0), apci.DeviceDescriptorResponse())
    )
    await drain()
    # avoid "Future exception was never retrieved" noise
    conn._response_waiter.exception()

    assert sent_acks(xknx) == [], (
        f"T_ACK {sent_acks(xknx)} was sent for a T_Data_Connected received after the peer "
        "closed the connection with T_Disconnect (P2PConnection._connected is False). "
        "The property requires a data frame to be acknowledged only if it belongs to an "
        "open connection."
    )


async def test_no_connection_at_all_is_acked() -> None:
    """
    No connection to the sender exists - the frame is acknowledged anyway.

    NOTE: test/management_tests/management_test.py::
    test_incoming_unexpected_numbered_telegram explicitly pins this behaviour.
    """
    xknx = XKNX()
    xknx.cemi_handler = AsyncMock()
    assert not xknx.management._connections

    xknx.management.process(
        incoming(xknx, tpci.TDataConnected(9), apci.DeviceDescriptorRead(descriptor=0))
    )
    await drain()

    assert sent_acks(xknx) == [], (
        f"T_ACK {sent_acks(xknx)} was sent to {IA} for a T_Data_Connected although no "
        "point-to-point connection to that device exists (Management logged 'No active "
        "point-to-point connection'). The property requires a data frame to be "
        "acknowledged only if it belongs to an open connection."
    )


async def test_ack_of_dropped_frames_hides_a_desynchronised_connection() -> None:
    """
    The device sends two data frames back to back (numbers 0 and 1) for one request.

    The second one carries the expected number, is acknowledged by Management, but
    dropped by the connection (no free waiter) WITHOUT advancing the receive counter.
    The device - having its frame acknowledged - goes on with 2, 3, ...; the connection
    expects 1 for ever, drops every response (each request times out) and still
    acknowledges all of them, so the device never notices.
    """
    from xknx.exceptions import ManagementConnectionTimeout

    loop = asyncio.get_running_loop()
    base, offset = loop.time, [0.0]
    loop.time = lambda: base() + offset[0]  # type: ignore[method-assign]

    xknx = XKNX()
    xknx.cemi_handler = AsyncMock()
    conn = await xknx.management.connect(IA, rate_limit=0)
    task = asyncio.create_task(conn.request(apci.DeviceDescriptorRead(descriptor=0)))
    await drain()
    xknx.management.process(incoming(xknx, tpci.TAck(0)))
    xknx.management.process(
        incoming(xknx, tpci.TDataConnected(0), apci.DeviceDescriptorResponse())
    )
    xknx.management.process(
        incoming(xknx, tpci.TDataConnected(1), apci.DeviceDescriptorResponse())
    )
    await task
    await drain()
    assert sent_acks(xknx) == [0, 1]  # both allowed: 0 and 1 were the expected numbers
    assert conn._expected_sequence_number == 1  # ... but frame 1 was not taken

    xknx.cemi_handler.send_telegram.reset_mock()
    task = asyncio.create_task(conn.request(apci.DeviceDescriptorRead(descriptor=0)))
    await drain()
    xknx.management.process(incoming(xknx, tpci.TAck(1)))
    xknx.management.process(
        incoming(xknx, tpci.TDataConnected(2), apci.DeviceDescriptorResponse())
    )
    for _ in range(7):
        await drain()
        offset[0] += 1
        await asyncio.sleep(0)
    await drain()
    assert isinstance(task.exception(), ManagementConnectionTimeout)  # allowed
    assert conn._expected_sequence_number == 1
    assert sent_acks(xknx) == [], (
        f"T_ACK {sent_acks(xknx)} was sent for T_Data_Connected number 2 while the connection "
        "expects 1 (preceding: 0); the frame was dropped and the request timed out. The "
        "property requires a data frame to be acknowledged only if it carries the expected or "
        "the immediately preceding number."
    )
