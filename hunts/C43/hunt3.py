"""
C43 hunt 3 - a request that is pending while the connection is closed locally ends
with asyncio.CancelledError instead of a management error.

Property clause: "a management request returns only a response of the expected type
carrying the expected sequence number, or fails with a management error within
bounded time".

`P2PConnection.disconnect()` calls `.cancel()` on `_ack_waiter` and `_response_waiter`.
A `request()` of another task that is suspended on one of these futures is resumed
with `asyncio.CancelledError` - a BaseException that no `except ManagementConnectionError`
/ `except XKNXException` handler catches and that marks a task nobody cancelled as
cancelled. (The peer closing the connection is signalled properly, with
`ManagementConnectionRefused` set on the future - only the local close is not.)
"""

import asyncio
from unittest.mock import AsyncMock

import pytest

from xknx import XKNX
from xknx.exceptions import ManagementConnectionError
from xknx.telegram import IndividualAddress, Telegram, TelegramDirection, apci, tpci

IA = IndividualAddress("4.0.1")


def incoming(xknx: XKNX, _tpci: tpci.TPCI, payload: apci.APCI | None = None) -> Telegram:
    """Return a frame as received from the device IA."""
    return Telegram(
        source_address=IA,
        destination_address=xknx.current_address,
        direction=TelegramDirection.INCOMING,
        tpci=_tpci,
        payload=payload,
    )


async def drain() -> None:
    """Run ready callbacks."""
    for _ in range(10):
        await asyncio.sleep(0)


async def outcome(task: asyncio.Task) -> BaseException | object:
    """Return what the request task ended with."""
    await drain()
    assert task.done(), "request still pending after the connection was closed"
    if task.cancelled():
        return asyncio.CancelledError()
    return task.exception() or task.result()


@pytest.mark.parametrize("ack_received", [False, True])
async def test_request_pending_during_local_disconnect(ack_received: bool) -> None:
    """Worker task is in request(); supervisor closes the connection."""
    xknx = XKNX()
    xknx.cemi_handler = AsyncMock()
    conn = await xknx.management.connect(IA, rate_limit=0)

    worker = asyncio.create_task(conn.request(apci.DeviceDescriptorRead(descriptor=0)))
    await drain()
    if ack_received:
        # request now waits for the response instead of the acknowledge
        xknx.management.process(incoming(xknx, tpci.TAck(0)))
        await drain()
    assert not worker.done()

    # supervisor (eg. shutdown handler, or the end of an
    # `async with xknx.management.connection(...)` block owned by another task)
    await xknx.management.disconnect(IA)

    result = await outcome(worker)
    where = "response" if ack_received else "T_ACK"
    assert worker.cancelling() == 0  # nobody cancelled the worker task
    assert isinstance(result, ManagementConnectionError), (
        f"request() suspended waiting for the {where} ended with {result!r} "
        f"(task.cancelled()={worker.cancelled()}, task.cancelling()={worker.cancelling()}) when "
        "the connection was closed locally. The property requires a request to return a "
        "response or to fail with a management error (ManagementConnectionError)."
    )
