"""
C25 hunt 1: a state-change callback that raises aborts the lifecycle step that notified it.

- the callbacks registered behind it are not notified of the change
- `Tunnel.disconnect()` is left half way: no DisconnectRequest, transport not stopped,
  the tunnel keeps acknowledging (sending) frames after the user disconnected while the
  connection manager reads DISCONNECTED.
"""

import asyncio
from unittest.mock import AsyncMock, Mock, patch

from xknx import XKNX
from xknx.core import XknxConnectionState
from xknx.io import UDPTunnel
from xknx.knxip import (
    HPAI,
    ConnectResponse,
    ConnectResponseData,
    DisconnectRequest,
    KNXIPFrame,
    TunnellingAck,
    TunnellingRequest,
)
from xknx.telegram import IndividualAddress

REMOTE = HPAI("192.168.1.2", 3671)


async def _connected_tunnel(xknx: XKNX, send: Mock) -> UDPTunnel:
    tunnel = UDPTunnel(
        xknx,
        gateway_ip="192.168.1.2",
        gateway_port=3671,
        local_ip="192.168.1.1",
        local_port=0,
        cemi_received_callback=Mock(),
        auto_reconnect=True,
        auto_reconnect_wait=3,
        route_back=False,
    )
    task = asyncio.create_task(tunnel.connect())
    for _ in range(5):
        await asyncio.sleep(0)
    assert send.call_count == 1  # ConnectRequest
    tunnel.transport.handle_knxipframe(
        KNXIPFrame.init_from_body(
            ConnectResponse(
                communication_channel=23,
                data_endpoint=REMOTE,
                crd=ConnectResponseData(individual_address=IndividualAddress(7)),
            )
        ),
        REMOTE,
    )
    await task
    return tunnel


@patch("xknx.io.tunnel.UDPTransport.send")
@patch("xknx.io.tunnel.UDPTransport.stop")
@patch("xknx.io.tunnel.UDPTransport.getsockname", return_value=("192.168.1.1", 12345))
@patch("xknx.io.tunnel.UDPTransport.connect", new_callable=AsyncMock)
async def test_raising_callback_aborts_user_disconnect(
    _connect: AsyncMock, _getsockname: Mock, stop: Mock, send: Mock
) -> None:
    xknx = XKNX()
    seen: list[XknxConnectionState] = []

    def broken_cb(state: XknxConnectionState) -> None:
        if state is XknxConnectionState.DISCONNECTED:
            raise RuntimeError("bug in a user callback")

    xknx.connection_manager.register_connection_state_changed_cb(broken_cb)
    xknx.connection_manager.register_connection_state_changed_cb(seen.append)

    tunnel = await _connected_tunnel(xknx, send)
    # pretend the datagram endpoint exists (it is mocked away with `connect`)
    tunnel.transport.transport = Mock()
    assert xknx.connection_manager.state is XknxConnectionState.CONNECTED
    assert seen == [XknxConnectionState.CONNECTING, XknxConnectionState.CONNECTED]
    send.reset_mock()
    stop.reset_mock()

    try:
        await tunnel.disconnect()  # the user disconnects
    except RuntimeError:
        pass

    problems = []
    if seen[-1] is not XknxConnectionState.DISCONNECTED:
        problems.append(
            f"second callback saw {seen} - it was never notified of the change to "
            f"{xknx.connection_manager.state} (property: each callback once per change)"
        )
    sent = [c.args[0].body for c in send.call_args_list]
    if not any(isinstance(b, DisconnectRequest) for b in sent) or not stop.called:
        problems.append(
            f"state reads {xknx.connection_manager.state.name} but the tunnel is still "
            f"established: channel={tunnel.communication_channel}, frames sent={sent}, "
            f"transport.stop() called={stop.called} (property: 'connected' reads exactly "
            "while a tunnel is established)"
        )
    # the gateway still delivers frames on the open channel - the tunnel answers
    send.reset_mock()
    tunnel.transport.handle_knxipframe(
        KNXIPFrame.init_from_body(
            TunnellingRequest(
                communication_channel_id=23,
                sequence_counter=0,
                raw_cemi=bytes.fromhex("2900bcd011162916030080 0c 3f"),
            )
        ),
        REMOTE,
    )
    acks = [c for c in send.call_args_list if isinstance(c.args[0].body, TunnellingAck)]
    if acks:
        problems.append(
            f"{len(acks)} TunnellingAck sent after the user's disconnect() "
            "(property: sends nothing after the user disconnected)"
        )
    assert not problems, "\n".join(problems)
