"""C25 hunt 2: a secure tunnel opens a secure session AFTER the user has disconnected.

`disconnect()` during the TCP connection establishment of the initial `connect()` returns at
once (nothing to close yet). When the TCP connection is made afterwards, `SecureSession.connect()`
goes on to send the SessionRequest (and would authenticate) before `_Tunnel.connect()` gets to
look at `_disconnecting` - frames are sent after the user disconnected.
"""

import asyncio
from unittest.mock import Mock

from xknx import XKNX
from xknx.core import XknxConnectionState
from xknx.exceptions import CommunicationError
from xknx.io.tunnel import SecureTunnel
from xknx.knxip import KNXIPFrame


async def test_secure_tunnel_sends_after_user_disconnect():
    loop = asyncio.get_running_loop()
    sent_after_disconnect: list = []
    sent: list = []
    disconnected = False
    tcp_established = asyncio.Event()

    async def create_connection(factory, host=None, port=None, **kwargs):
        # network boundary: the TCP handshake takes a while (slow / unreachable gateway)
        await tcp_established.wait()
        proto = factory()
        sock_transport = Mock()

        def write(data: bytes) -> None:
            body = KNXIPFrame.from_knx(data)[0].body
            sent.append(body)
            if disconnected:
                sent_after_disconnect.append(body)

        sock_transport.write = write
        sock_transport.close = lambda: loop.call_soon(proto.connection_lost, None)
        proto.connection_made(sock_transport)
        return sock_transport, proto

    loop.create_connection = create_connection

    xknx = XKNX()
    tunnel = SecureTunnel(
        xknx,
        cemi_received_callback=Mock(),
        gateway_ip="192.168.1.2",
        gateway_port=3671,
        user_id=2,
        user_password="user",
        auto_reconnect=True,
        auto_reconnect_wait=1,
    )
    connect_task = asyncio.create_task(tunnel.connect())
    await asyncio.sleep(0)
    assert xknx.connection_manager.state is XknxConnectionState.CONNECTING
    assert not sent

    # the user gives up (eg. xknx.stop() / KNXIPInterface.stop() while start() is pending)
    await tunnel.disconnect()
    disconnected = True
    assert xknx.connection_manager.state is XknxConnectionState.DISCONNECTED

    # now the TCP connection gets established
    tcp_established.set()
    try:
        async with asyncio.timeout(5):
            await connect_task
    except CommunicationError:
        pass
    for _ in range(5):
        await asyncio.sleep(0)

    assert not sent_after_disconnect, (
        f"after disconnect() had returned the tunnel sent {sent_after_disconnect} - "
        "the property requires that nothing is sent after the user disconnected"
    )
