"""
C25 hunt 1: Secure routing reports CONNECTED after the user disconnected.

`xknx.stop()` (-> `KNXIPInterface.stop()` -> `SecureRouting.disconnect()`) while
`xknx.start()` is still inside the secure timer synchronisation (a window of up to
3.3 s at the default latency) leaves the connection manager in state CONNECTED -
forever - although the transport is closed and no routing connection exists.

Only the OS boundary is mocked (`loop.create_datagram_endpoint`, the multicast socket).
"""

import asyncio
from unittest.mock import Mock, patch

from xknx import XKNX
from xknx.core import XknxConnectionState
from xknx.io import ConnectionConfig, ConnectionType, SecureConfig
from xknx.io.transport.udp_transport import UDPTransport

BACKBONE_KEY = "0aa227b4fd7a32319ba9960ac036ce0e"


async def _scenario() -> tuple[list[XknxConnectionState], XKNX]:
    xknx = XKNX(
        connection_config=ConnectionConfig(
            connection_type=ConnectionType.ROUTING_SECURE,
            local_ip="127.0.0.1",
            secure_config=SecureConfig(backbone_key=BACKBONE_KEY),
        )
    )
    seen: list[XknxConnectionState] = []
    xknx.connection_manager.register_connection_state_changed_cb(seen.append)

    loop = asyncio.get_running_loop()

    async def fake_create_datagram_endpoint(protocol_factory, **_kwargs):  # type: ignore[no-untyped-def]
        await asyncio.sleep(0)
        transport = Mock(name="DatagramTransport")
        transport.get_extra_info.return_value = ("127.0.0.1", 3671)
        protocol = protocol_factory()
        protocol.connection_made(transport)
        return transport, protocol

    with (
        patch.object(
            loop, "create_datagram_endpoint", side_effect=fake_create_datagram_endpoint
        ),
        patch.object(UDPTransport, "create_multicast_sock", return_value=Mock()),
    ):
        start_task = asyncio.create_task(xknx.knxip_interface.start())
        # let start() open the sockets and enter the timer synchronisation
        for _ in range(10):
            await asyncio.sleep(0)
        interface = xknx.knxip_interface._interface
        assert interface is not None
        assert interface.transport.transport is not None, "precondition: socket open"
        assert not start_task.done(), "precondition: start() is synchronizing"
        assert xknx.connection_manager.state is XknxConnectionState.CONNECTING

        # the user gives up / shuts down
        await xknx.knxip_interface.stop()
        assert xknx.connection_manager.state is XknxConnectionState.DISCONNECTED

        # let the pending start() finish whatever it does
        await asyncio.wait([start_task], timeout=1)
        for _ in range(10):
            await asyncio.sleep(0)
        transport_open = interface.transport.transport is not None
        interface.transport.stop()
    return seen, xknx, transport_open, start_task  # type: ignore[return-value]


def test_secure_routing_disconnect_while_connecting() -> None:
    """State must not read CONNECTED after the user disconnected and the transport is closed."""
    seen, xknx, transport_open, start_task = asyncio.run(_scenario())  # type: ignore[misc]
    state = xknx.connection_manager.state
    assert not (
        state is XknxConnectionState.CONNECTED
        or xknx.connection_manager.connected.is_set()
    ), (
        f"observed: after stop() during start(), connection state reads {state} "
        f"(connected event set={xknx.connection_manager.connected.is_set()}, "
        f"transport open={transport_open}, interface={xknx.knxip_interface._interface}, "
        f"start() finished without error={start_task.done() and not start_task.cancelled() and start_task.exception() is None}, "
        f"callback history={[s.name for s in seen]}); "
        "property C25 requires the state to read 'connected' exactly while a tunnel or "
        "routing connection is established - here the user disconnected and the socket is closed"
    )


if __name__ == "__main__":
    test_secure_routing_disconnect_while_connecting()
