"""
C25 hunt 1: a transport loss DURING the initial `connect()` spawns a background reconnect task.

The reconnect task runs `connect()` concurrently with the still pending initial `connect()`
(two connection attempts at a time) and survives the `CommunicationError` the initial
`connect()` reports. `KNXIPInterface._start_automatic()` then moves on to the next gateway and
replaces `self._interface` - the first tunnel is orphaned, can never be disconnected by the
user, keeps sending ConnectRequests after `stop()` and keeps writing into the shared
ConnectionManager (state reads CONNECTING / DISCONNECTED while the second tunnel is established).

Real library code, real asyncio TCP sockets on 127.0.0.1 - only the gateway is a fake server.
"""

from __future__ import annotations

import asyncio
from collections.abc import AsyncIterator
from unittest.mock import patch

import pytest

from xknx import XKNX
from xknx.core import XknxConnectionState
from xknx.exceptions import CommunicationError
from xknx.io import ConnectionConfig, ConnectionType, TCPTunnel
from xknx.io.gateway_scanner import GatewayDescriptor
from xknx.knxip import (
    HPAI,
    ConnectionStateRequest,
    ConnectionStateResponse,
    ConnectRequest,
    ConnectResponse,
    ConnectResponseData,
    DisconnectRequest,
    DisconnectResponse,
    HostProtocol,
    KNXIPFrame,
)
from xknx.telegram import IndividualAddress


class FakeTCPGateway:
    """Minimal KNXnet/IP TCP tunnelling server on 127.0.0.1."""

    def __init__(self, close_on_connect_request: bool) -> None:
        self.close_on_connect_request = close_on_connect_request
        self.server: asyncio.Server | None = None
        self.port = 0
        self.loop = asyncio.get_running_loop()
        # (loop time, frame) for each frame received
        self.received: list[tuple[float, KNXIPFrame]] = []
        self.connections_accepted: list[float] = []

    async def start(self) -> None:
        self.server = await asyncio.start_server(self._handle, "127.0.0.1", 0)
        self.port = self.server.sockets[0].getsockname()[1]

    async def stop(self) -> None:
        assert self.server is not None
        self.server.close()

    def connect_requests(self, since: float = 0.0) -> int:
        return sum(
            1
            for when, frame in self.received
            if when >= since and isinstance(frame.body, ConnectRequest)
        )

    async def _handle(
        self, reader: asyncio.StreamReader, writer: asyncio.StreamWriter
    ) -> None:
        self.connections_accepted.append(self.loop.time())
        buffer = b""
        try:
            while data := await reader.read(1024):
                buffer += data
                while len(buffer) >= 6:
                    total_length = int.from_bytes(buffer[4:6], "big")
                    if len(buffer) < total_length:
                        break
                    frame, _ = KNXIPFrame.from_knx(buffer[:total_length])
                    buffer = buffer[total_length:]
                    self.received.append((self.loop.time(), frame))
                    if isinstance(frame.body, ConnectRequest):
                        if self.close_on_connect_request:
                            # eg. no free connection / secure-only device / crashed service
                            writer.close()
                            return
                        response: KNXIPFrame = KNXIPFrame.init_from_body(
                            ConnectResponse(
                                communication_channel=7,
                                data_endpoint=HPAI(protocol=HostProtocol.IPV4_TCP),
                                crd=ConnectResponseData(
                                    individual_address=IndividualAddress("1.1.7")
                                ),
                            )
                        )
                        writer.write(response.to_knx())
                    elif isinstance(frame.body, ConnectionStateRequest):
                        writer.write(
                            KNXIPFrame.init_from_body(
                                ConnectionStateResponse(communication_channel_id=7)
                            ).to_knx()
                        )
                    elif isinstance(frame.body, DisconnectRequest):
                        writer.write(
                            KNXIPFrame.init_from_body(
                                DisconnectResponse(communication_channel_id=7)
                            ).to_knx()
                        )
        except ConnectionError:
            pass
        finally:
            writer.close()


async def _cleanup_tunnel(tunnel: TCPTunnel) -> None:
    """Do not leak tasks into other tests."""
    tunnel.auto_reconnect = False
    if tunnel._reconnect_task is not None:
        tunnel._reconnect_task.cancel()
    tunnel.stop_heartbeat()
    tunnel.transport.stop()
    await asyncio.sleep(0)


async def test_transport_loss_during_initial_connect_tunnel() -> None:
    """A TCP connection closed by the gateway during `connect()` - tunnel level."""
    gateway = FakeTCPGateway(close_on_connect_request=True)
    await gateway.start()
    loop = asyncio.get_running_loop()

    xknx = XKNX()
    states: list[XknxConnectionState] = []
    xknx.connection_manager.register_connection_state_changed_cb(states.append)
    tunnel = TCPTunnel(
        xknx,
        gateway_ip="127.0.0.1",
        gateway_port=gateway.port,
        cemi_received_callback=lambda raw: None,
        auto_reconnect=True,
        auto_reconnect_wait=1,
    )
    try:
        connect_task = asyncio.create_task(tunnel.connect())
        # the gateway closes the TCP connection when it receives the ConnectRequest;
        # `connect()` is waiting (1 second) for the ConnectResponse
        await asyncio.sleep(0.5)
        assert not connect_task.done()
        in_flight = gateway.connect_requests()
        tcp_connections = len(gateway.connections_accepted)
        reconnect_running_with_connect = (
            tunnel._reconnect_task is not None and not tunnel._reconnect_task.done()
        )

        with pytest.raises(CommunicationError):
            await connect_task
        failure_reported_at = loop.time()
        states_at_failure = list(states)

        # `connect()` told the caller the tunnel could not be established.
        await asyncio.sleep(2.6)
        attempts_after_failure = gateway.connect_requests(since=failure_reported_at)
        states_after_failure = states[len(states_at_failure) :]

        assert (
            in_flight == 1
            and not reconnect_running_with_connect
            and attempts_after_failure == 0
            and not states_after_failure
        ), (
            "C25 requires at most one (re)connect attempt at a time and a consistent lifecycle. "
            f"Observed: {in_flight} ConnectRequests on {tcp_connections} TCP "
            "connections reached the gateway while the one initial connect() call was still "
            f"pending (reconnect task running concurrently: {reconnect_running_with_connect}); "
            "after connect() raised CommunicationError the tunnel sent "
            f"{attempts_after_failure} more ConnectRequest(s) on its own and reported "
            f"state changes {[s.name for s in states_after_failure]}."
        )
    finally:
        await _cleanup_tunnel(tunnel)
        await gateway.stop()


async def test_transport_loss_during_initial_connect_automatic() -> None:
    """Same trigger through KNXIPInterface automatic gateway selection: orphaned tunnel."""
    bad_gateway = FakeTCPGateway(close_on_connect_request=True)
    good_gateway = FakeTCPGateway(close_on_connect_request=False)
    await bad_gateway.start()
    await good_gateway.start()
    loop = asyncio.get_running_loop()

    async def fake_scan(_self: object) -> AsyncIterator[GatewayDescriptor]:
        """Mock of the multicast search - the network boundary."""
        for gateway in (bad_gateway, good_gateway):
            descriptor = GatewayDescriptor(
                ip_addr="127.0.0.1",
                port=gateway.port,
                supports_tunnelling_tcp=True,
            )
            descriptor.tunnelling_requires_secure = False
            yield descriptor

    xknx = XKNX(
        connection_config=ConnectionConfig(
            connection_type=ConnectionType.AUTOMATIC,
            auto_reconnect=True,
            auto_reconnect_wait=1,
        )
    )
    states: list[XknxConnectionState] = []
    xknx.connection_manager.register_connection_state_changed_cb(states.append)
    interface = xknx.knxip_interface
    orphans: list[TCPTunnel] = []
    try:
        with patch("xknx.io.knxip_interface.GatewayScanner.async_scan", fake_scan):
            await interface.start()
        # connected to the second gateway
        good_tunnel = interface._interface
        assert isinstance(good_tunnel, TCPTunnel)
        assert good_tunnel.gateway_port == good_gateway.port
        assert good_tunnel.communication_channel == 7
        assert xknx.connection_manager.state is XknxConnectionState.CONNECTED
        states_at_start = list(states)

        # nothing fails from here on: the tunnel to good_gateway stays established
        await asyncio.sleep(2.6)
        states_while_established = states[len(states_at_start) :]
        state_read_while_established = xknx.connection_manager.state
        assert good_tunnel.communication_channel == 7
        assert good_tunnel.transport.transport is not None

        # user disconnects
        await interface.stop()
        stopped_at = loop.time()
        await asyncio.sleep(2.6)
        sent_after_stop = bad_gateway.connect_requests(since=stopped_at)
        states_after_stop = states[states.index(XknxConnectionState.CONNECTED) :]

        assert (
            not states_while_established
            and state_read_while_established is XknxConnectionState.CONNECTED
            and sent_after_stop == 0
        ), (
            "C25 requires the state to read 'connected' exactly while a tunnel is established, "
            "to change only on real transitions, and nothing to be sent after the user "
            "disconnected. Observed: while the tunnel to the 2nd gateway was established and "
            "nothing failed, the state changed "
            f"{[s.name for s in states_while_established]} and read "
            f"{state_read_while_established.name}; after KNXIPInterface.stop() returned, "
            f"{sent_after_stop} ConnectRequest(s) were still sent (to the 1st gateway, by the "
            "orphaned tunnel whose reconnect task was started during its failed initial connect()). "
            f"State history from first CONNECTED: {[s.name for s in states_after_stop]}"
        )
    finally:
        for task in asyncio.all_tasks():
            coro = task.get_coro()
            if getattr(coro, "__qualname__", "") == "_Tunnel._reconnect":
                frame = coro.cr_frame  # type: ignore[union-attr]
                if frame is not None:
                    orphans.append(frame.f_locals["self"])
        for orphan in orphans:
            await _cleanup_tunnel(orphan)
        await bad_gateway.stop()
        await good_gateway.stop()
