"""
C25 hunt 2: Routing - `disconnect()` while `connect()` is pending, followed by a new
`connect()` of the same object. The second `connect()` resets `_disconnecting`, so the
first (aborted by the user) `connect()` carries on, reports CONNECTED and its sockets are
overwritten by the second one - they stay open after the final `disconnect()`.
"""

import asyncio
from unittest.mock import Mock, patch

from xknx import XKNX
from xknx.core import XknxConnectionState
from xknx.io.routing import Routing
from xknx.io.transport import UDPTransport


async def test_routing_reconnect_while_first_connect_pending() -> None:
    loop = asyncio.get_running_loop()
    opened: list[Mock] = []

    async def fake_endpoint(factory, **kwargs):  # noqa: ANN001, ANN003
        # like the real one: the endpoint is ready some loop iterations later
        for _ in range(3):
            await asyncio.sleep(0)
        transport = Mock(name=f"endpoint{len(opened)}")
        transport.is_open = True
        transport.close.side_effect = lambda t=transport: setattr(t, "is_open", False)
        transport.get_extra_info.return_value = ("192.168.1.1", 50000 + len(opened))
        opened.append(transport)
        return transport, factory()

    xknx = XKNX()
    states: list[XknxConnectionState] = []
    xknx.connection_manager.register_connection_state_changed_cb(states.append)
    with (
        patch.object(loop, "create_datagram_endpoint", fake_endpoint),
        patch.object(UDPTransport, "create_multicast_sock", return_value=Mock()),
    ):
        routing = Routing(xknx, None, Mock(), local_ip="192.168.1.1")
        first = asyncio.create_task(routing.connect())
        await asyncio.sleep(0)  # first connect is opening its sockets
        await routing.disconnect()  # the user stops ...
        second = asyncio.create_task(routing.connect())  # ... and starts again
        results = await asyncio.gather(first, second, return_exceptions=True)
        await routing.disconnect()  # final stop
        for _ in range(5):
            await asyncio.sleep(0)

    leaked = [t for t in opened if t.is_open]
    assert not leaked and xknx.connection_manager.state is XknxConnectionState.DISCONNECTED, (
        f"after the final disconnect() the state reads {xknx.connection_manager.state.name} "
        f"but {len(leaked)} of {len(opened)} sockets opened are still open and receiving "
        f"({leaked}); connect() results: {results}; states notified: {[s.name for s in states]}. "
        "The property requires 'connected' to read exactly while a routing connection is "
        "established - the connect() the user aborted must fail and close what it opened."
    )
