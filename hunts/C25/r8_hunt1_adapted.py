"""C25 hunt 1: a server DisconnectRequest that shares a TCP segment with the ConnectResponse is lost.

The tunnel ends up reporting CONNECTED (with a running heartbeat and channel id) although the
server has closed that very channel - 'connected' is read while no tunnel is established and
no reconnect attempt is running.
"""

import asyncio
from unittest.mock import Mock

import pytest

from xknx import XKNX
from xknx.exceptions import CommunicationError
from xknx.core import XknxConnectionState
from xknx.io import TCPTunnel
from xknx.knxip import (
    HPAI,
    ConnectRequest,
    ConnectResponse,
    ConnectResponseData,
    DisconnectRequest,
    DisconnectResponse,
    KNXIPFrame,
)
from xknx.knxip.knxip_enum import HostProtocol
from xknx.telegram import IndividualAddress

TCP_HPAI = HPAI(protocol=HostProtocol.IPV4_TCP)


def install_fake_tcp(loop, sent, protocols):
    """Mock only the network boundary: loop.create_connection hands out a fake socket transport."""

    async def create_connection(factory, host=None, port=None, **kwargs):
        proto = factory()
        sock_transport = Mock()
        sock_transport.write = lambda data: sent.append(KNXIPFrame.from_knx(data)[0].body)
        sock_transport.close = lambda: loop.call_soon(proto.connection_lost, None)
        proto.connection_made(sock_transport)
        protocols.append(proto)
        return sock_transport, proto

    loop.create_connection = create_connection


@pytest.mark.parametrize("auto_reconnect", [True, False])
async def test_disconnect_request_in_same_segment_as_connect_response(auto_reconnect):
    loop = asyncio.get_running_loop()
    sent: list = []
    protocols: list = []
    install_fake_tcp(loop, sent, protocols)

    xknx = XKNX()
    states: list[XknxConnectionState] = []
    xknx.connection_manager.register_connection_state_changed_cb(states.append)
    tunnel = TCPTunnel(
        xknx,
        cemi_received_callback=Mock(),
        gateway_ip="192.168.1.2",
        gateway_port=3671,
        auto_reconnect=auto_reconnect,
        auto_reconnect_wait=1,
    )
    connect_task = asyncio.create_task(tunnel.connect())
    await asyncio.sleep(0)
    assert isinstance(sent[-1], ConnectRequest)

    connect_response = KNXIPFrame.init_from_body(
        ConnectResponse(
            communication_channel=7,
            data_endpoint=TCP_HPAI,
            crd=ConnectResponseData(individual_address=IndividualAddress(9)),
        )
    ).to_knx()
    # the server opens channel 7 and closes it right away (eg. address conflict, overload,
    # restart) - both frames arrive in one TCP segment, ie. one data_received() call,
    # while `connect()` is still suspended in `Connect.request()`
    disconnect_request = KNXIPFrame.init_from_body(
        DisconnectRequest(communication_channel_id=7, control_endpoint=TCP_HPAI)
    ).to_knx()
    protocols[0].data_received(connect_response + disconnect_request)
    try:
        await connect_task
    except CommunicationError:
        pass  # "or connect() has to fail"
    for _ in range(10):
        await asyncio.sleep(0)

    try:
        answered = any(isinstance(body, DisconnectResponse) for body in sent)
        reconnecting = tunnel._reconnect_task is not None
        reads_connected = (
            xknx.connection_manager.state is XknxConnectionState.CONNECTED
            and xknx.connection_manager.connected.is_set()
        )
        # The server closed channel 7. The property requires 'connected' to be read exactly
        # while a tunnel is established: the tunnel has to be reported lost (DISCONNECTED and,
        # with auto_reconnect, exactly one reconnect attempt) - or connect() has to fail.
        assert not (reads_connected and not reconnecting), (
            "server sent DisconnectRequest for channel 7 together with its ConnectResponse; "
            f"observed: states={[s.value for s in states]}, state now={xknx.connection_manager.state.value}, "
            f"communication_channel={tunnel.communication_channel}, DisconnectResponse sent={answered}, "
            f"reconnect running={reconnecting}. The DisconnectRequest was silently dropped and the "
            "interface reads 'connected' although the server has closed the tunnel - the property "
            "requires 'connected' exactly while a tunnel is established."
        )
    finally:
        tunnel.stop_heartbeat()
        tunnel._stop_reconnect()
