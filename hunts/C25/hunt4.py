"""
C25 hunt 4: a UDP tunnel repeats a TunnellingRequest after the user disconnected.

`_Tunnel.disconnect()` sends its DisconnectRequest and waits (up to 1 s) for the response;
`communication_channel` is only cleared after that wait and nothing tells a `send_cemi()`
that is already in flight that the user is disconnecting. When the gateway went silent - the
typical reason for both a missing TunnellingAck and a missing DisconnectResponse - the pending
`UDPTunnel.send_cemi()` hits its TUNNELLING_REQUEST_TIMEOUT while `disconnect()` is waiting
and repeats the TunnellingRequest: a data frame is sent after the user disconnected, on a
channel the tunnel itself has already asked the server to close.

Real library code, real asyncio UDP sockets on 127.0.0.1 - only the gateway is a fake server.
"""

from __future__ import annotations

import asyncio

from xknx import XKNX
from xknx.cemi import CEMIFrame, CEMILData, CEMIMessageCode
from xknx.core import XknxConnectionState
from xknx.dpt import DPTArray
from xknx.exceptions import CommunicationError
from xknx.io import UDPTunnel
from xknx.knxip import (
    HPAI,
    ConnectionStateRequest,
    ConnectionStateResponse,
    ConnectRequest,
    ConnectResponse,
    ConnectResponseData,
    DisconnectRequest,
    DisconnectResponse,
    KNXIPFrame,
    TunnellingAck,
    TunnellingRequest,
)
from xknx.telegram import GroupAddress, IndividualAddress, Telegram
from xknx.telegram.apci import GroupValueWrite


class FakeUDPGateway(asyncio.DatagramProtocol):
    """Minimal KNXnet/IP UDP tunnelling server on 127.0.0.1."""

    def __init__(self) -> None:
        self.loop = asyncio.get_running_loop()
        self.transport: asyncio.DatagramTransport | None = None
        self.port = 0
        self.silent = False  # eg. crashed / cable pulled
        self.received: list[tuple[float, KNXIPFrame]] = []

    async def start(self) -> None:
        await self.loop.create_datagram_endpoint(
            lambda: self, local_addr=("127.0.0.1", 0)
        )
        assert self.transport is not None
        self.port = self.transport.get_extra_info("sockname")[1]

    def stop(self) -> None:
        assert self.transport is not None
        self.transport.close()

    def connection_made(self, transport: asyncio.BaseTransport) -> None:
        self.transport = transport  # type: ignore[assignment]

    def datagram_received(self, data: bytes, addr: tuple[str, int]) -> None:
        frame, _ = KNXIPFrame.from_knx(data)
        self.received.append((self.loop.time(), frame))
        if self.silent:
            return
        body = frame.body
        response: object
        if isinstance(body, ConnectRequest):
            response = ConnectResponse(
                communication_channel=3,
                data_endpoint=HPAI("127.0.0.1", self.port),
                crd=ConnectResponseData(individual_address=IndividualAddress("1.1.3")),
            )
        elif isinstance(body, ConnectionStateRequest):
            response = ConnectionStateResponse(communication_channel_id=3)
        elif isinstance(body, DisconnectRequest):
            response = DisconnectResponse(communication_channel_id=3)
        elif isinstance(body, TunnellingRequest):
            response = TunnellingAck(
                communication_channel_id=3, sequence_counter=body.sequence_counter
            )
        else:
            return
        assert self.transport is not None
        self.transport.sendto(KNXIPFrame.init_from_body(response).to_knx(), addr)  # type: ignore[arg-type]


async def test_udp_tunnelling_request_repeated_after_user_disconnect() -> None:
    """[send failure] then [user disconnect] with a gateway that went silent."""
    gateway = FakeUDPGateway()
    await gateway.start()
    loop = asyncio.get_running_loop()

    xknx = XKNX()
    states: list[XknxConnectionState] = []
    xknx.connection_manager.register_connection_state_changed_cb(states.append)
    tunnel = UDPTunnel(
        xknx,
        gateway_ip="127.0.0.1",
        gateway_port=gateway.port,
        local_ip="127.0.0.1",
        cemi_received_callback=lambda raw: None,
        auto_reconnect=True,
        auto_reconnect_wait=1,
    )
    cemi = CEMIFrame(
        code=CEMIMessageCode.L_DATA_REQ,
        data=CEMILData.init_from_telegram(
            Telegram(
                destination_address=GroupAddress("1/2/3"),
                payload=GroupValueWrite(DPTArray((1,))),
            ),
            src_addr=IndividualAddress("1.1.3"),
        ),
    )

    async def send() -> BaseException | None:
        try:
            await tunnel.send_cemi(cemi)
        except CommunicationError as err:
            return err
        return None

    try:
        await tunnel.connect()
        assert xknx.connection_manager.state is XknxConnectionState.CONNECTED
        # sanity: a healthy send is acknowledged
        assert await send() is None

        gateway.silent = True
        send_task = asyncio.create_task(send())  # t = 0: TunnellingRequest, no ack
        await asyncio.sleep(0.5)

        disconnect_called_at = loop.time()  # t = 0.5: the user disconnects
        await tunnel.disconnect()
        disconnect_returned_at = loop.time()
        await asyncio.wait([send_task], timeout=3)
        await asyncio.sleep(0.1)

        after_disconnect = [
            (round(when - disconnect_called_at, 2), type(frame.body).__name__)
            for when, frame in gateway.received
            if when >= disconnect_called_at
        ]
        unexpected = [
            item for item in after_disconnect if item[1] != "DisconnectRequest"
        ]
        assert not unexpected, (
            "C25 requires that a tunnel sends nothing after the user disconnected. Observed: "
            "frames put on the wire after disconnect() was called (seconds after the call, "
            f"frame): {after_disconnect} - disconnect() returned after "
            f"{disconnect_returned_at - disconnect_called_at:.2f} s; the TunnellingRequest is "
            "the repetition of a telegram whose first transmission timed out while "
            "disconnect() was waiting for the DisconnectResponse; it is sent on channel 3, "
            "which the tunnel had already asked the server to close. "
            f"State at that time: {[s.name for s in states]}; send result: {send_task.result()!r}"
        )
    finally:
        tunnel.auto_reconnect = False
        if tunnel._reconnect_task is not None:
            tunnel._reconnect_task.cancel()
        tunnel.stop_heartbeat()
        tunnel.transport.stop()
        await asyncio.sleep(0)
        gateway.stop()
