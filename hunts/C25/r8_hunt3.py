"""C25 hunt 3: cancelling a task that waits in send_cemi() for the reconnect kills the reconnect.

`_send_ready()` (and UDPTunnel.send_cemi) await `self._reconnect_task` directly. Cancelling the
waiting sender (a timeout around a send / management procedure, a cancelled user task) propagates
into the awaited reconnect task: the only reconnect attempt of an auto_reconnect tunnel is aborted,
nothing restarts it, and the reported state stays CONNECTING forever although nothing connects.
The sender's own cancellation is swallowed (`except CancelledError: pass`).
"""

import asyncio
from unittest.mock import Mock

from xknx import XKNX
from xknx.cemi import CEMIFrame, CEMILData, CEMIMessageCode
from xknx.core import XknxConnectionState
from xknx.dpt import DPTArray
from xknx.io import UDPTunnel
from xknx.knxip import (
    HPAI,
    ConnectRequest,
    ConnectResponse,
    ConnectResponseData,
    DisconnectRequest,
    KNXIPFrame,
)
from xknx.telegram import GroupAddress, IndividualAddress, Telegram
from xknx.telegram.apci import GroupValueWrite

GATEWAY = ("192.168.1.2", 3671)


async def test_cancelled_sender_must_not_abort_the_reconnect():
    loop = asyncio.get_running_loop()
    sent: list = []
    protocols: list = []

    async def create_datagram_endpoint(factory, local_addr=None, **kwargs):
        # network boundary only
        proto = factory()
        sock_transport = Mock()
        sock_transport.sendto = lambda data, addr=None: sent.append(
            KNXIPFrame.from_knx(data)[0].body
        )
        sock_transport.get_extra_info = lambda key: ("192.168.1.1", 12345)
        proto.connection_made(sock_transport)
        protocols.append(proto)
        return sock_transport, proto

    loop.create_datagram_endpoint = create_datagram_endpoint

    def gateway_sends(body) -> None:
        protocols[-1].datagram_received(KNXIPFrame.init_from_body(body).to_knx(), GATEWAY)

    def connect_response(channel: int) -> ConnectResponse:
        return ConnectResponse(
            communication_channel=channel,
            data_endpoint=HPAI(*GATEWAY),
            crd=ConnectResponseData(individual_address=IndividualAddress(9)),
        )

    xknx = XKNX()
    states: list[XknxConnectionState] = []
    xknx.connection_manager.register_connection_state_changed_cb(states.append)
    tunnel = UDPTunnel(
        xknx,
        cemi_received_callback=Mock(),
        gateway_ip=GATEWAY[0],
        gateway_port=GATEWAY[1],
        local_ip="192.168.1.1",
        auto_reconnect=True,
        auto_reconnect_wait=1,
    )
    connect_task = asyncio.create_task(tunnel.connect())
    await asyncio.sleep(0)
    gateway_sends(connect_response(7))
    await connect_task
    assert xknx.connection_manager.state is XknxConnectionState.CONNECTED

    # failure event: the server closes the tunnel -> one reconnect attempt starts
    gateway_sends(DisconnectRequest(communication_channel_id=7, control_endpoint=HPAI(*GATEWAY)))
    await asyncio.sleep(0)
    await asyncio.sleep(0)
    reconnect_task = tunnel._reconnect_task
    assert reconnect_task is not None and not reconnect_task.done()
    assert isinstance(sent[-1], ConnectRequest)  # reconnect waits for its ConnectResponse

    # a telegram is sent meanwhile - it waits for the reconnect; its caller gives up (timeout)
    cemi = CEMIFrame(
        code=CEMIMessageCode.L_DATA_REQ,
        data=CEMILData.init_from_telegram(
            Telegram(
                destination_address=GroupAddress(1),
                payload=GroupValueWrite(DPTArray((1,))),
            ),
            src_addr=IndividualAddress(9),
        ),
    )
    sender_outcome = "returned"
    try:
        async with asyncio.timeout(0.05):
            await tunnel.send_cemi(cemi)
    except TimeoutError:
        sender_outcome = "TimeoutError"
    except Exception as exc:  # noqa: BLE001
        sender_outcome = f"{type(exc).__name__}: {exc}"

    # the gateway answers the pending ConnectRequest - and would answer any further one
    connect_requests_before = sum(isinstance(b, ConnectRequest) for b in sent)
    gateway_sends(connect_response(8))
    for _ in range(40):  # 4 s >> auto_reconnect_wait and request timeouts
        await asyncio.sleep(0.1)
        if sum(isinstance(b, ConnectRequest) for b in sent) > connect_requests_before:
            gateway_sends(connect_response(9))
            connect_requests_before += 1

    try:
        state = xknx.connection_manager.state
        assert state is XknxConnectionState.CONNECTED, (
            "a sender waiting for the reconnect was cancelled (timeout). Observed: the reconnect task "
            f"was cancelled too ({reconnect_task.cancelled()=}), no reconnect is running "
            f"({tunnel._reconnect_task=}), the reported state is stuck at {state.value} "
            f"(history {[s.value for s in states]}) although the gateway answers, and the sender got "
            f"'{sender_outcome}'. The property requires a consistent lifecycle under any failure "
            "schedule: an auto_reconnect tunnel keeps (exactly one) reconnect attempt running until it "
            "is connected or the user disconnects, and the state must not claim 'connecting' forever."
        )
    finally:
        tunnel.stop_heartbeat()
        tunnel._stop_reconnect()
