"""
C25 hunt 3: cancelling a sender that waits for the reconnect cancels the reconnect itself.

`_Tunnel._send_ready()` (and `UDPTunnel.send_cemi()`) do `await self._reconnect_task` - they
await the reconnect Task object directly. asyncio propagates the cancellation of a waiting task
to the future it awaits, so when a caller of `send_cemi()` is cancelled (`asyncio.wait_for()` /
`asyncio.timeout()` expiring, a cancelled service call, ...) while the tunnel is reconnecting,
the *reconnect task* is cancelled with it. Nothing restarts it: the heartbeat was stopped by
`_prepare_disconnect()`, the transport is closed. With auto_reconnect enabled the tunnel stays
down forever, the reported state stays at CONNECTING (cancelled inside connect()) or
DISCONNECTED although no attempt is running and the gateway is reachable again.

Real library code, real asyncio TCP sockets on 127.0.0.1 - only the gateway is a fake server.
"""

from __future__ import annotations

import asyncio

from xknx import XKNX
from xknx.cemi import CEMIFrame, CEMILData, CEMIMessageCode
from xknx.core import XknxConnectionState
from xknx.dpt import DPTArray
from xknx.exceptions import CommunicationError
from xknx.io import TCPTunnel
from xknx.knxip import (
    HPAI,
    ConnectionStateRequest,
    ConnectionStateResponse,
    ConnectRequest,
    ConnectResponse,
    ConnectResponseData,
    DisconnectRequest,
    DisconnectResponse,
    HostProtocol,
    KNXIPFrame,
)
from xknx.telegram import GroupAddress, IndividualAddress, Telegram
from xknx.telegram.apci import GroupValueWrite


class FakeTCPGateway:
    """Minimal KNXnet/IP TCP tunnelling server on 127.0.0.1."""

    def __init__(self, close_on_connect_request: bool) -> None:
        self.close_on_connect_request = close_on_connect_request
        self.server: asyncio.Server | None = None
        self.port = 0
        self.loop = asyncio.get_running_loop()
        # (loop time, frame) for each frame received
        self.received: list[tuple[float, KNXIPFrame]] = []
        self.connections_accepted: list[float] = []
        self.writers: list[asyncio.StreamWriter] = []

    async def start(self) -> None:
        self.server = await asyncio.start_server(self._handle, "127.0.0.1", 0)
        self.port = self.server.sockets[0].getsockname()[1]

    async def stop(self) -> None:
        assert self.server is not None
        self.server.close()

    def drop_all(self) -> None:
        """Close all TCP connections - eg. the gateway reboots."""
        for writer in self.writers:
            writer.close()
        self.writers.clear()

    def connect_requests(self, since: float = 0.0) -> int:
        return sum(
            1
            for when, frame in self.received
            if when >= since and isinstance(frame.body, ConnectRequest)
        )

    async def _handle(
        self, reader: asyncio.StreamReader, writer: asyncio.StreamWriter
    ) -> None:
        self.connections_accepted.append(self.loop.time())
        self.writers.append(writer)
        buffer = b""
        try:
            while data := await reader.read(1024):
                buffer += data
                while len(buffer) >= 6:
                    total_length = int.from_bytes(buffer[4:6], "big")
                    if len(buffer) < total_length:
                        break
                    frame, _ = KNXIPFrame.from_knx(buffer[:total_length])
                    buffer = buffer[total_length:]
                    self.received.append((self.loop.time(), frame))
                    if isinstance(frame.body, ConnectRequest):
                        if self.close_on_connect_request:
                            # eg. no free connection / secure-only device / crashed service
                            writer.close()
                            return
                        response: KNXIPFrame = KNXIPFrame.init_from_body(
                            ConnectResponse(
                                communication_channel=7,
                                data_endpoint=HPAI(protocol=HostProtocol.IPV4_TCP),
                                crd=ConnectResponseData(
                                    individual_address=IndividualAddress("1.1.7")
                                ),
                            )
                        )
                        writer.write(response.to_knx())
                    elif isinstance(frame.body, ConnectionStateRequest):
                        writer.write(
                            KNXIPFrame.init_from_body(
                                ConnectionStateResponse(communication_channel_id=7)
                            ).to_knx()
                        )
                    elif isinstance(frame.body, DisconnectRequest):
                        writer.write(
                            KNXIPFrame.init_from_body(
                                DisconnectResponse(communication_channel_id=7)
                            ).to_knx()
                        )
        except ConnectionError:
            pass
        finally:
            writer.close()


async def test_cancelled_sender_kills_reconnect() -> None:
    """A send with a timeout, issued while the tunnel reconnects."""
    gateway = FakeTCPGateway(close_on_connect_request=False)
    await gateway.start()

    xknx = XKNX()
    states: list[XknxConnectionState] = []
    xknx.connection_manager.register_connection_state_changed_cb(states.append)
    tunnel = TCPTunnel(
        xknx,
        gateway_ip="127.0.0.1",
        gateway_port=gateway.port,
        cemi_received_callback=lambda raw: None,
        auto_reconnect=True,
        auto_reconnect_wait=1,
    )
    cemi = CEMIFrame(
        code=CEMIMessageCode.L_DATA_REQ,
        data=CEMILData.init_from_telegram(
            Telegram(
                destination_address=GroupAddress("1/2/3"),
                payload=GroupValueWrite(DPTArray((1,))),
            ),
            src_addr=IndividualAddress("1.1.7"),
        ),
    )
    try:
        await tunnel.connect()
        assert xknx.connection_manager.state is XknxConnectionState.CONNECTED

        # transport loss: the gateway reboots - connections are dropped and new ones refused
        gateway.close_on_connect_request = True
        gateway.drop_all()
        await asyncio.sleep(0.2)
        reconnect_task = tunnel._reconnect_task
        assert reconnect_task is not None and not reconnect_task.done()

        # the application sends a telegram, but does not want to wait forever
        send_outcome: BaseException | None = None
        try:
            await asyncio.wait_for(tunnel.send_cemi(cemi), timeout=0.3)
        except (TimeoutError, CommunicationError) as exc:
            send_outcome = exc
        await asyncio.sleep(0)

        # the gateway is back
        gateway.close_on_connect_request = False
        # auto_reconnect_wait is 1 s, a ConnectRequest times out after 1 s: 4 s is plenty
        await asyncio.sleep(4)

        state = xknx.connection_manager.state
        assert (
            state is XknxConnectionState.CONNECTED
            and tunnel.communication_channel is not None
        ), (
            "C25 requires a consistent connection lifecycle under any failure schedule: with "
            "auto_reconnect enabled a lost tunnel runs one reconnect attempt until it succeeds, "
            "and the state reports real transitions. Observed after [transport loss, "
            "send_cemi() cancelled by a 0.3 s timeout while waiting for the reconnect, gateway "
            f"reachable again for 4 s]: send_cemi() outcome {send_outcome!r}, reconnect task cancelled={reconnect_task.cancelled()}, "
            f"tunnel._reconnect_task={tunnel._reconnect_task!r}, "
            f"communication_channel={tunnel.communication_channel}, state stuck at {state.name} "
            f"(history {[s.name for s in states]}), ConnectRequests seen by the gateway since "
            f"it is back: {gateway.connect_requests(since=asyncio.get_running_loop().time() - 4)}."
        )
    finally:
        tunnel.auto_reconnect = False
        if tunnel._reconnect_task is not None:
            tunnel._reconnect_task.cancel()
        tunnel.stop_heartbeat()
        tunnel.transport.stop()
        await asyncio.sleep(0)
        await gateway.stop()
