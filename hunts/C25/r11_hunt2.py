"""
C25 hunt 2: plain Routing - `stop()` while `start()` is opening its sockets is undone.

`Routing.connect()` never looks at whether `disconnect()` ran while it was suspended in
`transport.connect()`: it opens the sockets anyway and reports CONNECTED. Afterwards
`KNXIPInterface._interface` is None (every send raises "KNX/IP interface not connected"),
the state reads CONNECTED and an orphaned multicast socket keeps feeding received
frames into the CEMI handler.

Only the OS boundary is mocked (`loop.create_datagram_endpoint`, the multicast socket).
"""

import asyncio
from unittest.mock import Mock, patch


from xknx import XKNX
from xknx.cemi import CEMIFrame, CEMILData, CEMIMessageCode
from xknx.core import XknxConnectionState
from xknx.exceptions import CommunicationError
from xknx.io import ConnectionConfig, ConnectionType
from xknx.io.transport.udp_transport import UDPTransport
from xknx.telegram import GroupAddress, IndividualAddress, Telegram
from xknx.telegram.apci import GroupValueWrite
from xknx.dpt import DPTBinary


async def _scenario():  # type: ignore[no-untyped-def]
    xknx = XKNX(
        connection_config=ConnectionConfig(
            connection_type=ConnectionType.ROUTING, local_ip="127.0.0.1"
        )
    )
    seen: list[XknxConnectionState] = []
    xknx.connection_manager.register_connection_state_changed_cb(seen.append)
    loop = asyncio.get_running_loop()

    async def fake_create_datagram_endpoint(protocol_factory, **_kwargs):  # type: ignore[no-untyped-def]
        await asyncio.sleep(0)  # the real one suspends until connection_made ran
        transport = Mock(name="DatagramTransport")
        transport.get_extra_info.return_value = ("127.0.0.1", 3671)
        protocol = protocol_factory()
        protocol.connection_made(transport)
        return transport, protocol

    with (
        patch.object(
            loop, "create_datagram_endpoint", side_effect=fake_create_datagram_endpoint
        ),
        patch.object(UDPTransport, "create_multicast_sock", return_value=Mock()),
    ):
        start_task = asyncio.create_task(xknx.knxip_interface.start())
        await asyncio.sleep(0)
        await asyncio.sleep(0)
        interface = xknx.knxip_interface._interface
        assert interface is not None, "precondition: start() created the interface"
        assert not start_task.done(), "precondition: start() is opening sockets"
        assert xknx.connection_manager.state is XknxConnectionState.CONNECTING

        await xknx.knxip_interface.stop()  # the user disconnects
        assert xknx.connection_manager.state is XknxConnectionState.DISCONNECTED

        await asyncio.wait([start_task], timeout=1)
        for _ in range(10):
            await asyncio.sleep(0)

        cemi = CEMIFrame(
            code=CEMIMessageCode.L_DATA_IND,
            data=CEMILData.init_from_telegram(
                Telegram(
                    destination_address=GroupAddress("1/2/3"),
                    payload=GroupValueWrite(DPTBinary(1)),
                ),
                src_addr=IndividualAddress("1.1.1"),
            ),
        )
        can_send = True
        try:
            await xknx.knxip_interface.send_cemi(cemi)
        except CommunicationError:
            can_send = False
        sockets_open = (
            interface.transport.transport is not None,
            interface.transport.multicast_listener is not None,
        )
        interface.transport.stop()
    return seen, xknx, sockets_open, can_send


def test_routing_disconnect_while_connecting() -> None:
    """After the user stopped the interface the state must not read CONNECTED."""
    seen, xknx, sockets_open, can_send = asyncio.run(_scenario())
    state = xknx.connection_manager.state
    assert state is not XknxConnectionState.CONNECTED and sockets_open == (False, False), (
        f"observed: after stop() during start(): state={state.name}, "
        f"connected event set={xknx.connection_manager.connected.is_set()}, "
        f"knxip_interface._interface={xknx.knxip_interface._interface}, send possible={can_send}, "
        f"(unicast, multicast) socket left open={sockets_open}, "
        f"callback history={[s.name for s in seen]}; "
        "property C25 requires 'connected' to be reported exactly while a routing connection "
        "is established - the user disconnected, the interface is gone and nothing can be sent, "
        "yet CONNECTED is reported and the sockets stay open"
    )


if __name__ == "__main__":
    test_routing_disconnect_while_connecting()
