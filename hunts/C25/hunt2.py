"""
C25 hunt 2: a user disconnect issued while `connect()` is still pending is forgotten.

`_Tunnel.disconnect()` only cancels the *reconnect task*. A `connect()` that runs on behalf of
the user (KNXIPInterface.start()) is not stopped: `disconnect()` finds nothing to tear down
(no transport yet, no communication channel yet), returns - and the pending `connect()` then
finishes the TCP handshake, sends its ConnectRequest, starts the heartbeat and reports
CONNECTED. `connect()` never looks at `_disconnecting` again after clearing it on entry.
KNXIPInterface.stop() has meanwhile dropped its reference (`_interface = None`), so the
tunnel can not be stopped any more.

Real library code, real asyncio TCP sockets on 127.0.0.1. The only manipulation is a delay in
front of `loop.create_connection` to model a TCP handshake that takes 300 ms.
"""

from __future__ import annotations

import asyncio
from typing import Any
from unittest.mock import patch

from xknx import XKNX
from xknx.core import XknxConnectionState
from xknx.io import ConnectionConfig, ConnectionType
from xknx.io.tunnel import TCPTunnel
from xknx.knxip import (
    HPAI,
    ConnectionStateRequest,
    ConnectionStateResponse,
    ConnectRequest,
    ConnectResponse,
    ConnectResponseData,
    DisconnectRequest,
    DisconnectResponse,
    HostProtocol,
    KNXIPFrame,
)
from xknx.telegram import IndividualAddress


class FakeTCPGateway:
    """Minimal KNXnet/IP TCP tunnelling server on 127.0.0.1."""

    def __init__(self, close_on_connect_request: bool) -> None:
        self.close_on_connect_request = close_on_connect_request
        self.server: asyncio.Server | None = None
        self.port = 0
        self.loop = asyncio.get_running_loop()
        # (loop time, frame) for each frame received
        self.received: list[tuple[float, KNXIPFrame]] = []
        self.connections_accepted: list[float] = []

    async def start(self) -> None:
        self.server = await asyncio.start_server(self._handle, "127.0.0.1", 0)
        self.port = self.server.sockets[0].getsockname()[1]

    async def stop(self) -> None:
        assert self.server is not None
        self.server.close()

    def connect_requests(self, since: float = 0.0) -> int:
        return sum(
            1
            for when, frame in self.received
            if when >= since and isinstance(frame.body, ConnectRequest)
        )

    async def _handle(
        self, reader: asyncio.StreamReader, writer: asyncio.StreamWriter
    ) -> None:
        self.connections_accepted.append(self.loop.time())
        buffer = b""
        try:
            while data := await reader.read(1024):
                buffer += data
                while len(buffer) >= 6:
                    total_length = int.from_bytes(buffer[4:6], "big")
                    if len(buffer) < total_length:
                        break
                    frame, _ = KNXIPFrame.from_knx(buffer[:total_length])
                    buffer = buffer[total_length:]
                    self.received.append((self.loop.time(), frame))
                    if isinstance(frame.body, ConnectRequest):
                        if self.close_on_connect_request:
                            # eg. no free connection / secure-only device / crashed service
                            writer.close()
                            return
                        response: KNXIPFrame = KNXIPFrame.init_from_body(
                            ConnectResponse(
                                communication_channel=7,
                                data_endpoint=HPAI(protocol=HostProtocol.IPV4_TCP),
                                crd=ConnectResponseData(
                                    individual_address=IndividualAddress("1.1.7")
                                ),
                            )
                        )
                        writer.write(response.to_knx())
                    elif isinstance(frame.body, ConnectionStateRequest):
                        writer.write(
                            KNXIPFrame.init_from_body(
                                ConnectionStateResponse(communication_channel_id=7)
                            ).to_knx()
                        )
                    elif isinstance(frame.body, DisconnectRequest):
                        writer.write(
                            KNXIPFrame.init_from_body(
                                DisconnectResponse(communication_channel_id=7)
                            ).to_knx()
                        )
        except ConnectionError:
            pass
        finally:
            writer.close()


async def test_user_disconnect_during_pending_connect() -> None:
    """stop() while start() waits for the TCP handshake."""
    gateway = FakeTCPGateway(close_on_connect_request=False)
    await gateway.start()
    loop = asyncio.get_running_loop()

    xknx = XKNX(
        connection_config=ConnectionConfig(
            connection_type=ConnectionType.TUNNELING_TCP,
            gateway_ip="127.0.0.1",
            gateway_port=gateway.port,
            auto_reconnect=True,
            auto_reconnect_wait=1,
        )
    )
    states: list[XknxConnectionState] = []
    xknx.connection_manager.register_connection_state_changed_cb(states.append)
    interface = xknx.knxip_interface

    real_create_connection = loop.create_connection

    async def slow_create_connection(*args: Any, **kwargs: Any) -> Any:
        """TCP handshake with some network latency."""
        await asyncio.sleep(0.3)
        return await real_create_connection(*args, **kwargs)

    tunnel: TCPTunnel | None = None
    try:
        with patch.object(loop, "create_connection", slow_create_connection):
            start_task = asyncio.create_task(interface.start())
            await asyncio.sleep(0.1)
            tunnel = interface._interface  # type: ignore[assignment]
            assert isinstance(tunnel, TCPTunnel)
            assert not start_task.done()  # connect() is waiting for the TCP handshake

            # the user disconnects
            await interface.stop()
            stopped_at = loop.time()
            state_at_stop = xknx.connection_manager.state
            states_at_stop = list(states)

            await asyncio.wait([start_task], timeout=3)
            await asyncio.sleep(0.3)

        frames_after_stop = [
            type(frame.body).__name__
            for when, frame in gateway.received
            if when >= stopped_at
        ]
        # a second stop() is the only thing left to the user
        await interface.stop()
        await asyncio.sleep(0.2)
        disconnect_requests = [
            frame for _, frame in gateway.received if isinstance(frame.body, DisconnectRequest)
        ]
        final_state = xknx.connection_manager.state
        still_established = (
            tunnel.communication_channel is not None
            and tunnel.transport.transport is not None
        )

        assert state_at_stop is XknxConnectionState.DISCONNECTED
        assert not frames_after_stop and final_state is XknxConnectionState.DISCONNECTED, (
            "C25 requires that a tunnel sends nothing after the user disconnected and that the "
            "state reads 'connected' only while a connection is (meant to be) established. "
            f"Observed: after KNXIPInterface.stop() returned (state {state_at_stop.name}) the "
            f"tunnel sent {frames_after_stop}; state changes after the user disconnect: "
            f"{[s.name for s in states[len(states_at_stop):]]}; final state {final_state.name}; "
            f"start() result: {'exception ' + repr(start_task.exception()) if start_task.done() and start_task.exception() else 'returned normally'}; "
            f"tunnel still established with heartbeat running: {still_established}; "
            f"interface._interface is {interface._interface!r} so a second stop() sent "
            f"{len(disconnect_requests)} DisconnectRequest(s) - the tunnel can not be closed any more."
        )
    finally:
        if tunnel is not None:
            tunnel.auto_reconnect = False
            if tunnel._reconnect_task is not None:
                tunnel._reconnect_task.cancel()
            tunnel.stop_heartbeat()
            tunnel.transport.stop()
        await asyncio.sleep(0)
        await gateway.stop()
