"""Scratch explorer: inject failure events at every loop step of a simulated tunnel session."""

from __future__ import annotations

import asyncio
import itertools
import sys
from unittest.mock import patch

from xknx import XKNX
from xknx.cemi import CEMIFrame, CEMILData, CEMIMessageCode
from xknx.core import XknxConnectionState
from xknx.dpt import DPTArray
from xknx.exceptions import CommunicationError
from xknx.io import TCPTunnel, UDPTunnel
from xknx.io.tunnel import _Tunnel
from xknx.knxip import (
    HPAI,
    ConnectionStateRequest,
    ConnectionStateResponse,
    ConnectRequest,
    ConnectResponse,
    ConnectResponseData,
    DisconnectRequest,
    DisconnectResponse,
    HostProtocol,
    KNXIPFrame,
    TunnellingAck,
    TunnellingRequest,
)
from xknx.telegram import GroupAddress, IndividualAddress, Telegram
from xknx.telegram.apci import GroupValueWrite

SERVER_ADDR = ("10.0.0.2", 3671)


class Clock:
    def __init__(self, loop):
        self.loop = loop
        self.offset = 0.0
        self._base = loop.time
        loop.time = self.time

    def time(self):
        return self._base() + self.offset

    def restore(self):
        self.loop.time = self._base


class Server:
    """Simulated gateway."""

    def __init__(self, sim):
        self.sim = sim
        self.channels: set[int] = set()
        self.next_channel = 1
        self.answer_connect = True
        self.answer_state = True
        self.answer_disconnect = True
        self.ack = True

    def receive(self, raw: bytes, fake_transport) -> None:
        frame, _ = KNXIPFrame.from_knx(raw)
        self.sim.record_sent(frame)
        body = frame.body
        resp = None
        if isinstance(body, ConnectRequest):
            if self.answer_connect:
                ch = self.next_channel
                self.next_channel += 1
                self.channels.add(ch)
                fake_transport.channel = ch
                resp = ConnectResponse(
                    communication_channel=ch,
                    data_endpoint=HPAI(*SERVER_ADDR)
                    if self.sim.kind == "udp"
                    else HPAI(protocol=HostProtocol.IPV4_TCP),
                    crd=ConnectResponseData(
                        individual_address=IndividualAddress("1.1.9")
                    ),
                )
        elif isinstance(body, ConnectionStateRequest):
            if self.answer_state and body.communication_channel_id in self.channels:
                resp = ConnectionStateResponse(
                    communication_channel_id=body.communication_channel_id
                )
        elif isinstance(body, DisconnectRequest):
            self.channels.discard(body.communication_channel_id)
            if self.answer_disconnect:
                resp = DisconnectResponse(
                    communication_channel_id=body.communication_channel_id
                )
        elif isinstance(body, TunnellingRequest):
            if body.communication_channel_id not in self.channels:
                self.sim.note(
                    f"TunnellingRequest on closed channel {body.communication_channel_id}"
                )
            if self.ack and self.sim.kind == "udp":
                resp = TunnellingAck(
                    communication_channel_id=body.communication_channel_id,
                    sequence_counter=body.sequence_counter,
                )
        if resp is not None:
            fake_transport.deliver(KNXIPFrame.init_from_body(resp).to_knx())


class FakeTransport:
    """asyncio transport fake (datagram and stream)."""

    def __init__(self, sim, protocol):
        self.sim = sim
        self.protocol = protocol
        self.closed = False
        self.channel = None

    # datagram
    def sendto(self, data, addr=None):
        if self.closed:
            return
        self.sim.server.receive(data, self)

    # stream
    def write(self, data):
        if self.closed:
            return
        self.sim.server.receive(data, self)

    def deliver(self, raw):
        def _deliver():
            if self.closed:
                return
            if self.sim.kind == "udp":
                self.protocol.datagram_received(raw, SERVER_ADDR)
            else:
                self.protocol.data_received(raw)

        self.sim.loop.call_soon(_deliver)

    def close(self):
        if self.closed:
            return
        self.closed = True
        self.sim.loop.call_soon(self.protocol.connection_lost, None)

    def lose(self):
        """Connection dropped by peer / network."""
        if self.closed:
            return
        self.closed = True
        if self.channel is not None:
            self.sim.server.channels.discard(self.channel)
        self.sim.loop.call_soon(self.protocol.connection_lost, None)

    def get_extra_info(self, name):
        if name == "sockname":
            return ("10.0.0.1", 40000)
        if name == "peername":
            return SERVER_ADDR
        return None


class Violation(Exception):
    pass


class Sim:
    def __init__(self, kind: str, auto_reconnect: bool):
        self.kind = kind
        self.auto_reconnect = auto_reconnect
        self.loop = asyncio.get_running_loop()
        self.server = Server(self)
        self.transports: list[FakeTransport] = []
        self.sent: list = []
        self.notes: list[str] = []
        self.states: list[XknxConnectionState] = []
        self.disconnect_called = False
        self.disconnect_returned = False
        self.active_connects = 0
        self.max_active_connects = 0
        self.step_no = 0
        self.violations: list[str] = []
        self.send_tasks: list[asyncio.Task] = []
        self.user_tasks: list[asyncio.Task] = []
        self.xknx = XKNX()
        self.xknx.connection_manager.register_connection_state_changed_cb(
            self.states.append
        )
        if kind == "udp":
            self.tunnel = UDPTunnel(
                self.xknx,
                gateway_ip=SERVER_ADDR[0],
                gateway_port=SERVER_ADDR[1],
                local_ip="10.0.0.1",
                cemi_received_callback=lambda raw: None,
                auto_reconnect=auto_reconnect,
                auto_reconnect_wait=3,
            )
        else:
            self.tunnel = TCPTunnel(
                self.xknx,
                gateway_ip=SERVER_ADDR[0],
                gateway_port=SERVER_ADDR[1],
                cemi_received_callback=lambda raw: None,
                auto_reconnect=auto_reconnect,
                auto_reconnect_wait=3,
            )

    def note(self, msg):
        self.notes.append(f"[{self.step_no}] {msg}")

    def violation(self, msg):
        self.violations.append(f"[step {self.step_no}] {msg}")

    def record_sent(self, frame):
        self.sent.append((self.step_no, frame))
        name = type(frame.body).__name__
        if self.disconnect_returned:
            self.violation(f"B: {name} sent after disconnect() returned")
        elif self.disconnect_called and not isinstance(
            frame.body, DisconnectRequest | DisconnectResponse
        ):
            self.violation(f"B-soft: {name} sent after disconnect() was called")

    async def create_connection(self, factory, host=None, port=None, **kw):
        await asyncio.sleep(0)
        proto = factory()
        tr = FakeTransport(self, proto)
        self.transports.append(tr)
        proto.connection_made(tr)
        return tr, proto

    async def create_datagram_endpoint(self, factory, local_addr=None, **kw):
        await asyncio.sleep(0)
        proto = factory()
        tr = FakeTransport(self, proto)
        self.transports.append(tr)
        proto.connection_made(tr)
        return tr, proto

    # events
    def ev_lost(self):
        self.tunnel._tunnel_lost()

    def ev_hb_silent(self):
        self.server.answer_state = False

    def ev_server_disconnect(self):
        tr = self.current_transport()
        if tr is None:
            return
        ch = self.tunnel.communication_channel
        if ch is None:
            ch = 99
        self.server.channels.discard(ch)
        tr.deliver(
            KNXIPFrame.init_from_body(
                DisconnectRequest(
                    communication_channel_id=ch, control_endpoint=HPAI(*SERVER_ADDR)
                )
            ).to_knx()
        )

    def ev_transport_loss(self):
        tr = self.current_transport()
        if tr is not None:
            tr.lose()

    def current_transport(self):
        for tr in reversed(self.transports):
            if not tr.closed:
                return tr
        return None

    def ev_send_noack(self):
        self.server.ack = False
        self._send()

    def ev_send(self):
        self._send()

    def _send(self):
        cemi = CEMIFrame(
            code=CEMIMessageCode.L_DATA_REQ,
            data=CEMILData.init_from_telegram(
                Telegram(
                    destination_address=GroupAddress("1/2/3"),
                    payload=GroupValueWrite(DPTArray((1,))),
                ),
                src_addr=IndividualAddress("1.1.9"),
            ),
        )

        async def _do():
            try:
                await self.tunnel.send_cemi(cemi)
            except CommunicationError:
                pass

        self.send_tasks.append(asyncio.create_task(_do()))

    def ev_cancel_send(self):
        for t in self.send_tasks:
            t.cancel()

    def ev_user_disconnect(self):
        async def _do():
            self.disconnect_called = True
            await self.tunnel.disconnect()
            self.disconnect_returned = True

        self.user_tasks.append(asyncio.create_task(_do()))

    def established(self):
        t = self.tunnel
        tr = t.transport.transport
        return (
            t.communication_channel is not None
            and tr is not None
            and not tr.closed
            and t.communication_channel in self.server.channels
        )

    def check(self):
        if self.active_connects > 1:
            self.violation(f"A: {self.active_connects} concurrent connect() calls")
        # no consecutive duplicates
        for a, b in itertools.pairwise(self.states):
            if a == b:
                self.violation(f"C: duplicate notification {a}")

    def check_quiescent(self):
        """Called when no callbacks are ready (only timers pending)."""
        state = self.xknx.connection_manager.state
        est = self.established()
        if state == XknxConnectionState.CONNECTED and not est:
            self.violation(
                f"D: state CONNECTED but not established (ch={self.tunnel.communication_channel}, "
                f"transport={self.tunnel.transport.transport}, server channels={self.server.channels})"
            )
        if state != XknxConnectionState.CONNECTED and est:
            self.violation(f"D: state {state.name} but tunnel established")


def _ev_connect_off(sim):
    sim.server.answer_connect = False


def _ev_connect_on(sim):
    sim.server.answer_connect = True
    sim.server.answer_state = True
    sim.server.ack = True


def _ev_disc_noanswer(sim):
    sim.server.answer_disconnect = False


EVENTS = {
    "connect_off": _ev_connect_off,
    "connect_on": _ev_connect_on,
    "disc_noanswer": _ev_disc_noanswer,
    "lost": Sim.ev_lost,
    "hb_silent": Sim.ev_hb_silent,
    "srv_disc": Sim.ev_server_disconnect,
    "tr_loss": Sim.ev_transport_loss,
    "send_noack": Sim.ev_send_noack,
    "send": Sim.ev_send,
    "cancel_send": Sim.ev_cancel_send,
    "user_disc": Sim.ev_user_disconnect,
}


async def run(kind, auto_reconnect, schedule, max_steps=400, max_time=400.0, verbose=False):
    """schedule: dict step -> list of event names. Steps counted from connect() start."""
    loop = asyncio.get_running_loop()
    clock = Clock(loop)
    sim = Sim(kind, auto_reconnect)
    orig_connect = _Tunnel.connect

    async def counting_connect(self):
        sim.active_connects += 1
        sim.max_active_connects = max(sim.max_active_connects, sim.active_connects)
        try:
            return await orig_connect(self)
        finally:
            sim.active_connects -= 1

    start_time = clock.time()
    try:
        with (
            patch.object(loop, "create_connection", sim.create_connection),
            patch.object(loop, "create_datagram_endpoint", sim.create_datagram_endpoint),
            patch.object(_Tunnel, "connect", counting_connect),
        ):
            async def _initial():
                try:
                    await sim.tunnel.connect()
                except CommunicationError:
                    sim.note("initial connect failed")

            sim.user_tasks.append(asyncio.create_task(_initial()))
            last_event_step = max(schedule) if schedule else 0
            while sim.step_no < max_steps and clock.time() - start_time < max_time:
                for ev in schedule.get(sim.step_no, ()):
                    if verbose:
                        print(f"  [{sim.step_no}] t={clock.time()-start_time:.1f} inject {ev}")
                    EVENTS[ev](sim)
                # run one loop iteration
                if len(loop._ready) == 0:
                    # quiescent: only timers
                    if sim.step_no > last_event_step or True:
                        sim.check_quiescent()
                    pending = [h for h in loop._scheduled if not h._cancelled]
                    if not pending:
                        break
                    nxt = min(h._when for h in pending)
                    if nxt > clock.time():
                        clock.offset += nxt - clock.time() + 1e-6
                await asyncio.sleep(0)
                sim.step_no += 1
                sim.check()
                if verbose:
                    print(
                        f"  [{sim.step_no}] t={clock.time()-start_time:.1f} state={sim.xknx.connection_manager.state.name} "
                        f"ch={sim.tunnel.communication_channel} rt={sim.tunnel._reconnect_task is not None} "
                        f"sent={[type(f.body).__name__ for s, f in sim.sent if s == sim.step_no - 1]}"
                    )
            # final
            sim.final_time = clock.time() - start_time
            state = sim.xknx.connection_manager.state
            if sim.disconnect_called:
                if not sim.disconnect_returned:
                    sim.violation("disconnect() never returned")
                if state != XknxConnectionState.DISCONNECTED:
                    sim.violation(f"final state after user disconnect: {state.name}")
                if sim.tunnel._reconnect_task is not None and not sim.tunnel._reconnect_task.done():
                    sim.violation("reconnect task alive after user disconnect")
            elif auto_reconnect and "initial connect failed" not in " ".join(sim.notes):
                if not (state == XknxConnectionState.CONNECTED and sim.established()):
                    sim.violation(
                        f"LIVENESS: final state {state.name} established={sim.established()} "
                        f"reconnect_task={sim.tunnel._reconnect_task}"
                    )
    finally:
        # cleanup
        sim.tunnel.auto_reconnect = False
        for t in sim.send_tasks + sim.user_tasks:
            t.cancel()
        if sim.tunnel._reconnect_task is not None:
            sim.tunnel._reconnect_task.cancel()
        sim.tunnel.stop_heartbeat()
        if kind == "udp":
            sim.tunnel._cancel_invalid_sequence_number_reconnect_schedule()
        for tr in sim.transports:
            tr.closed = True
        await asyncio.sleep(0)
        await asyncio.sleep(0)
        clock.restore()
    return sim


async def main():
    import logging

    logging.disable(logging.CRITICAL)
    mode = sys.argv[1] if len(sys.argv) > 1 else "single"
    results = {}
    kinds = ["udp", "tcp"]
    names = [n for n in EVENTS]
    if mode == "base":
        for kind in kinds:
            sim = await run(kind, True, {}, verbose=True, max_time=150)
            print(kind, sim.violations, sim.notes)
        return
    if mode == "one":
        kind, ar = sys.argv[2], sys.argv[3] == "1"
        sched = {}
        for tok in sys.argv[4:]:
            s, e = tok.split(":")
            sched.setdefault(int(s), []).append(e)
        sim = await run(kind, ar, sched, verbose=True)
        print(sim.violations, sim.notes, sim.states)
        return
    if mode == "random":
        import random
        n = int(sys.argv[2]); seed = int(sys.argv[3]); rng = random.Random(seed)
        for i in range(n):
            kind = rng.choice(kinds); ar = rng.random() < 0.7
            k = rng.randint(2, 5)
            sched = {}
            evs = [e for e in names if not (kind == "udp" and e == "tr_loss")]
            for _ in range(k):
                sched.setdefault(rng.randint(5, 70), []).append(rng.choice(evs))
            # always end with server healthy again
            sched.setdefault(90, []).append("connect_on")
            label = " ".join(f"{s_}:{e}" for s_ in sorted(sched) for e in sched[s_])
            sim = await run(kind, ar, sched, max_steps=600, max_time=2000)
            for v in sim.violations:
                key = (kind, ar, v.split("] ", 1)[1])
                results.setdefault(key, []).append(label)
        for key, labels in sorted(results.items(), key=lambda kv: str(kv[0])):
            print(key, len(labels), labels[:4])
        return
    max_step = int(sys.argv[2]) if len(sys.argv) > 2 else 30
    min_step = int(sys.argv[3]) if len(sys.argv) > 3 else 0
    for kind in kinds:
        for ar in (True, False):
            if mode == "single":
                scheds = [({s: [e]}, f"{e}@{s}") for e in names for s in range(min_step, max_step)]
            else:
                scheds = []
                for e1 in names:
                    for e2 in names:
                        for s1 in range(min_step, max_step):
                            for s2 in range(s1, max_step):
                                d = {}
                                d.setdefault(s1, []).append(e1)
                                d.setdefault(s2, []).append(e2)
                                scheds.append((d, f"{e1}@{s1},{e2}@{s2}"))
            for sched, label in scheds:
                if kind == "udp" and "tr_loss" in label:
                    continue
                sim = await run(kind, ar, sched)
                for v in sim.violations:
                    key = (kind, ar, v.split("] ", 1)[1])
                    results.setdefault(key, []).append(label)
    for key, labels in sorted(results.items(), key=lambda kv: str(kv[0])):
        print(key, len(labels), labels[:6])


asyncio.run(main())
