"""
C17 hunt 1: a replayed Data Secure frame is delivered again after KNXIPInterface stop()/start().

History (one process, one XKNX object, one keyring):
  start -> genuine frame F (sender 4.0.9, seq 155806854986) delivered
        -> replay of F refused (fine)
  stop, start (eg. the application reconnects)
        -> replay of F is DELIVERED a second time.

Property: a frame is delivered only if its sequence number is strictly greater than
that of the last delivered frame from the same sender.
"""

from pathlib import Path
from unittest.mock import AsyncMock, Mock, patch

import xknx
from xknx import XKNX
from xknx.io import ConnectionConfig, ConnectionType, SecureConfig
from xknx.secure.keyring import sync_load_keyring
from xknx.telegram import IndividualAddress

assert xknx.__file__.startswith("/tmp/hunt_C17/"), xknx.__file__

KEYFILE = Path(__file__).parent / "test/secure_tests/resources/SecureTest.knxkeys"

# src = 4.0.9; dst = 0/4/0; GroupValueResponse; A+C; seq_num=155806854986
# (the genuine frame used by test/secure_tests/data_secure_test.py)
FRAME = bytes.fromhex("29003ce0400904001103f110002446cfef4ac085e7092ab062b44d")
SENDER = IndividualAddress("4.0.9")
SEQ = 155806854986


async def test_replay_is_delivered_again_after_stop_start() -> None:
    """A frame delivered before a restart must not be delivered again after it."""
    keyring = sync_load_keyring(KEYFILE, "test")
    xknx_ = XKNX(
        connection_config=ConnectionConfig(
            connection_type=ConnectionType.ROUTING,
            local_ip="127.0.0.1",
            secure_config=SecureConfig(keyring=keyring),
        )
    )
    delivered = []

    def drain() -> int:
        count = 0
        while not xknx_.telegrams.empty():
            delivered.append(xknx_.telegrams.get_nowait())
            xknx_.telegrams.task_done()
            count += 1
        return count

    # mocks only at the network boundary: the UDP socket of the routing interface
    with (
        patch("xknx.io.transport.udp_transport.UDPTransport.connect", AsyncMock()),
        patch("xknx.io.transport.udp_transport.UDPTransport.send", Mock()),
        patch("xknx.io.transport.udp_transport.UDPTransport.stop", Mock()),
    ):
        await xknx_.knxip_interface.start()
        data_secure_1 = xknx_.cemi_handler.data_secure
        assert data_secure_1 is not None

        xknx_.knxip_interface.cemi_received(FRAME)
        assert drain() == 1, "genuine frame should be delivered once"
        assert data_secure_1._individual_address_table[SENDER] == SEQ

        xknx_.knxip_interface.cemi_received(FRAME)
        assert drain() == 0, "replay within the same connection is refused (fine)"

        # the application reconnects - same process, same XKNX object, same keyring
        await xknx_.knxip_interface.stop()
        await xknx_.knxip_interface.start()

        xknx_.knxip_interface.cemi_received(FRAME)
        replayed = drain()
        last_valid = xknx_.cemi_handler.data_secure._individual_address_table[SENDER]
        await xknx_.knxip_interface.stop()

    assert replayed == 0, (
        f"OBSERVED: the replayed frame from {SENDER} with sequence number {SEQ} was "
        f"delivered AGAIN after KNXIPInterface.stop()/start() ({len(delivered)} deliveries "
        f"of the very same frame in total; last valid counter after restart was reset "
        f"and is now {last_valid}). "
        "REQUIRED (C17): a frame is delivered only if its sequence number is strictly "
        "greater than that of the last delivered frame from the same sender."
    )
