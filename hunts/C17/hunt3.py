"""
C17 hunt 3 (low severity, API contract): `DataSecure(last_sequence_number_sending=N)` sends N again.

The only way the library offers to continue the sending counter over a restart is the
constructor argument `last_sequence_number_sending`. Passing the sequence number of the
last frame that was sent makes the next frame carry the *same* number instead of a
strictly greater one; passing the 48 bit maximum (= counter exhausted) sends one more frame
instead of raising.
"""

from xknx.cemi import CEMILData
from xknx.dpt import DPTArray
from xknx.exceptions import DataSecureError
from xknx.secure.data_secure import DataSecure
from xknx.telegram import GroupAddress, IndividualAddress, Telegram, apci

GA = GroupAddress("0/4/0")
KEY = bytes(range(16))
OWN = IndividualAddress("5.0.1")
MAX = 0xFFFFFFFFFFFF


def _send(data_secure: DataSecure) -> int:
    cemi_data = CEMILData.init_from_telegram(
        Telegram(destination_address=GA, payload=apci.GroupValueWrite(DPTArray((1,)))),
        src_addr=OWN,
    )
    secured = data_secure.outgoing_cemi(cemi_data)
    assert isinstance(secured.payload, apci.SecureAPDU)
    return int.from_bytes(secured.payload.secured_data.sequence_number_bytes, "big")


def test_last_sequence_number_sending_is_sent_again() -> None:
    first = DataSecure(group_key_table={GA: KEY}, individual_address_table={})
    _send(first)
    last_sent = _send(first)  # what an application would persist on shutdown

    second = DataSecure(
        group_key_table={GA: KEY},
        individual_address_table={},
        last_sequence_number_sending=last_sent,
    )
    next_sent = _send(second)
    assert next_sent > last_sent, (
        f"C17 violated: instance 1 sent its last secured frame with sequence number "
        f"{last_sent}; instance 2 was created with last_sequence_number_sending={last_sent} "
        f"and its first secured frame carries {next_sent} again. The property requires "
        "outgoing secured frames to carry strictly increasing sequence numbers "
        "(same key + same (seq, src, dst) CCM nonce, receivers drop the frame as replay)."
    )


def test_exhausted_last_sequence_number_sending_does_not_raise() -> None:
    exhausted = DataSecure(
        group_key_table={GA: KEY},
        individual_address_table={},
        last_sequence_number_sending=MAX,  # the last frame used the last 48 bit value
    )
    try:
        seq = _send(exhausted)
    except DataSecureError:
        return
    raise AssertionError(
        f"C17 violated: last_sequence_number_sending={MAX} (48 bit maximum already used) "
        f"but another frame was sent with sequence number {seq}; the property requires "
        "an error when the sequence numbers are exhausted."
    )
