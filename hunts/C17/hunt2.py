"""
C17 hunt 2: outgoing Data Secure sequence numbers are reused / go backwards after
XKNX.stop() / XKNX.start() when the wall clock was stepped back in between
(NTP step correction, fake-hwclock on a Raspberry Pi w/o RTC, VM snapshot restore, manual `date -s`).

History (one XKNX object, one keyring, own address 5.0.1):
  wall clock = T0           start -> send 3 secured GroupValueWrite to 0/4/0 -> seq s, s+1, s+2
  stop
  wall clock = T0 - 1 hour  start -> send 3 secured GroupValueWrite to 0/4/0 -> seq s-3600000, ...

Mocked: the UDP socket (UDPTransport.connect / send / stop) and the wall clock read by
xknx.secure.data_secure (`time.time`).
"""

from pathlib import Path
from unittest.mock import AsyncMock, patch

from xknx import XKNX
from xknx.cemi import CEMIFrame
from xknx.dpt import DPTArray
from xknx.io import ConnectionConfig, ConnectionType, SecureConfig
from xknx.secure.keyring import sync_load_keyring
from xknx.telegram import GroupAddress, IndividualAddress, Telegram, apci

KEYFILE = Path(__file__).parent / "test/secure_tests/resources/SecureTest.knxkeys"
T0 = 1_790_000_000.0  # 2026-09-21


async def test_exhausted_counter_wraps_by_restart() -> None:
    """Variant: counter exhausted (error raised) -> stop/start -> sending resumes with a small number."""
    import pytest

    from xknx.exceptions import DataSecureError

    keyring = sync_load_keyring(KEYFILE, "test")
    xknx = XKNX(
        connection_config=ConnectionConfig(
            connection_type=ConnectionType.ROUTING,
            local_ip="127.0.0.1",
            individual_address=IndividualAddress("5.0.1"),
            secure_config=SecureConfig(keyring=keyring),
        )
    )

    def telegram() -> Telegram:
        return Telegram(
            destination_address=GroupAddress("0/4/0"),
            payload=apci.GroupValueWrite(DPTArray((1,))),
        )

    with (
        patch("xknx.io.transport.udp_transport.UDPTransport.connect", AsyncMock()),
        patch("xknx.io.transport.udp_transport.UDPTransport.send") as send_mock,
        patch("xknx.io.transport.udp_transport.UDPTransport.stop"),
    ):
        await xknx.start()
        # fast-forward a long-lived sender to its last sequence number
        xknx.cemi_handler.data_secure._sequence_number_sending = 0xFFFFFFFFFFFF
        await xknx.cemi_handler.send_telegram(telegram())  # uses 2^48-1
        with pytest.raises(DataSecureError, match="overflow"):
            await xknx.cemi_handler.send_telegram(telegram())  # exhausted - correct
        await xknx.stop()
        await xknx.start()
        try:
            await xknx.cemi_handler.send_telegram(telegram())
            sent_after_restart = True
        except DataSecureError:
            sent_after_restart = False
        await xknx.stop()
        seqs = _wire_sequence_numbers(send_mock)

    assert not sent_after_restart and len(seqs) == 1, (
        f"C17 violated: after the sending counter was exhausted (2^48-1 sent, overflow error "
        f"raised) a stop()/start() made sending resume; wire sequence numbers {seqs}. The "
        "property requires an error instead of wrapping once the numbers are exhausted."
    )


def _wire_sequence_numbers(send_mock) -> list[int]:
    seqs = []
    for call in send_mock.call_args_list:
        knxipframe = call.args[0]
        cemi = CEMIFrame.from_knx(knxipframe.body.raw_cemi)
        assert isinstance(cemi.data.payload, apci.SecureAPDU), "frame must be secured"
        seqs.append(
            int.from_bytes(cemi.data.payload.secured_data.sequence_number_bytes, "big")
        )
    return seqs


async def test_outgoing_sequence_numbers_go_backwards_after_restart() -> None:
    keyring = sync_load_keyring(KEYFILE, "test")
    xknx = XKNX(
        connection_config=ConnectionConfig(
            connection_type=ConnectionType.ROUTING,
            local_ip="127.0.0.1",
            individual_address=IndividualAddress("5.0.1"),
            secure_config=SecureConfig(keyring=keyring),
        )
    )

    async def send_three() -> None:
        for value in (1, 2, 3):
            await xknx.cemi_handler.send_telegram(
                Telegram(
                    destination_address=GroupAddress("0/4/0"),
                    payload=apci.GroupValueWrite(DPTArray((value,))),
                )
            )

    with (
        patch("xknx.io.transport.udp_transport.UDPTransport.connect", AsyncMock()),
        patch("xknx.io.transport.udp_transport.UDPTransport.send") as send_mock,
        patch("xknx.io.transport.udp_transport.UDPTransport.stop"),
    ):
        with patch("xknx.secure.data_secure.time.time", return_value=T0):
            await xknx.start()
        await send_three()
        await xknx.stop()

        # wall clock was stepped back by one hour while xknx was stopped
        with patch("xknx.secure.data_secure.time.time", return_value=T0 - 3600):
            await xknx.start()
        await send_three()
        await xknx.stop()

        seqs = _wire_sequence_numbers(send_mock)

    assert len(seqs) == 6
    assert all(0 < s <= 0xFFFFFFFFFFFF for s in seqs)
    not_increasing = [(a, b) for a, b in zip(seqs, seqs[1:], strict=False) if not b > a]
    assert not not_increasing, (
        f"C17 violated: secured frames from 5.0.1 left the (mocked) socket with sequence "
        f"numbers {seqs}; frame 4 carries {seqs[3]} after frame 3 carried {seqs[2]} "
        f"(delta {seqs[3] - seqs[2]}). The property requires outgoing secured frames to "
        "carry strictly increasing sequence numbers over any stop/start history - "
        "receivers drop all of these frames as replays and the CCM nonce (seq, src, dst) "
        "may be reused."
    )
