"""
C17 hunt 3: DataSecure(last_sequence_number_sending=N) sends N a second time.

History: a sender instance puts frames with sequence numbers 1000 and 1001 on the bus.
The LAST sequence number sent (1001) is handed to a new instance through the
constructor parameter made for it, `last_sequence_number_sending`. The first frame of
the new instance carries 1001 again instead of 1002 - a genuine receiver (real
DataSecure.received_cemi) refuses it as a replay.

Property: outgoing secured frames carry strictly increasing sequence numbers.
"""

import pytest

import xknx
from xknx.cemi import CEMILData
from xknx.exceptions import DataSecureError
from xknx.secure.data_secure import DataSecure
from xknx.telegram import GroupAddress, IndividualAddress, Telegram, apci

assert xknx.__file__.startswith("/tmp/hunt_C17/"), xknx.__file__

GA = GroupAddress("1/2/3")
KEY = bytes(range(16))
SENDER = IndividualAddress("1.1.5")


def _plain() -> CEMILData:
    return CEMILData.init_from_telegram(
        Telegram(destination_address=GA, payload=apci.GroupValueRead()),
        src_addr=SENDER,
    )


def _seq(cemi_data: CEMILData) -> int:
    assert isinstance(cemi_data.payload, apci.SecureAPDU)
    return int.from_bytes(cemi_data.payload.secured_data.sequence_number_bytes, "big")


def test_last_sequence_number_sending_is_sent_again() -> None:
    """The number after the last one sent has to be used by a resumed instance."""
    receiver = DataSecure(
        group_key_table={GA: KEY}, individual_address_table={SENDER: 0}
    )
    sender_1 = DataSecure(
        group_key_table={GA: KEY},
        individual_address_table={},
        last_sequence_number_sending=1000,
    )
    wire = []
    for _ in range(2):
        frame = sender_1.outgoing_cemi(_plain())
        wire.append(_seq(frame))
        receiver.received_cemi(frame)  # delivered
    last_sent = wire[-1]
    assert wire[1] == wire[0] + 1, wire

    # resume with the last sequence number that was sent
    sender_2 = DataSecure(
        group_key_table={GA: KEY},
        individual_address_table={},
        last_sequence_number_sending=last_sent,
    )
    frame = sender_2.outgoing_cemi(_plain())
    wire.append(_seq(frame))
    refused = False
    try:
        receiver.received_cemi(frame)
    except DataSecureError:
        refused = True

    assert wire[-1] > last_sent, (
        f"OBSERVED: sequence numbers on the wire {wire} - an instance resumed with "
        f"last_sequence_number_sending={last_sent} sends {wire[-1]} once more "
        f"(genuine receiver refused the frame as replay: {refused}). "
        "REQUIRED (C17): outgoing secured frames carry strictly increasing sequence numbers."
    )


if __name__ == "__main__":
    raise SystemExit(pytest.main(["-q", "-p", "no:cacheprovider", __file__]))
