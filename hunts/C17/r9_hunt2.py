"""
C17 hunt 2: outgoing Data Secure sequence numbers go BACKWARDS over a stop()/start().

History (one process, one XKNX object, routing, mocked UDP socket and wall clock):
  wall clock = T            start, send 3 secured group telegrams -> seq S, S+1, S+2
  wall clock stepped back by 2 s (NTP correction) - or simply a restart that is faster
  than the number of frames sent (1 sequence number == 1 ms of wall clock)
                            stop, start, send 1 secured group telegram
  -> the frame carries a sequence number LOWER than the ones already on the bus.

Property: outgoing secured frames carry strictly increasing sequence numbers.
"""

import asyncio
from pathlib import Path
from unittest.mock import AsyncMock, Mock, patch

import xknx
from xknx import XKNX
from xknx.cemi import CEMIFrame
from xknx.io import ConnectionConfig, ConnectionType, SecureConfig
from xknx.knxip import KNXIPFrame, RoutingIndication
from xknx.secure.keyring import sync_load_keyring
from xknx.telegram import GroupAddress, IndividualAddress, Telegram, apci

assert xknx.__file__.startswith("/tmp/hunt_C17/"), xknx.__file__

KEYFILE = Path(__file__).parent / "test/secure_tests/resources/SecureTest.knxkeys"
T0 = 1_790_000_000.0  # some day in 2026


async def test_outgoing_sequence_numbers_decrease_over_restart() -> None:
    """Sequence numbers put on the wire must increase strictly - also over a restart."""
    keyring = sync_load_keyring(KEYFILE, "test")
    xknx_ = XKNX(
        connection_config=ConnectionConfig(
            connection_type=ConnectionType.ROUTING,
            individual_address=IndividualAddress("5.0.1"),
            local_ip="127.0.0.1",
            secure_config=SecureConfig(keyring=keyring),
        )
    )
    wire: list[int] = []

    def udp_send(knxipframe: KNXIPFrame, addr: object = None) -> None:
        assert isinstance(knxipframe.body, RoutingIndication)
        cemi = CEMIFrame.from_knx(knxipframe.body.raw_cemi)
        assert isinstance(cemi.data.payload, apci.SecureAPDU), "frame was not secured"
        wire.append(
            int.from_bytes(cemi.data.payload.secured_data.sequence_number_bytes, "big")
        )

    async def send_group_read() -> None:
        await xknx_.cemi_handler.send_telegram(
            Telegram(
                destination_address=GroupAddress("0/4/0"),
                payload=apci.GroupValueRead(),
            )
        )

    clock = Mock()
    clock.time = Mock(return_value=T0)
    # mocks only at the network boundary (UDP socket) and the wall clock
    with (
        patch("xknx.io.transport.udp_transport.UDPTransport.connect", AsyncMock()),
        patch("xknx.io.transport.udp_transport.UDPTransport.send", Mock(side_effect=udp_send)),
        patch("xknx.io.transport.udp_transport.UDPTransport.stop", Mock()),
        patch("xknx.secure.data_secure.time", clock),
    ):
        await xknx_.knxip_interface.start()
        for _ in range(3):
            await send_group_read()
        before = list(wire)

        await xknx_.knxip_interface.stop()
        clock.time.return_value = T0 - 2.0  # NTP stepped the clock back by 2 s
        await xknx_.knxip_interface.start()
        await asyncio.sleep(0.03)
        await send_group_read()
        await xknx_.knxip_interface.stop()

    assert len(before) == 3 and before == sorted(set(before)), before
    after = wire[3]
    assert after > before[-1], (
        f"OBSERVED: sequence numbers on the wire {wire}: after KNXIPInterface.stop()/start() "
        f"the next secured frame carries {after}, which is not greater than {before[-1]} "
        "already sent by this very XKNX object before (every receiver drops it as replay). "
        "REQUIRED (C17): outgoing secured frames carry strictly increasing sequence numbers."
    )
