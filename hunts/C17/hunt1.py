"""
C17 hunt 1: a replayed Data Secure frame is delivered a second time after XKNX.stop() / XKNX.start().

History (one XKNX object, one process, one keyring):
  start -> genuine frame F (sender 4.0.9, seq 155806854986) -> delivered
        -> replay of F                                       -> rejected (correct)
  stop -> start
        -> replay of F                                       -> DELIVERED AGAIN  (violation)

Only the UDP socket is mocked (UDPTransport.connect / send / stop).
"""

import asyncio
from pathlib import Path
from unittest.mock import AsyncMock, patch

from xknx import XKNX
from xknx.io import ConnectionConfig, ConnectionType, SecureConfig
from xknx.knxip import KNXIPFrame, RoutingIndication
from xknx.secure.keyring import sync_load_keyring
from xknx.telegram import IndividualAddress, Telegram

KEYFILE = Path(__file__).parent / "test/secure_tests/resources/SecureTest.knxkeys"

# L_Data.ind src=4.0.9 dst=0/4/0 GroupValueResponse (116, 41, 41) A+C seq=155806854986
# (the genuine recorded frame of test/secure_tests/data_secure_test.py)
GENUINE_CEMI = bytes.fromhex("29003ce0400904001103f110002446cfef4ac085e7092ab062b44d")
SEQ = 155806854986
SENDER = IndividualAddress("4.0.9")


def _routing_indication_datagram(raw_cemi: bytes) -> bytes:
    return KNXIPFrame.init_from_body(RoutingIndication(raw_cemi=raw_cemi)).to_knx()


async def test_replay_is_delivered_again_after_stop_start() -> None:
    keyring = sync_load_keyring(KEYFILE, "test")
    xknx = XKNX(
        connection_config=ConnectionConfig(
            connection_type=ConnectionType.ROUTING,
            local_ip="127.0.0.1",
            secure_config=SecureConfig(keyring=keyring),
        )
    )
    delivered: list[Telegram] = []
    xknx.telegram_queue.register_telegram_received_cb(delivered.append)

    def inject(raw_cemi: bytes) -> None:
        """Hand a datagram to the real UDP transport as if it came from the socket."""
        transport = xknx.knxip_interface._interface.transport
        transport.data_received_callback(
            _routing_indication_datagram(raw_cemi), ("192.168.1.99", 3671)
        )

    with (
        patch("xknx.io.transport.udp_transport.UDPTransport.connect", AsyncMock()),
        patch("xknx.io.transport.udp_transport.UDPTransport.send"),
        patch("xknx.io.transport.udp_transport.UDPTransport.stop"),
    ):
        # ---- session 1
        await xknx.start()
        table = xknx.cemi_handler.data_secure._individual_address_table
        assert table[SENDER] < SEQ  # frame is fresh

        inject(GENUINE_CEMI)
        await xknx.join()
        assert len(delivered) == 1, "precondition: genuine frame is delivered once"
        assert xknx.cemi_handler.data_secure._individual_address_table[SENDER] == SEQ

        inject(GENUINE_CEMI)  # replay in the same session
        await xknx.join()
        assert len(delivered) == 1, "precondition: replay in same session is rejected"

        # ---- restart of the same XKNX object
        await xknx.stop()
        await xknx.start()

        last_valid_after_restart = (
            xknx.cemi_handler.data_secure._individual_address_table[SENDER]
        )
        inject(GENUINE_CEMI)  # the very same, already delivered frame
        await xknx.join()
        await asyncio.sleep(0)
        n_delivered = len(delivered)
        await xknx.stop()

    assert n_delivered == 1, (
        f"C17 violated: frame from {SENDER} with sequence number {SEQ} was delivered "
        f"{n_delivered} times over the history start/recv/stop/start/replay. "
        f"After the restart the last-valid counter of {SENDER} was rolled back to "
        f"{last_valid_after_restart} (< {SEQ} of the last delivered frame). "
        "The property requires that a frame is delivered only if its sequence number is "
        "strictly greater than that of the last delivered frame from the same sender."
    )
