"""
C05 hunt 2 - octet 7 bits 5..0 of a long A_GroupValue_Write / A_GroupValue_Response.

KNX 03_03_07 Application Layer defines two formats of the A_GroupValue_Write-PDU and
the A_GroupValue_Response-PDU: data of up to 6 bit travel in octet 7 bits 5..0; for
longer data these six bits are drawn as the fixed value 000000b and the data follow
from octet 8 on. The six bits are not marked as reserved. `GroupValueWrite.from_knx()`
/ `GroupValueResponse.from_knx()` pick the format from the length alone and, in the
long format, never look at `raw[1] & 0x3F`; `to_knx()` always writes 0 there. A long
PDU received with any of these bits set is delivered and serialized again with
different octets.

Lower confidence than hunt1: whether this counts depends on the reserved-bit mask used
for the long format - the bits carry no data, every receiver I know of ignores them.

Run: /venv/bin/python -m pytest -q -p no:cacheprovider hunt2.py
"""

from __future__ import annotations

import pytest

from xknx.cemi import CEMIFrame
from xknx.exceptions import (
    ConversionError,
    CouldNotParseCEMI,
    UnsupportedAPCIService,
    UnsupportedCEMIMessage,
)
from xknx.telegram.apci import APCI


@pytest.mark.parametrize(
    "received",
    [
        bytes.fromhex("00812b"),  # A_GroupValue_Write, 1 octet data, low bits 000001b
        bytes.fromhex("00bf0c1a"),  # A_GroupValue_Write, 2 octets (DPT 9), low bits 111111b
        bytes.fromhex("00412b"),  # A_GroupValue_Response, 1 octet data
        bytes.fromhex("006a0c1a"),  # A_GroupValue_Response, 2 octets
    ],
    ids=lambda raw: raw.hex(),
)
def test_long_group_value_pdu_reencodes_to_same_octets(received: bytes) -> None:
    """An accepted long group value PDU is serialized with the octets it was received with."""
    try:
        decoded = APCI.from_knx(received)
    except (ConversionError, UnsupportedAPCIService):
        return  # refused: property holds
    encoded = bytes(decoded.to_knx())

    assert len(encoded) == len(received)
    assert decoded == APCI.from_knx(encoded)
    assert encoded == received, (
        f"received APDU {received.hex()} was decoded as {decoded} and re-encoded as "
        f"{encoded.hex()}: octet 7 bits {received[1] ^ encoded[1]:#010b} were dropped. In the long "
        "format of A_GroupValue_Write/Response these bits are the fixed value 000000b of the "
        "PDU, not bits the specification marks as reserved - C05 requires an accepted PDU to "
        "re-encode to the same octets (or the decoder to refuse it)."
    )


def test_relayed_group_write_frame() -> None:
    """The same through CEMIFrame: L_Data.ind 1.1.1 -> 1/2/3, TPDU 00 81 2B."""
    received = bytes.fromhex("2900bce011010a03" "02" "00812b")
    try:
        frame = CEMIFrame.from_knx(received)
    except (CouldNotParseCEMI, UnsupportedCEMIMessage):
        return
    relayed = frame.to_knx()
    assert relayed == received, (
        f"received CEMI {received.hex()} was parsed as {frame.data.payload} and serialized as "
        f"{relayed.hex()} - the TPDU changed from {received[-3:].hex()} to {relayed[-3:].hex()}; "
        "C05 requires a relayed frame to equal the received one on every non-reserved bit."
    )
