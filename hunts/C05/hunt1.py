"""
C05 hunt 1 - the six low APCI bits of the four "fixed 10 bit APCI" services are dropped.

A_GroupValue_Read (00 0000 0000b), A_IndividualAddress_Write (00 1100 0000b),
A_IndividualAddress_Read (01 0000 0000b) and A_IndividualAddress_Response
(01 0100 0000b) are 10 bit APCI codes - KNX 03_03_07 Application Layer, APCI table
and the PDU figures. Octet 7 bits 5..0 are part of the APCI, they are neither data nor
marked as reserved. `APCI.from_knx()` dispatches on `apci & 0x03C0` only and the four
parsers never look at `raw[1] & 0x3F`, so eg. the unassigned APCI 0x0C1 is delivered
as IndividualAddressWrite and serialized again as the real A_IndividualAddress_Write
(0x0C0): the re-encoding differs from the received PDU on bits the specification does
not mark as reserved - same class of defect as the A_Restart response / type bits.

Run: /venv/bin/python -m pytest -q -p no:cacheprovider hunt1.py
"""

from __future__ import annotations

import pytest

from xknx.cemi import CEMIFrame
from xknx.exceptions import (
    ConversionError,
    CouldNotParseCEMI,
    UnsupportedAPCIService,
    UnsupportedCEMIMessage,
)
from xknx.telegram.apci import (
    APCI,
    GroupValueRead,
    IndividualAddressRead,
    IndividualAddressResponse,
    IndividualAddressWrite,
)

# (service class, APDU with APCI low bits == 0)
BASE = [
    (GroupValueRead, bytes.fromhex("0000")),
    (IndividualAddressWrite, bytes.fromhex("00c01234")),
    (IndividualAddressRead, bytes.fromhex("0100")),
    (IndividualAddressResponse, bytes.fromhex("0140")),
]
LOW_BITS = [0x01, 0x02, 0x20, 0x2A, 0x3F]


@pytest.mark.parametrize(("service", "base"), BASE, ids=lambda v: getattr(v, "__name__", None))
@pytest.mark.parametrize("low", LOW_BITS, ids=lambda v: f"low{v:#04x}")
def test_apci_bits_survive_decode_encode(service: type[APCI], base: bytes, low: int) -> None:
    """Every accepted APDU re-encodes to the same 10 APCI bits."""
    received = bytes([base[0], base[1] | low]) + base[2:]
    try:
        decoded = APCI.from_knx(received)
    except (ConversionError, UnsupportedAPCIService):
        return  # refused by the decoder: nothing to re-encode, property holds
    encoded = bytes(decoded.to_knx())

    assert len(encoded) == len(received)
    received_apci = ((received[0] << 8) | received[1]) & 0x03FF
    encoded_apci = ((encoded[0] << 8) | encoded[1]) & 0x03FF
    assert encoded_apci == received_apci, (
        f"received APDU {received.hex()} (APCI {received_apci:#05x} = {received_apci:#012b}) was "
        f"decoded as {decoded} and re-encoded as {encoded.hex()} (APCI {encoded_apci:#05x}): "
        f"bits {received_apci ^ encoded_apci:#08b} of the 10 bit APCI were dropped. "
        f"{service.__name__} has a fixed 10 bit APCI - octet 7 bits 5..0 are APCI bits, not "
        "reserved bits - so C05 requires the re-encoding to keep them (or the decoder to "
        "refuse the PDU)."
    )


def test_relayed_cemi_frame_becomes_individual_address_write() -> None:
    """
    Same thing on a complete received frame through CEMIFrame.

    L_Data.ind, broadcast, APDU `00 C1 12 34`: APCI 0x0C1 is not assigned to any
    service. Relaying the parsed frame puts a genuine A_IndividualAddress_Write
    (0x0C0) for 1.2.52 on the medium.
    """
    received = bytes.fromhex("2900bce011010000" "03" "00c11234")
    try:
        frame = CEMIFrame.from_knx(received)
    except (CouldNotParseCEMI, UnsupportedCEMIMessage):
        return  # refused: nothing is relayed, property holds
    relayed = frame.to_knx()

    assert relayed[-4:] == received[-4:], (
        f"received CEMI {received.hex()} with TPDU {received[-4:].hex()} (unassigned APCI 0x0c1) "
        f"was parsed as {frame.data.payload} and serialized as {relayed.hex()} with TPDU "
        f"{relayed[-4:].hex()} - APCI 0x0c0, a real A_IndividualAddress_Write. C05: a relayed "
        "frame shall equal the received one on every non-reserved bit."
    )
