"""
C08 hunt 1: DPT 14 (4-octet float) - decoded value does not re-encode to a payload with the same value.

`DPT4ByteFloat.from_knx()` rounds to 7 significant digits, the number of decimals
being derived from `ceil(log10(abs(raw)))`. Directly above a power of ten the
quantum is ten times coarser than directly below it. For 10**28 and 10**-38 the
nearest float32 lies *below* the power of ten by more than half of the finer
quantum, so

    payload 6E 01 3F 3A  --from_knx-->  1e+28
    1e+28                --to_knx---->  6E 01 3F 39
    payload 6E 01 3F 39  --from_knx-->  9.999999e+27   (!= 1e+28)

Run: /venv/bin/python -m pytest -q -p no:cacheprovider hunt1.py
"""

import sys

sys.path.insert(0, "/tmp/hunt_C08")

import pytest

from xknx import XKNX
from xknx.devices import ExposeSensor
from xknx.dpt import DPTArray
from xknx.dpt.dpt_14 import DPT4ByteFloat, DPTPower
from xknx.telegram import GroupAddress, Telegram, TelegramDirection
from xknx.telegram.apci import GroupValueRead, GroupValueResponse, GroupValueWrite

PAYLOADS = [
    (0x6E, 0x01, 0x3F, 0x3A),  # 1.0000000623e+28
    (0x6E, 0x01, 0x3F, 0x3B),
    (0x6E, 0x01, 0x3F, 0x3C),
    (0x6E, 0x01, 0x3F, 0x3D),
    (0xEE, 0x01, 0x3F, 0x3A),  # negative
    (0x00, 0x6C, 0xE3, 0xEF),  # 1.0000000e-38 (subnormal)
    (0x00, 0x6C, 0xE3, 0xF2),
    (0x80, 0x6C, 0xE3, 0xEF),
]


@pytest.mark.parametrize("raw", PAYLOADS)
@pytest.mark.parametrize("dpt", [DPT4ByteFloat, DPTPower])
def test_dpt14_decoded_value_reencodes_to_same_value(dpt, raw) -> None:
    """from_knx -> to_knx -> from_knx must be the identity on the value."""
    value = dpt.from_knx(DPTArray(raw))
    payload = dpt.to_knx(value)
    value_again = dpt.from_knx(payload)
    assert value_again == value, (
        f"{dpt.__name__}: payload {DPTArray(raw)!r} decodes to {value!r}; "
        f"re-encoding that value yields {payload!r} which decodes to {value_again!r}. "
        "C08 requires the re-encoded payload to decode to the same value."
    )


async def test_expose_sensor_answers_read_with_different_value() -> None:
    """
    The same defect observed through RemoteValue.respond() of an ExposeSensor.

    A value written from the bus is stored decoded; the answer to a GroupValueRead
    re-encodes it. Every receiver decoding the answer (including xknx) sees another value.
    """
    xknx = XKNX()
    expose = ExposeSensor(xknx, "exp", group_address="1/2/3", value_type="power")
    xknx.devices.async_add(expose)
    written = DPTArray((0x6E, 0x01, 0x3F, 0x3A))
    expose.process(
        Telegram(
            destination_address=GroupAddress("1/2/3"),
            direction=TelegramDirection.INCOMING,
            payload=GroupValueWrite(written),
        )
    )
    state = expose.resolve_state()
    assert state is not None  # 1e+28 on the unchanged tree
    expose.process(
        Telegram(
            destination_address=GroupAddress("1/2/3"),
            direction=TelegramDirection.INCOMING,
            payload=GroupValueRead(),
        )
    )
    answer = xknx.telegrams.get_nowait()
    assert isinstance(answer.payload, GroupValueResponse)
    answered_value = DPTPower.from_knx(answer.payload.value)
    assert answered_value == state, (
        f"ExposeSensor holds {state!r} (decoded from {written!r}) but answers the "
        f"GroupValueRead with {answer.payload.value!r} which decodes to {answered_value!r}. "
        "C08 requires the re-encoded payload to decode to the same value."
    )
