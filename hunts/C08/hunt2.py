"""
C08 hunt 2 - ExposeSensor: a value decoded from the bus is not what the sensor re-encodes for a read.

History: the application once called set(21.0) (or initialize_value(21.0)). Later another bus
participant writes 25.0 to the exposed group address. The ExposeSensor accepts and decodes that
payload - resolve_state() is 25.0 - but a GroupValueRead is answered from the cached
`_payload_after_cooldown`, i.e. with the payload of 21.0.
"""

import asyncio

import pytest

from xknx import XKNX
from xknx.devices import ExposeSensor
from xknx.dpt import DPTArray, DPTTemperature
from xknx.telegram import GroupAddress, IndividualAddress, Telegram, TelegramDirection
from xknx.telegram.apci import GroupValueRead, GroupValueResponse, GroupValueWrite

GA = GroupAddress("1/2/3")
OTHER = IndividualAddress("1.1.7")


def _incoming(payload: GroupValueWrite | GroupValueRead) -> Telegram:
    return Telegram(
        destination_address=GA,
        source_address=OTHER,
        direction=TelegramDirection.INCOMING,
        payload=payload,
    )


@pytest.mark.parametrize("how", ["set", "initialize_value"])
def test_read_is_answered_with_the_value_decoded_from_the_bus(how: str) -> None:
    """The payload answered to a read must decode to the value the sensor decoded last."""

    async def scenario() -> None:
        xknx = XKNX()
        sensor = ExposeSensor(xknx, "T", group_address=GA, value_type="temperature")
        xknx.devices.async_add(sensor)

        if how == "set":
            await sensor.set(21.0)
            xknx.devices.process(xknx.telegrams.get_nowait())  # own outgoing write
        else:
            sensor.initialize_value(21.0)
        assert sensor.resolve_state() == 21.0

        written = DPTTemperature.to_knx(25.0)
        xknx.devices.process(_incoming(GroupValueWrite(written)))
        state = sensor.resolve_state()
        assert state == 25.0  # the payload was accepted and decoded

        xknx.devices.process(_incoming(GroupValueRead()))
        assert xknx.telegrams.qsize() == 1
        response = xknx.telegrams.get_nowait()
        assert isinstance(response.payload, GroupValueResponse)
        answered = DPTTemperature.from_knx(response.payload.value)
        assert answered == state, (
            f"ExposeSensor decoded {written!r} to {state!r} (resolve_state()), but answers the "
            f"GroupValueRead with {response.payload.value!r} which decodes to {answered!r}. "
            "C08 requires the payload produced for a decoded value to decode to that same value."
        )

    asyncio.run(scenario())


def test_read_without_local_value_is_fine() -> None:
    """Control: without a previous set() the decoded value is re-encoded correctly."""

    async def scenario() -> None:
        xknx = XKNX()
        sensor = ExposeSensor(xknx, "T", group_address=GA, value_type="temperature")
        xknx.devices.async_add(sensor)
        xknx.devices.process(_incoming(GroupValueWrite(DPTTemperature.to_knx(25.0))))
        xknx.devices.process(_incoming(GroupValueRead()))
        response = xknx.telegrams.get_nowait()
        assert response.payload.value == DPTArray(DPTTemperature.to_knx(25.0).value)

    asyncio.run(scenario())
