"""
C08 hunt 1 - DPT 14 (4-octet float): a decoded value does not re-encode to a payload with the same value.

DPT4ByteFloat.from_knx() rounds the float32 to 7 significant digits. For the float32
values just above 1e28 (and 1e-38) this rounding yields exactly 1e28. The float32
nearest to 1e28 lies *below* 1e28 (9.99999944e27) - in the lower decade, where
7 significant digits are ten times finer - so it decodes to 9.999999e27.
"""

import asyncio
import struct

import pytest

from xknx import XKNX
from xknx.devices import ExposeSensor
from xknx.dpt import DPT4ByteFloat, DPTArray, DPTBase, DPTPower
from xknx.telegram import GroupAddress, IndividualAddress, Telegram, TelegramDirection
from xknx.telegram.apci import GroupValueRead, GroupValueResponse, GroupValueWrite

PAYLOADS = [
    0x6E013F3A,  # 1.00000006e28
    0x6E013F3B,
    0x6E013F3C,
    0x6E013F3D,
    0xEE013F3A,  # negative
    0x006CE3EF,  # 1.0000000e-38 (subnormal)
    0x806CE3F2,
]

DPT14_CLASSES = [
    dpt for dpt in DPTBase.dpt_class_tree() if issubclass(dpt, DPT4ByteFloat)
]


@pytest.mark.parametrize("raw", PAYLOADS, ids=hex)
def test_dpt14_decoded_value_reencodes_to_same_value(raw: int) -> None:
    """from_knx(to_knx(from_knx(p))) must equal from_knx(p) for every accepted payload."""
    payload = DPTArray(struct.pack(">I", raw))
    for dpt in DPT14_CLASSES:
        value = dpt.from_knx(payload)
        payload_2 = dpt.to_knx(value)
        value_2 = dpt.from_knx(payload_2)
        assert value_2 == value, (
            f"{dpt.dpt_name()}: payload {payload!r} decodes to {value!r}; encoding that value "
            f"gives {payload_2!r}, which decodes to {value_2!r}. "
            "C08 requires the re-encoded payload to decode to the same value."
        )


def test_expose_sensor_answers_read_with_another_value() -> None:
    """A value written on the bus is answered to a GroupValueRead with a different value."""

    async def scenario() -> None:
        xknx = XKNX()
        sensor = ExposeSensor(
            xknx, "Power", group_address="1/2/3", value_type=DPTPower
        )
        xknx.devices.async_add(sensor)
        written = DPTArray(struct.pack(">I", 0x6E013F3A))
        xknx.devices.process(
            Telegram(
                destination_address=GroupAddress("1/2/3"),
                source_address=IndividualAddress("1.1.7"),
                direction=TelegramDirection.INCOMING,
                payload=GroupValueWrite(written),
            )
        )
        state = sensor.resolve_state()
        assert state == DPTPower.from_knx(written)
        xknx.devices.process(
            Telegram(
                destination_address=GroupAddress("1/2/3"),
                source_address=IndividualAddress("1.1.7"),
                direction=TelegramDirection.INCOMING,
                payload=GroupValueRead(),
            )
        )
        response = xknx.telegrams.get_nowait()
        assert isinstance(response.payload, GroupValueResponse)
        answered = DPTPower.from_knx(response.payload.value)
        assert answered == state, (
            f"ExposeSensor holds {state!r} (decoded from {written!r}) but answers the read with "
            f"{response.payload.value!r} = {answered!r}. C08 requires the re-encoded payload "
            "to decode to the same value."
        )

    asyncio.run(scenario())
