"""C36 hunt 1: with asyncio.eager_task_factory a restart_after_reconnect task keeps running while disconnected.

The eagerly executed first step of the task (its target) runs while `Task._task` is still
None. A connection loss that is delivered during that step (ConnectionManager delivers
synchronously when no main loop is registered - the default, non threaded mode) reaches
`Task.connection_lost()`, which sees `_task is None` and does nothing. `_start()` then
stores the eagerly started asyncio task as the running instance.
"""

import asyncio

from xknx import XKNX
from xknx.core import Task, XknxConnectionState


async def _scenario(eager: bool) -> tuple[bool, int]:
    loop = asyncio.get_running_loop()
    if eager:
        loop.set_task_factory(asyncio.eager_task_factory)

    xknx = XKNX()
    xknx.task_registry.start()
    xknx.connection_manager.connection_state_changed(XknxConnectionState.CONNECTED)

    runs_while_disconnected = 0
    first = True

    async def target() -> None:
        nonlocal first, runs_while_disconnected
        if first:
            first = False
            # eg. a send that fails and makes the interface report the lost connection
            xknx.connection_manager.connection_state_changed(
                XknxConnectionState.DISCONNECTED
            )
        await asyncio.sleep(0)
        if not xknx.connection_manager.connected.is_set():
            runs_while_disconnected += 1

    task = Task(
        name="hunt1",
        target=target,
        restart_after_reconnect=True,
        repeat_after=0,
    )
    xknx.task_registry.start_task(task)
    for _ in range(10):
        await asyncio.sleep(0)
    assert not xknx.connection_manager.connected.is_set()
    running = task._task is not None and not task._task.done()
    xknx.task_registry.stop()
    return running, runs_while_disconnected


def test_default_factory_reference() -> None:
    """Reference: with the default factory the task is cancelled by the connection loss."""
    running, runs = asyncio.run(_scenario(eager=False))
    assert not running
    assert runs == 0


def test_eager_factory_task_runs_while_disconnected() -> None:
    """The same history under asyncio.eager_task_factory."""
    running, runs = asyncio.run(_scenario(eager=True))
    assert not running and runs == 0, (
        "observed: a restart_after_reconnect task is running while the connection state is "
        f"DISCONNECTED (running={running}, target iterations while disconnected={runs}); "
        "the property requires that a task registered to restart after reconnection is "
        "not running while disconnected"
    )
