"""
C36 hunt 3: with `asyncio.eager_task_factory` (Python >= 3.12, the loop configuration of
Home Assistant - the main consumer of xknx) `Task._start()` runs the first step of the
target *inside* `asyncio.create_task()`, i.e. before `self._task` is assigned and - on
reconnect - inside the `for task in self.tasks` loop of `connection_state_changed_cb`.

(a) remove_task() / cancel() issued during that first step finds `self._task is None`,
    cancels nothing, and the assignment afterwards resurrects the removed task:
    it keeps running although removed, and TaskRegistry.stop() can't reach it anymore.
(b) a (sync) target that registers another task during that first step mutates
    `self.tasks` while the registry iterates it on reconnect: RuntimeError out of
    `ConnectionManager.connection_state_changed()`, remaining tasks are not restarted.
"""

import asyncio
import sys

import pytest

from xknx import XKNX
from xknx.core import XknxConnectionState
from xknx.core.task_registry import Task

pytestmark = pytest.mark.skipif(
    sys.version_info < (3, 12), reason="eager_task_factory needs Python 3.12"
)


class Clock:
    """Virtual time for the running loop."""

    def __init__(self) -> None:
        self.loop = asyncio.get_running_loop()
        self.offset = 0.0
        self._base = self.loop.time
        self.loop.time = lambda: self._base() + self.offset  # type: ignore[method-assign]

    async def __call__(self, seconds: float) -> None:
        while self.loop._ready:  # type: ignore[attr-defined]
            await asyncio.sleep(0)
        self.offset += seconds
        await asyncio.sleep(0)
        while self.loop._ready:  # type: ignore[attr-defined]
            await asyncio.sleep(0)


async def _removed_in_first_step(eager: bool) -> tuple[bool, int, bool]:
    """Return (asyncio task alive after remove+stop, ticks after stop, Task.done())."""
    loop = asyncio.get_running_loop()
    if eager:
        loop.set_task_factory(asyncio.eager_task_factory)
    time_travel = Clock()
    xknx = XKNX()
    xknx.task_registry.start()
    ticks = 0
    stage = "run"
    ticks_after_stop = 0
    inner: asyncio.Task[None] | None = None

    async def target() -> None:
        """Decide in the first step that the job is not needed anymore - unregister."""
        nonlocal ticks, ticks_after_stop, inner
        inner = asyncio.current_task()
        xknx.task_registry.remove_task(task)
        while True:
            await asyncio.sleep(1)
            ticks += 1
            if stage == "stopped":
                ticks_after_stop += 1

    task = Task(name="hunt3a", target=target)
    xknx.task_registry.start_task(task)
    await time_travel(3)
    xknx.task_registry.stop()
    stage = "stopped"
    await time_travel(3)
    assert inner is not None
    alive = not inner.done()
    done = task.done()
    inner.cancel()
    loop.set_task_factory(None)
    return alive, ticks_after_stop, done


async def test_remove_in_first_step_eager() -> None:
    """A removed task is cancelled; stop leaves nothing running - also with eager tasks."""
    alive_default, ticks_default, _ = await _removed_in_first_step(eager=False)
    assert (alive_default, ticks_default) == (False, 0), "sanity: default task factory"

    alive, ticks_after_stop, done = await _removed_in_first_step(eager=True)
    assert not alive and ticks_after_stop == 0, (
        "eager_task_factory: the task removed itself via TaskRegistry.remove_task() in its first "
        f"step, but its asyncio task is still alive={alive} after remove_task() AND "
        f"TaskRegistry.stop(); it ticked {ticks_after_stop}x after stop (Task.done()={done}). "
        "With the default task factory the same history cancels it. "
        "C36 requires: a removed task is cancelled, stopping the registry leaves no task running."
    )


async def test_reconnect_iteration_eager() -> None:
    """Every restart_after_reconnect task is started once per reconnection."""
    loop = asyncio.get_running_loop()
    loop.set_task_factory(asyncio.eager_task_factory)
    try:
        xknx = XKNX()
        xknx.task_registry.start()
        cm = xknx.connection_manager

        helper_runs = 0

        def helper() -> None:
            nonlocal helper_runs
            helper_runs += 1

        started: list[str] = []

        def make(name: str) -> Task:
            def target() -> None:
                """Sync target: do the job, schedule a one-shot follow-up task."""
                started.append(name)
                xknx.task_registry.start_task(
                    Task(name=f"{name}.followup", target=helper, wait_before_start=1)
                )

            return Task(name=name, target=target, restart_after_reconnect=True)

        names = [f"t{i}" for i in range(4)]
        for name in names:
            xknx.task_registry.start_task(make(name))  # disconnected: not started yet
        assert started == []

        error: BaseException | None = None
        try:
            cm.connection_state_changed(XknxConnectionState.CONNECTED)
        except RuntimeError as exc:
            error = exc
        await asyncio.sleep(0)
        assert error is None and sorted(started) == names, (
            f"eager_task_factory: connection_state_changed(CONNECTED) raised {error!r}; "
            f"only {sorted(started)} of the restart_after_reconnect tasks {names} were started "
            "on this reconnection. C36 requires: started again once per reconnection."
        )
    finally:
        for t in asyncio.all_tasks():
            if t is not asyncio.current_task():
                t.cancel()
        loop.set_task_factory(None)
