"""C36 hunt 1: under asyncio.eager_task_factory a task removed/restarted from its own first step is not cancelled."""

import asyncio

import pytest

from xknx import XKNX
from xknx.core.task_registry import Task

pytestmark = pytest.mark.skipif(
    not hasattr(asyncio, "eager_task_factory"), reason="needs Python 3.12"
)


async def test_removed_task_keeps_running_and_survives_stop() -> None:
    loop = asyncio.get_running_loop()
    loop.set_task_factory(asyncio.eager_task_factory)
    try:
        xknx = XKNX()
        xknx.task_registry.start()
        calls = 0

        def target() -> None:
            nonlocal calls
            calls += 1
            if calls == 1:
                # "I am not needed anymore" - legal public API call
                xknx.task_registry.remove_task(task)

        task = Task("self_removing", target, repeat_after=0.01)
        xknx.task_registry.start_task(task)
        assert task not in xknx.task_registry.tasks  # it was removed
        await asyncio.sleep(0.05)
        calls_after_remove = calls
        xknx.task_registry.stop()
        await asyncio.sleep(0.05)
        calls_after_stop = calls
        leaked = task._task
        if leaked is not None:
            leaked.cancel()
        assert calls_after_remove == 1 and calls_after_stop == 1 and leaked is None, (
            f"observed: target ran {calls_after_remove}x after remove_task() and "
            f"{calls_after_stop}x after TaskRegistry.stop(); task._task={leaked!r}. "
            "C36 requires: a removed task is cancelled, and stopping the registry "
            "leaves no task running."
        )
    finally:
        loop.set_task_factory(None)


async def test_self_restart_leaves_two_instances() -> None:
    loop = asyncio.get_running_loop()
    loop.set_task_factory(asyncio.eager_task_factory)
    try:
        xknx = XKNX()
        xknx.task_registry.start()
        calls = 0
        running: set[asyncio.Task[None]] = set()

        async def target() -> None:
            nonlocal calls
            calls += 1
            running.add(asyncio.current_task())  # type: ignore[arg-type]
            if calls == 1:
                # re-arm myself (eg. with a changed wait_before_start)
                xknx.task_registry.start_task(task)

        task = Task("self_restarting", target, repeat_after=1000)
        xknx.task_registry.start_task(task)
        await asyncio.sleep(0.01)
        alive = [t for t in running if not t.done()]
        xknx.task_registry.stop()
        await asyncio.sleep(0.01)
        alive_after_stop = [t for t in running if not t.done()]
        for t in alive_after_stop:
            t.cancel()
        assert len(alive) == 1 and not alive_after_stop, (
            f"observed: {len(alive)} live instances of one registered task after "
            f"start_task() on itself, {len(alive_after_stop)} still alive after stop(). "
            "C36 requires: starting a task that is already registered replaces the "
            "running instance; stopping the registry leaves no task running."
        )
    finally:
        loop.set_task_factory(None)
