"""
C36 hunt 1: TaskRegistry.stop() forgets the registration flag of the tasks it drops.

`Task.xknx` is "used as flag for registration in TaskRegistry" - remove_task() resets it,
stop() does not. After stop() the dropped task still looks registered, so the public
`Task.restart()` (used by eg. ExposeSensor.process_group_write) starts an instance the
registry does not know: remove_task() does not cancel it, a second stop() does not cancel
it and start_task() puts a second instance next to it.
"""

import asyncio

import pytest

from xknx import XKNX
from xknx.core import XknxConnectionState
from xknx.core.task_registry import Task


def _counting_target(runs: list[int], alive: list[int]):
    async def target() -> None:
        runs.append(1)
        alive.append(1)
        try:
            await asyncio.sleep(3600)
        finally:
            alive.pop()

    return target


async def _settle() -> None:
    for _ in range(5):
        await asyncio.sleep(0)


async def test_restart_after_stop_is_not_cancelled_by_remove_or_stop() -> None:
    """stop(); restart(); remove_task()/stop() leaves an instance running."""
    xknx = XKNX()
    registry = xknx.task_registry
    registry.start()
    xknx.connection_manager.connection_state_changed(XknxConnectionState.CONNECTED)

    runs: list[int] = []
    alive: list[int] = []
    task = Task(name="hunt1", target=_counting_target(runs, alive))

    registry.start_task(task)
    await _settle()
    assert len(alive) == 1

    registry.stop()
    await _settle()
    assert len(alive) == 0, "stop() did not cancel the registered task"
    assert task not in registry.tasks

    # the registry dropped the task - a restart of the unregistered task has to be
    # refused ("Task must be registered before start().") like after remove_task()
    try:
        task.restart()
    except RuntimeError:
        return  # expected behaviour
    await _settle()
    assert len(alive) == 1  # it runs - unknown to the registry

    registry.remove_task(task)
    await _settle()
    after_remove = len(alive)
    registry.stop()
    await _settle()
    after_stop = len(alive)
    # cleanup
    leaked = task._task
    task.cancel()
    await _settle()
    assert (after_remove, after_stop) == (0, 0), (
        f"after stop() the dropped task kept its registration flag (task.xknx), so "
        f"Task.restart() started it again outside of the registry: "
        f"{after_remove} instance running after remove_task(), {after_stop} running "
        f"after a further stop() (leaked asyncio task: {leaked!r}). The property "
        f"requires a removed task to be cancelled and stop() to leave no task running."
    )


async def test_start_task_after_stop_and_restart_runs_two_instances() -> None:
    """stop(); restart(); start_task() - two instances of one Task run concurrently."""
    xknx = XKNX()
    registry = xknx.task_registry
    registry.start()
    xknx.connection_manager.connection_state_changed(XknxConnectionState.CONNECTED)

    runs: list[int] = []
    alive: list[int] = []
    task = Task(name="hunt1b", target=_counting_target(runs, alive))

    registry.start_task(task)
    await _settle()
    registry.stop()
    await _settle()
    assert len(alive) == 0

    try:
        task.restart()
    except RuntimeError:
        return  # expected behaviour - unregistered tasks can not be started
    await _settle()
    orphan = task._task

    registry.start_task(task)  # "If it is already running, it will be restarted."
    await _settle()
    concurrently = len(alive)

    registry.stop()
    await _settle()
    after_stop = len(alive)
    if orphan is not None:
        orphan.cancel()
    await _settle()
    assert concurrently == 1 and after_stop == 0, (
        f"start_task() of a task that was restarted after stop(): {concurrently} "
        f"instances of the same Task ran concurrently and {after_stop} was still running "
        f"after the final stop(). The property requires start_task() to replace the "
        f"running instance (never two) and stop() to leave no task running."
    )


if __name__ == "__main__":
    raise SystemExit(pytest.main(["-q", "-p", "no:cacheprovider", __file__]))
