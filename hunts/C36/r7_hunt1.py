"""
C36 hunt 1: XKNX.stop() stops the task registry BEFORE it drains the telegram queue.

A telegram that is still queued when `xknx.stop()` is called is processed by
`await self.join()` - i.e. after `devices.async_remove_device_tasks()` and
`task_registry.stop()` already ran. Device code processing that telegram calls
`task_registry.start_task()` and this task survives the stop: it is still
registered and running when `xknx.stop()` returned and fires later.

Property clause: "stopping the registry leaves no task running."
"""

import asyncio
from unittest.mock import AsyncMock, Mock, patch

from xknx import XKNX
from xknx.core import XknxConnectionState
from xknx.devices import Switch
from xknx.dpt import DPTBinary
from xknx.telegram import Telegram, TelegramDirection
from xknx.telegram.address import GroupAddress
from xknx.telegram.apci import GroupValueWrite


def _interface_mock() -> Mock:
    mock = Mock()
    mock.start = AsyncMock()
    mock.stop = AsyncMock()
    mock.send_cemi = AsyncMock()
    return mock


async def _advance(loop: asyncio.AbstractEventLoop, seconds: float) -> None:
    """Virtual time: shift loop.time() and let the loop run."""
    base = loop.time
    loop.time = lambda: base() + seconds  # type: ignore[method-assign]
    for _ in range(10):
        await asyncio.sleep(0)


async def test_task_started_while_stopping_survives_stop() -> None:
    """A queued telegram processed during xknx.stop() leaves a running task behind."""
    with patch("xknx.xknx.knx_interface_factory", return_value=_interface_mock()):
        xknx = XKNX()

    switch = Switch(xknx, "TestSwitch", group_address="1/2/3", reset_after=5)
    xknx.devices.async_add(switch)

    await xknx.start()
    xknx.connection_manager.connection_state_changed(
        XknxConnectionState.CONNECTED
    )

    # a GroupValueWrite "on" arrives from the bus right before the application stops xknx
    xknx.telegrams.put_nowait(
        Telegram(
            destination_address=GroupAddress("1/2/3"),
            direction=TelegramDirection.INCOMING,
            payload=GroupValueWrite(DPTBinary(1)),
        )
    )
    await xknx.stop()
    assert not xknx.started.is_set()
    assert xknx.telegrams.empty()

    registered = set(xknx.task_registry.tasks)
    running = [task.name for task in registered if not task.done()]
    asyncio_running = [
        t.get_name()
        for t in asyncio.all_tasks()
        if t is not asyncio.current_task() and not t.done()
    ]

    # let the leaked task fire (virtual time)
    await _advance(asyncio.get_running_loop(), 6)

    queued_after_stop = []
    while not xknx.telegrams.empty():
        queued_after_stop.append(str(xknx.telegrams.get_nowait()))

    assert not running and not queued_after_stop, (
        "XKNX.stop() returned, but the task registry still holds running task(s) "
        f"{running} (asyncio tasks alive: {asyncio_running}); after 5 s virtual time the "
        "leaked reset task fired and queued a telegram on the stopped instance: "
        f"{queued_after_stop}. "
        "C36 requires: stopping the registry leaves no task running."
    )
