"""
C36 hunt 2: Task.cancel() forgets the asyncio task at once - an instance that survives
the cancellation of its current target call keeps repeating forever, unknown to the registry.

`Task._start_internal()` is a `while True` loop around `await job`. `Task.cancel()` calls
`asyncio.Task.cancel()` (one CancelledError thrown into the *target*) and immediately drops
the reference (`self._task = None`). If the target finishes its cleanup without re-raising -
exactly what the target in the existing test `test_reconnect_handling` does
(`except asyncio.CancelledError: test -= 1`) - the cancellation is consumed by the target,
the surrounding loop in `_start_internal` continues with `await asyncio.sleep(repeat_after)`
and calls the target again and again:

  * while disconnected (restart_after_reconnect=True)          -> clause 1
  * next to the instance started on reconnect (runs twice)       -> "never run twice"
  * after remove_task() and after TaskRegistry.stop()            -> clauses 3 and 4
"""

import asyncio

from xknx import XKNX
from xknx.core import XknxConnectionState
from xknx.core.task_registry import Task


class Clock:
    """Virtual time for the running loop (same idea as test/conftest.py time_travel)."""

    def __init__(self) -> None:
        self.loop = asyncio.get_running_loop()
        self.offset = 0.0
        self._base = self.loop.time
        self.loop.time = lambda: self._base() + self.offset  # type: ignore[method-assign]

    async def __call__(self, seconds: float) -> None:
        while self.loop._ready:  # type: ignore[attr-defined]
            await asyncio.sleep(0)
        self.offset += seconds
        await asyncio.sleep(0)
        while self.loop._ready:  # type: ignore[attr-defined]
            await asyncio.sleep(0)


async def test_cancelled_instance_keeps_repeating() -> None:
    """A repeating task is still executed while disconnected, twice after reconnect and after stop."""
    time_travel = Clock()
    xknx = XKNX()
    xknx.task_registry.start()
    cm = xknx.connection_manager
    cm.connection_state_changed(XknxConnectionState.CONNECTED)

    calls: list[tuple[str, bool]] = []  # (phase, connected at call time)
    phase = "connected-1"
    active = 0
    max_active = 0

    async def target() -> None:
        """Poll something for a while; tidy up when cancelled (as in test_reconnect_handling)."""
        nonlocal active, max_active
        calls.append((phase, cm.connected.is_set()))
        active += 1
        max_active = max(max_active, active)
        try:
            await asyncio.sleep(3)
        except asyncio.CancelledError:
            pass  # cleanup only
        finally:
            active -= 1

    task = Task(
        name="hunt2",
        target=target,
        restart_after_reconnect=True,
        repeat_after=10,
    )
    xknx.task_registry.start_task(task)
    await time_travel(1)  # target is running (sleeping)
    assert calls == [("connected-1", True)]

    # ---- connection lost ------------------------------------------------------------
    phase = "disconnected"
    cm.connection_state_changed(XknxConnectionState.DISCONNECTED)
    assert task._task is None and task.done()  # the registry considers it stopped
    for _ in range(5):
        await time_travel(10)
    calls_while_disconnected = [c for c in calls if c[0] == "disconnected"]

    # ---- reconnect ------------------------------------------------------------------
    phase = "connected-2"
    max_active = 0
    cm.connection_state_changed(XknxConnectionState.CONNECTED)
    starts_by_second = []
    for _ in range(25):
        before = len(calls)
        await time_travel(1)
        starts_by_second.append(len(calls) - before)
    calls_after_reconnect = sum(starts_by_second)  # one instance: 0 s, 13 s -> 2 calls in 25 s

    # ---- stop -----------------------------------------------------------------------
    phase = "stopped"
    xknx.task_registry.stop()
    assert not xknx.task_registry.tasks and task._task is None
    for _ in range(5):
        await time_travel(10)
    calls_after_stop = [c for c in calls if c[0] == "stopped"]
    alive = [
        t.get_name()
        for t in asyncio.all_tasks()
        if t is not asyncio.current_task() and not t.done()
    ]
    for t in asyncio.all_tasks():
        if t is not asyncio.current_task():
            t.cancel()
            t.cancel()

    assert not calls_while_disconnected and calls_after_reconnect == 2 and not calls_after_stop, (
        f"target was called {len(calls_while_disconnected)}x while disconnected "
        f"(restart_after_reconnect=True, Task.done() was True); "
        f"{calls_after_reconnect} calls in the 25 s after the single reconnect instead of 2 "
        f"(max concurrently running target calls: {max_active}); "
        f"{len(calls_after_stop)} calls after TaskRegistry.stop(), asyncio tasks still alive: {alive}. "
        "C36 requires: not running while disconnected, started once per reconnection "
        "(never two instances), no task running after stop."
    )
