"""
C36 hunt 3 - Task.cancel() only *requests* cancellation and immediately forgets the
asyncio task.  If the target handles asyncio.CancelledError (exactly like the target in the
upstream test `test_reconnect_handling` does) the wrapper loop `_start_internal` carries on:
with `repeat_after` set, a removed task / a task of a stopped registry keeps running forever,
and a restarted task runs twice in parallel.

Property clauses: "starting a task that is already registered replaces the running instance.
A removed task is cancelled, and stopping the registry leaves no task running."

Run: /venv/bin/python -m pytest -q -p no:cacheprovider hunt3.py
"""

import asyncio
import contextlib

from xknx import XKNX
from xknx.core import XknxConnectionState
from xknx.core.task_registry import Task


class ClockAdvancer:
    """Virtual time - same technique as test/conftest.py::EventLoopClockAdvancer."""

    def __init__(self) -> None:
        self.loop = asyncio.get_running_loop()
        self.offset = 0.0
        self._base_time = self.loop.time
        self.loop.time = self.time  # type: ignore[method-assign]

    def time(self) -> float:
        return self._base_time() + self.offset

    async def _exhaust(self) -> None:
        while self.loop._ready:  # type: ignore[attr-defined]
            await asyncio.sleep(0)

    async def __call__(self, seconds: float) -> None:
        await self._exhaust()
        if seconds > 0:
            self.offset += seconds
            await asyncio.sleep(0)
            await self._exhaust()


def _kill(name: str) -> None:
    """Test hygiene: really terminate leaked asyncio tasks so the event loop can close."""
    for atask in asyncio.all_tasks():
        if atask.get_name() == name:
            for _ in range(3):
                atask.cancel()


class Poller:
    """A target that tidies up on cancellation - same shape as upstream test_reconnect_handling."""

    def __init__(self) -> None:
        self.started = 0
        self.active = 0
        self.max_active = 0

    async def __call__(self) -> None:
        self.started += 1
        self.active += 1
        self.max_active = max(self.max_active, self.active)
        try:
            await asyncio.sleep(100)  # e.g. wait for a response / poll interval
        except asyncio.CancelledError:
            pass  # tidy up (upstream test: `test -= 1`)
        finally:
            self.active -= 1


async def test_removed_task_keeps_repeating() -> None:
    """remove_task() / stop(): the task is reported done() but its loop goes on forever."""
    time_travel = ClockAdvancer()
    xknx = XKNX()
    xknx.task_registry.start()
    poller = Poller()
    task = Task(name="hunt3_poller", target=poller, repeat_after=1)
    xknx.task_registry.start_task(task)
    await time_travel(1)
    assert poller.started == 1

    xknx.task_registry.remove_task(task)
    xknx.task_registry.stop()
    assert task.done() and not xknx.task_registry.tasks  # registry claims all is quiet

    started_at_stop = poller.started
    await time_travel(2)  # repeat_after elapsed
    await time_travel(100)
    await time_travel(2)
    alive = [t for t in asyncio.all_tasks() if t.get_name() == "hunt3_poller"]
    started_after_stop = poller.started - started_at_stop
    _kill("hunt3_poller")
    assert started_after_stop == 0 and not alive, (
        f"after remove_task() + TaskRegistry.stop() the target was started "
        f"{started_after_stop} more time(s) and {len(alive)} asyncio task(s) named "
        "'hunt3_poller' are still alive, while Task.done() is True and registry.tasks is "
        "empty. The property requires a removed task to be cancelled and no task running "
        "after stop()"
    )


async def test_reconnect_makes_task_run_twice() -> None:
    """Connection lost + reestablished: old instance survives, new instance is added."""
    time_travel = ClockAdvancer()
    xknx = XKNX()
    xknx.task_registry.start()
    cm = xknx.connection_manager
    cm.connection_state_changed(XknxConnectionState.CONNECTED)

    poller = Poller()
    task = Task(
        name="hunt3_poller2",
        target=poller,
        restart_after_reconnect=True,
        repeat_after=1,
    )
    xknx.task_registry.start_task(task)
    await time_travel(1)

    cm.connection_state_changed(XknxConnectionState.DISCONNECTED)
    await time_travel(2)
    started_while_disconnected = poller.started - 1
    cm.connection_state_changed(XknxConnectionState.CONNECTED)
    await time_travel(2)

    max_active = poller.max_active
    xknx.task_registry.stop()
    _kill("hunt3_poller2")
    with contextlib.suppress(asyncio.CancelledError):
        await asyncio.sleep(0)
    assert started_while_disconnected == 0 and max_active == 1, (
        f"one disconnect/reconnect cycle: target was started {started_while_disconnected}x "
        f"while disconnected by the 'cancelled' instance and afterwards {max_active} "
        "instances of the same registered task ran concurrently. The property requires the "
        "task not to run while disconnected, and exactly one instance after the reconnection"
    )
