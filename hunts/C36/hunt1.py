"""
C36 hunt 1 - a restart_after_reconnect task RUNS WHILE DISCONNECTED when it is
started (TaskRegistry.start_task / Task.restart) during a disconnected phase.

Property clause: "A task registered to restart after reconnection is not running
while disconnected and is started again once per reconnection".

Run: /venv/bin/python -m pytest -q -p no:cacheprovider hunt1.py
"""

import asyncio
from unittest.mock import AsyncMock, Mock, patch

from xknx import XKNX
from xknx.core import XknxConnectionState
from xknx.core.task_registry import Task
from xknx.devices import ExposeSensor


class ClockAdvancer:
    """Virtual time - same technique as test/conftest.py::EventLoopClockAdvancer."""

    def __init__(self) -> None:
        self.loop = asyncio.get_running_loop()
        self.offset = 0.0
        self._base_time = self.loop.time
        self.loop.time = self.time  # type: ignore[method-assign]

    def time(self) -> float:
        return self._base_time() + self.offset

    async def _exhaust(self) -> None:
        while self.loop._ready:  # type: ignore[attr-defined]
            await asyncio.sleep(0)

    async def __call__(self, seconds: float) -> None:
        await self._exhaust()
        if seconds > 0:
            self.offset += seconds
            await asyncio.sleep(0)
            await self._exhaust()


async def test_start_task_while_disconnected_runs_target() -> None:
    """start_task() in a disconnected phase: the target is executed without a connection."""
    time_travel = ClockAdvancer()
    xknx = XKNX()
    xknx.task_registry.start()
    cm = xknx.connection_manager

    runs_in_state: list[XknxConnectionState] = []

    def target() -> None:
        runs_in_state.append(cm.state)

    task = Task(
        name="periodic",
        target=target,
        restart_after_reconnect=True,
        wait_before_start=10,
        repeat_after=0,
    )

    # history: connected -> task started -> connection lost (task is cancelled: fine)
    cm.connection_state_changed(XknxConnectionState.CONNECTED)
    xknx.task_registry.start_task(task)
    await time_travel(10)
    assert runs_in_state == [XknxConnectionState.CONNECTED]
    cm.connection_state_changed(XknxConnectionState.DISCONNECTED)
    await time_travel(30)
    assert runs_in_state == [XknxConnectionState.CONNECTED]  # not running: as required
    assert task.done()

    # ... -> the (still registered) task is started again while the connection is down
    xknx.task_registry.start_task(task)
    await time_travel(30)

    xknx.task_registry.stop()
    disconnected_runs = [
        state for state in runs_in_state if state is not XknxConnectionState.CONNECTED
    ]
    assert not disconnected_runs, (
        f"task with restart_after_reconnect=True executed its target {len(disconnected_runs)}x "
        f"while the connection state was {disconnected_runs[0].value} (connected.is_set()="
        f"{cm.connected.is_set()}); the property requires that such a task is NOT running "
        "while disconnected and is only started (once) by the next reconnection"
    )


async def test_expose_sensor_added_while_disconnected_sends_periodically() -> None:
    """
    Realistic trigger: an ExposeSensor with periodic_send is added to a started XKNX
    while the tunnel is down -> Devices.async_add() -> async_start_tasks() -> start_task().

    (test/devices_tests/expose_sensor_test.py::test_periodic_send states the intent:
    "don't try to send without connection".)
    """
    time_travel = ClockAdvancer()

    interface = Mock()
    interface.start = AsyncMock()
    interface.stop = AsyncMock()
    interface.send_cemi = AsyncMock()
    interface.connection_config.threaded = False
    with patch("xknx.xknx.knx_interface_factory", return_value=interface):
        xknx = XKNX()
    xknx.cemi_handler = AsyncMock()  # network boundary
    await xknx.start()
    xknx.connection_manager.connection_state_changed(XknxConnectionState.CONNECTED)
    await time_travel(1)
    xknx.connection_manager.connection_state_changed(XknxConnectionState.DISCONNECTED)
    assert not xknx.connection_manager.connected.is_set()

    expose_sensor = ExposeSensor(
        xknx,
        "TestSensor",
        group_address="1/2/3",
        value_type="switch",
        periodic_send=10,
    )
    expose_sensor.initialize_value(True)
    xknx.devices.async_add(expose_sensor)  # xknx is started -> tasks are started

    await time_travel(10)
    await time_travel(10)
    sent = xknx.cemi_handler.send_telegram.call_count
    await xknx.stop()
    assert sent == 0, (
        f"the periodic_send task (restart_after_reconnect=True) ran and tried to send {sent} "
        "telegram(s) while XknxConnectionState was DISCONNECTED; the property requires a "
        "restart_after_reconnect task not to run while disconnected"
    )
