"""
C36 hunt 2: XKNX.stop() stops the task registry BEFORE the telegram queue is drained.

XKNX.stop():  devices.async_remove_device_tasks(); task_registry.stop(); ...; await join()
The telegrams still in the queue are processed after the registry was stopped; a device
that starts a task while processing (Switch / BinarySensor `reset_after`, BinarySensor
context, ExposeSensor cooldown) registers and starts it in the already stopped registry.
The task survives XKNX.stop(), is not connection-managed any more (the registry callback
is unregistered) and fires later into the stopped instance.
"""

import asyncio
from unittest.mock import AsyncMock, Mock, patch

import pytest

from xknx import XKNX
from xknx.core import XknxConnectionState
from xknx.core.task_registry import Task
from xknx.devices import Switch
from xknx.dpt import DPTBinary
from xknx.telegram import GroupAddress, Telegram, TelegramDirection
from xknx.telegram.apci import GroupValueWrite


def _xknx_no_interface() -> XKNX:
    mock = Mock()
    mock.start = AsyncMock()
    mock.stop = AsyncMock()
    mock.send_cemi = AsyncMock()
    with patch("xknx.xknx.knx_interface_factory", return_value=mock):
        return XKNX()


async def test_task_started_by_drained_telegram_survives_xknx_stop() -> None:
    """An incoming telegram queued right before stop() leaves a task running after stop()."""
    xknx = _xknx_no_interface()
    switch = Switch(xknx, "hunt2", group_address="1/2/3", reset_after=60)
    xknx.devices.async_add(switch)

    await xknx.start()
    xknx.connection_manager.connection_state_changed(XknxConnectionState.CONNECTED)
    await asyncio.sleep(0)

    # received from the bus right before the application shuts down
    xknx.telegrams.put_nowait(
        Telegram(
            destination_address=GroupAddress("1/2/3"),
            direction=TelegramDirection.INCOMING,
            payload=GroupValueWrite(DPTBinary(1)),
        )
    )
    await xknx.stop()
    xknx.connection_manager.connection_state_changed(XknxConnectionState.DISCONNECTED)
    for _ in range(5):
        await asyncio.sleep(0)

    assert switch.state is True  # the telegram was processed by stop() -> join()
    registered = [task.name for task in xknx.task_registry.tasks]
    running = [
        task.get_name()
        for task in asyncio.all_tasks()
        if task.get_name().startswith("switch.reset_") and not task.done()
    ]
    # cleanup
    for task in tuple(xknx.task_registry.tasks):
        xknx.task_registry.remove_task(task)
    await asyncio.sleep(0)

    assert not registered and not running, (
        f"after XKNX.stop() returned the task registry still holds {registered} and the "
        f"asyncio tasks {running} are running: XKNX.stop() stops the registry before it "
        f"drains the telegram queue, so Switch.process_group_write() started the "
        f"reset task in the stopped registry. The property requires that stopping the "
        f"registry leaves no task running."
    )


async def test_restart_after_reconnect_task_started_while_draining() -> None:
    """Same window, generic task: it keeps running while disconnected after stop()."""
    xknx = _xknx_no_interface()
    await xknx.start()
    xknx.connection_manager.connection_state_changed(XknxConnectionState.CONNECTED)
    await asyncio.sleep(0)  # the mocked interface config is "threaded" - state changes are queued
    assert xknx.connection_manager.connected.is_set()

    ticks: list[XknxConnectionState] = []

    def target() -> None:
        ticks.append(xknx.connection_manager.state)

    task = Task(
        name="hunt2.periodic",
        target=target,
        restart_after_reconnect=True,
        repeat_after=0,
    )

    def telegram_received(telegram: Telegram) -> None:
        # an application callback reacting on a telegram, eg. (re)arming a watchdog
        xknx.task_registry.start_task(task)

    xknx.telegram_queue.register_telegram_received_cb(telegram_received)
    xknx.telegrams.put_nowait(
        Telegram(
            destination_address=GroupAddress("1/2/3"),
            direction=TelegramDirection.INCOMING,
            payload=GroupValueWrite(DPTBinary(1)),
        )
    )
    await xknx.stop()
    # the interface is mocked - it would report the disconnect in knxip_interface.stop()
    xknx.connection_manager.connection_state_changed(XknxConnectionState.DISCONNECTED)
    await asyncio.sleep(0)
    assert xknx.connection_manager.state is XknxConnectionState.DISCONNECTED
    ticks.clear()
    for _ in range(5):
        await asyncio.sleep(0)
    disconnected_runs = len(ticks)
    still_running = not task.done()
    task.cancel()
    xknx.task_registry.tasks.discard(task)

    assert disconnected_runs == 0 and not still_running, (
        f"a restart_after_reconnect task started while XKNX.stop() drained the queue "
        f"ran its target {disconnected_runs} times in state DISCONNECTED after stop() "
        f"returned (still running: {still_running}). The property requires that such a "
        f"task is not running while disconnected and that stopping leaves no task running."
    )


if __name__ == "__main__":
    raise SystemExit(pytest.main(["-q", "-p", "no:cacheprovider", __file__]))
