"""C36 hunt 3: XKNX.start() retried after a failed start registers the registry callback twice."""

import asyncio
from unittest.mock import AsyncMock, patch

import pytest

from xknx import XKNX
from xknx.core import XknxConnectionState
from xknx.core.task_registry import Task
from xknx.exceptions import CommunicationError
from xknx.io.knxip_interface import KNXIPInterface


async def _xknx_started_on_second_attempt() -> XKNX:
    xknx = XKNX()
    with patch.object(
        KNXIPInterface, "start", AsyncMock(side_effect=CommunicationError("no gateway"))
    ):
        with pytest.raises(CommunicationError):
            await xknx.start()
    with patch.object(KNXIPInterface, "start", AsyncMock()):
        await xknx.start()  # the retry - network boundary mocked
    return xknx


async def test_started_once_per_reconnection() -> None:
    xknx = await _xknx_started_on_second_attempt()
    task = Task("t", AsyncMock(), restart_after_reconnect=True, repeat_after=1000)
    xknx.task_registry.start_task(task)  # deferred - not connected
    created: list[asyncio.Task[None]] = []
    real_create_task = asyncio.create_task

    def counting(*args, **kwargs):  # type: ignore[no-untyped-def]
        created.append(real_create_task(*args, **kwargs))
        return created[-1]

    with patch("xknx.core.task_registry.asyncio.create_task", side_effect=counting):
        xknx.connection_manager.connection_state_changed(XknxConnectionState.CONNECTED)
    await asyncio.sleep(0)
    with patch.object(KNXIPInterface, "stop", AsyncMock()):
        await xknx.stop()
    assert len(created) == 1, (
        f"observed: one reconnection started the task {len(created)} times "
        "(TaskRegistry.connection_state_changed_cb is registered twice after a "
        "failed and a retried XKNX.start()). C36 requires: started again once per "
        "reconnection."
    )


@pytest.mark.skipif(
    not hasattr(asyncio, "eager_task_factory"), reason="needs Python 3.12"
)
async def test_target_runs_once_per_reconnection_eager() -> None:
    loop = asyncio.get_running_loop()
    xknx = await _xknx_started_on_second_attempt()
    loop.set_task_factory(asyncio.eager_task_factory)
    try:
        target = AsyncMock()
        task = Task("t", target, restart_after_reconnect=True, repeat_after=1000)
        xknx.task_registry.start_task(task)
        xknx.connection_manager.connection_state_changed(XknxConnectionState.CONNECTED)
        await asyncio.sleep(0)
        calls = target.call_count
    finally:
        loop.set_task_factory(None)
    with patch.object(KNXIPInterface, "stop", AsyncMock()):
        await xknx.stop()
    assert calls == 1, (
        f"observed: target executed {calls} times for one reconnection. "
        "C36 requires: registered tasks never run twice / started once per reconnection."
    )
