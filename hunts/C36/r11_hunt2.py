"""C36 hunt 2: reconnection dispatch iterates the live task set; an eagerly started target that registers a task aborts it."""

import asyncio

import pytest

from xknx import XKNX
from xknx.core import XknxConnectionState
from xknx.core.task_registry import Task

pytestmark = pytest.mark.skipif(
    not hasattr(asyncio, "eager_task_factory"), reason="needs Python 3.12"
)


async def test_reconnect_restarts_every_task() -> None:
    loop = asyncio.get_running_loop()
    loop.set_task_factory(asyncio.eager_task_factory)
    try:
        xknx = XKNX()
        xknx.task_registry.start()
        helper = Task("helper", lambda: None, wait_before_start=1000)

        def target() -> None:
            # eg. `await expose_sensor.set(...)` with a cooldown does exactly this
            xknx.task_registry.start_task(helper)

        tasks = [
            Task(f"t{i}", target, restart_after_reconnect=True, repeat_after=1000)
            for i in range(3)
        ]
        for t in tasks:
            xknx.task_registry.start_task(t)  # deferred - not connected yet
        error: BaseException | None = None
        try:
            xknx.connection_manager.connection_state_changed(
                XknxConnectionState.CONNECTED
            )
        except RuntimeError as exc:
            error = exc
        not_running = [t.name for t in tasks if t.done()]
        xknx.task_registry.stop()
        assert error is None and not not_running, (
            f"observed: connection_state_changed(CONNECTED) raised {error!r}; "
            f"restart_after_reconnect tasks not running while connected: {not_running}. "
            "C36 requires: a task registered to restart after reconnection is started "
            "again once per reconnection."
        )
    finally:
        loop.set_task_factory(None)
