"""
C36 hunt 2 - a stopped TaskRegistry still accepts and runs tasks; XKNX.stop() itself
produces that history, so a task is running after the registry (and XKNX) was stopped.

Property clause: "stopping the registry leaves no task running".

Run: /venv/bin/python -m pytest -q -p no:cacheprovider hunt2.py
"""

import asyncio
from unittest.mock import AsyncMock, Mock, patch

from xknx import XKNX
from xknx.core import XknxConnectionState
from xknx.core.task_registry import Task
from xknx.devices import Switch
from xknx.dpt import DPTBinary
from xknx.telegram import GroupAddress, Telegram, TelegramDirection
from xknx.telegram.apci import GroupValueWrite


class ClockAdvancer:
    """Virtual time - same technique as test/conftest.py::EventLoopClockAdvancer."""

    def __init__(self) -> None:
        self.loop = asyncio.get_running_loop()
        self.offset = 0.0
        self._base_time = self.loop.time
        self.loop.time = self.time  # type: ignore[method-assign]

    def time(self) -> float:
        return self._base_time() + self.offset

    async def _exhaust(self) -> None:
        while self.loop._ready:  # type: ignore[attr-defined]
            await asyncio.sleep(0)

    async def __call__(self, seconds: float) -> None:
        await self._exhaust()
        if seconds > 0:
            self.offset += seconds
            await asyncio.sleep(0)
            await self._exhaust()


async def test_xknx_stop_with_queued_telegram_leaves_task_running() -> None:
    """
    History: XKNX running, one incoming GroupValueWrite(on) for a Switch(reset_after=5) is
    still in xknx.telegrams when XKNX.stop() is called.

    XKNX.stop(): async_remove_device_tasks(); task_registry.stop(); ...; await self.join()
    join() lets the telegram consumer process the queued telegram
      -> Switch.process_group_write() -> task_registry.start_task(reset_task)
    on the already stopped registry.
    """
    time_travel = ClockAdvancer()
    interface = Mock()
    interface.start = AsyncMock()
    interface.stop = AsyncMock()
    interface.send_cemi = AsyncMock()
    interface.connection_config.threaded = False
    with patch("xknx.xknx.knx_interface_factory", return_value=interface):
        xknx = XKNX()
    xknx.cemi_handler = AsyncMock()  # network boundary

    switch = Switch(xknx, "TestSwitch", group_address="1/1/1", reset_after=5)
    xknx.devices.async_add(switch)
    await xknx.start()
    xknx.connection_manager.connection_state_changed(XknxConnectionState.CONNECTED)

    # a telegram arrives from the bus right before the application shuts down
    xknx.telegrams.put_nowait(
        Telegram(
            destination_address=GroupAddress("1/1/1"),
            direction=TelegramDirection.INCOMING,
            payload=GroupValueWrite(DPTBinary(1)),
        )
    )
    await xknx.stop()
    assert not xknx.started.is_set()

    running = [task.name for task in xknx.task_registry.tasks if not task.done()]
    # let the leaked task fire to show the consequence
    await time_travel(5)
    leaked_telegrams = xknx.telegrams.qsize()

    assert not running, (
        f"after XKNX.stop() (which called TaskRegistry.stop()) the registry tracks "
        f"{len(running)} running task(s) {running}; 5 s later the leaked task fired and put "
        f"{leaked_telegrams} telegram(s) into the queue of the stopped XKNX instance. "
        "The property requires that stopping the registry leaves no task running"
    )


async def test_stopped_registry_runs_and_never_follows_connection() -> None:
    """Registry-only history: stop(); start_task(restart_after_reconnect task); connection lost."""
    time_travel = ClockAdvancer()
    xknx = XKNX()
    xknx.task_registry.start()
    xknx.connection_manager.connection_state_changed(XknxConnectionState.CONNECTED)
    xknx.task_registry.stop()

    calls: list[XknxConnectionState] = []
    task = Task(
        name="after_stop",
        target=lambda: calls.append(xknx.connection_manager.state),
        restart_after_reconnect=True,
        repeat_after=1,
    )
    xknx.task_registry.start_task(task)  # accepted by the stopped registry
    await time_travel(1)
    xknx.connection_manager.connection_state_changed(XknxConnectionState.DISCONNECTED)
    await time_travel(3)
    still_running = not task.done()
    task.cancel()
    assert not calls and not still_running, (
        f"a task started on a STOPPED registry ran {len(calls)}x (states: "
        f"{[s.value for s in calls]}), still_running={still_running} after the connection "
        "was lost - the stopped registry neither refuses the task nor follows the connection "
        "state any more. The property requires no task running after stop() and "
        "restart_after_reconnect tasks not running while disconnected"
    )
