"""
C15 hunt 2 - after a restart with a wall clock that is behind the previous run,
a sender reuses / undercuts sequence numbers it already used: every Data Secure
frame it sends is rejected by a receiver that holds the same key and knows it.

The sending sequence number of `DataSecure` is derived from `time.time()` alone
each time `CEMIHandler.data_secure_init()` runs (ie. on every `xknx.start()`) and
nothing of the previous run is kept. `time.time()` is not monotonic across
restarts: hosts without a battery backed RTC (Raspberry Pi - the typical Home
Assistant box) boot with the clock restored from a timestamp saved some time
before the power loss and are only corrected once NTP is reachable.

History (restart, clock fault between the runs):
  1. 12:00:00  xknx A starts (keyring -> DataSecure), sends 3 secured telegrams.
               xknx B (same keyring, A's address 5.0.1 in its Security Individual
               Address Table) receives, decrypts and delivers all of them.
  2. power loss; A boots with the clock restored to 11:30:00 and starts again:
               `data_secure_init()` -> fresh DataSecure, initial sequence number
               from the (stale) clock.
  3. A sends a secured telegram. B is still running.

Property C15: the frame secured by A is accepted by B and B delivers exactly the
original APDU, marked as Data Secure. Observed on the unchanged tree: B discards it
("Sequence number too low"), counts it as undecoded and delivers nothing - and so
for every following telegram for the next 30 minutes worth of milliseconds
(1.8 million frames), because the counter only advances by one per frame.

Only the clock and the network boundary (`knxip_interface.send_cemi`) are mocked.

Run: /venv/bin/python -m pytest -q -p no:cacheprovider hunt2.py
"""

from __future__ import annotations

from datetime import datetime
from pathlib import Path
from unittest.mock import AsyncMock, patch

from xknx import XKNX
from xknx.cemi import CEMIFrame
from xknx.dpt import DPTArray
from xknx.secure.keyring import sync_load_keyring
from xknx.telegram import (
    GroupAddress,
    IndividualAddress,
    Telegram,
    TelegramDirection,
    apci,
)

KEYRING = sync_load_keyring(
    Path(__file__).parent / "test/secure_tests/resources/SecureTest.knxkeys", "test"
)
SECURE_GA = GroupAddress("0/4/0")
ADDRESS_A = IndividualAddress("5.0.1")

FIRST_RUN = datetime.fromisoformat("2026-09-22T12:00:00+00:00").timestamp()
SECOND_RUN = datetime.fromisoformat("2026-09-22T11:30:00+00:00").timestamp()


def _sender(wire: list[bytes]) -> XKNX:
    """Return xknx A; frames it sends are captured as raw cEMI in `wire`."""
    xknx = XKNX()
    xknx.current_address = ADDRESS_A

    async def send_cemi(cemi: CEMIFrame) -> None:
        wire.append(cemi.to_knx())
        # the interface confirms the frame (L_Data.con)
        xknx.cemi_handler._l_data_confirmation_event.set()

    xknx.knxip_interface = AsyncMock()
    xknx.knxip_interface.send_cemi = send_cemi
    return xknx


def _deliver(receiver: XKNX, raw_req: bytes) -> Telegram | None:
    """Hand a frame A sent to B as L_Data.ind; return what B delivers."""
    assert raw_req[0] == 0x11  # L_Data.req as sent by A
    receiver.cemi_handler.handle_raw_cemi(b"\x29" + raw_req[1:])
    if receiver.telegrams.empty():
        return None
    telegram = receiver.telegrams.get_nowait()
    receiver.telegrams.task_done()
    return telegram


async def test_sender_restart_with_clock_behind_previous_run() -> None:
    """Frames of a restarted sender must still be accepted by a running receiver."""
    wire: list[bytes] = []

    xknx_b = XKNX()
    xknx_b.cemi_handler.data_secure_init(KEYRING)
    assert xknx_b.cemi_handler.data_secure is not None
    assert ADDRESS_A in xknx_b.cemi_handler.data_secure._individual_address_table

    # ---- first run of A - 12:00:00 ------------------------------------------
    xknx_a = _sender(wire)
    with patch("time.time", return_value=FIRST_RUN):
        # what KNXIPInterface._start() does on every xknx.start()
        xknx_a.cemi_handler.data_secure_init(KEYRING)
    for value in (1, 2, 3):
        payload = apci.GroupValueWrite(DPTArray((value, value)))
        telegram = Telegram(destination_address=SECURE_GA, payload=payload)
        await xknx_a.cemi_handler.send_telegram(telegram)
        assert telegram.data_secure is True
        delivered = _deliver(xknx_b, wire[-1])
        # sanity - the first run round-trips
        assert delivered is not None
        assert delivered.payload == payload
        assert delivered.data_secure is True
        assert delivered.source_address == ADDRESS_A
    assert xknx_b.connection_manager.undecoded_data_secure == 0

    # ---- A restarts; its clock was restored to 11:30:00 ---------------------
    xknx_a = _sender(wire)
    with patch("time.time", return_value=SECOND_RUN):
        xknx_a.cemi_handler.data_secure_init(KEYRING)

    payload = apci.GroupValueWrite(DPTArray((0x0C, 0x1A)))
    telegram = Telegram(destination_address=SECURE_GA, payload=payload)
    await xknx_a.cemi_handler.send_telegram(telegram)
    assert telegram.data_secure is True  # A did secure the frame

    delivered = _deliver(xknx_b, wire[-1])
    sent_sequence_number = int.from_bytes(wire[-1][12:18], "big")
    last_valid = xknx_b.cemi_handler.data_secure._individual_address_table[ADDRESS_A]
    assert delivered is not None, (
        "C15 violated: a frame secured by xknx A after its restart was NOT accepted by "
        "xknx B, which holds the same group key and knows A "
        f"({ADDRESS_A}): B delivered nothing and counted "
        f"{xknx_b.connection_manager.undecoded_data_secure} undecodable Data Secure "
        f"frame(s). The frame carries sequence number {sent_sequence_number}, B's last "
        f"valid one for A is {last_valid} - A derived its counter from a clock that is "
        "behind its previous run and kept nothing of that run. The property requires "
        f"the frame to be accepted and {payload} to be delivered, marked Data Secure."
    )
    assert delivered.direction is TelegramDirection.INCOMING
    assert delivered.payload == payload
    assert delivered.data_secure is True
