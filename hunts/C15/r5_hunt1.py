"""
C15 hunt 1 - a sender restarted with its persisted `last_sequence_number_sending`
secures its first frame with that very number again; the receiver rejects it.

History (restart / repeat-use):
  1. sender instance #1 secures a frame for a secured group address; the frame
     goes over the wire (real CEMI serialisation) and is accepted by a receiver
     that holds the same key and knows the sender. The sequence number N the
     frame carried is the "last sequence number sending" of instance #1.
  2. the sender is restarted: `DataSecure(..., last_sequence_number_sending=N)`.
  3. instance #2 secures its first frame.

Property C15 requires that the receiver accepts this frame too and delivers
exactly the original APDU, marked as Data Secure. Observed on the unchanged tree:
instance #2 uses N again, so the receiver raises
`DataSecureError("Sequence number too low ... N received, N last valid")`.

Run: /venv/bin/python -m pytest -q -p no:cacheprovider hunt1.py
"""

from __future__ import annotations

import os

import pytest

from xknx.cemi import CEMIFrame, CEMILData, CEMIMessageCode
from xknx.dpt import DPTArray
from xknx.exceptions import DataSecureError
from xknx.secure.data_secure import DataSecure, is_data_secure
from xknx.telegram import GroupAddress, IndividualAddress, Telegram, apci

KEY = os.urandom(16)
GA = GroupAddress("1/2/3")
SENDER = IndividualAddress("1.1.5")


def _over_the_wire(secured: CEMILData) -> CEMILData:
    """Serialise as the sender would and parse as the receiver would."""
    raw = CEMIFrame(code=CEMIMessageCode.L_DATA_IND, data=secured).to_knx()
    incoming = CEMIFrame.from_knx(raw)
    assert isinstance(incoming.data, CEMILData)
    return incoming.data


def _plain(payload: apci.APCI) -> CEMILData:
    return CEMILData.init_from_telegram(
        Telegram(destination_address=GA, payload=payload), src_addr=SENDER
    )


@pytest.mark.parametrize(
    "first_sequence_number", [1, 0x1234, 275004320494, 0xFFFFFFFFFFF0]
)
def test_restart_with_persisted_last_sequence_number(
    first_sequence_number: int,
) -> None:
    """The first frame after a restart must be accepted by the receiver."""
    receiver = DataSecure(
        group_key_table={GA: KEY},
        individual_address_table={SENDER: 0},
    )

    # --- sender instance #1 -------------------------------------------------
    sender_1 = DataSecure(
        group_key_table={GA: KEY},
        individual_address_table={},
        last_sequence_number_sending=first_sequence_number,
    )
    apdu_1 = apci.GroupValueWrite(DPTArray((1, 2, 3)))
    secured_1 = sender_1.outgoing_cemi(_plain(apdu_1))
    assert is_data_secure(secured_1)
    assert isinstance(secured_1.payload, apci.SecureAPDU)
    last_sequence_number_sent = int.from_bytes(
        secured_1.payload.secured_data.sequence_number_bytes, "big"
    )
    received_1 = receiver.received_cemi(_over_the_wire(secured_1))
    assert received_1.payload == apdu_1  # sanity: the first frame round-trips

    # --- restart: the last sequence number that was sent is handed back -----
    sender_2 = DataSecure(
        group_key_table={GA: KEY},
        individual_address_table={},
        last_sequence_number_sending=last_sequence_number_sent,
    )
    apdu_2 = apci.GroupValueWrite(DPTArray((4, 5, 6)))
    secured_2 = sender_2.outgoing_cemi(_plain(apdu_2))
    assert isinstance(secured_2.payload, apci.SecureAPDU)
    sequence_number_2 = int.from_bytes(
        secured_2.payload.secured_data.sequence_number_bytes, "big"
    )

    try:
        received_2 = receiver.received_cemi(_over_the_wire(secured_2))
    except DataSecureError as err:
        pytest.fail(
            "C15 violated: the first frame secured by a sender restarted with "
            f"last_sequence_number_sending={last_sequence_number_sent} carries sequence "
            f"number {sequence_number_2} - the one its predecessor already used - and "
            f"the receiver (same key, sender known) rejects it: {err}. "
            "The property requires the frame to be accepted and the original APDU "
            f"{apdu_2} to be delivered."
        )
    assert received_2.payload == apdu_2, (
        f"C15 violated: delivered {received_2.payload}, sent {apdu_2}"
    )
