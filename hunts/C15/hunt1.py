"""
C15 hunt 1 - Data Secure block B0 is built from a wrongly shifted TPCI.

`block_0()` computes the "TPCI | APCI_SEC high" octet as `(tpci_int << 2) + 0x03`, but
`TPCI.to_knx()` already returns the TPCI bits at their position in the first TPDU
octet (control << 7 | numbered << 6 | seq << 2). Only for a TPCI of 0 (T_Data_Group,
T_Data_Broadcast, T_Data_Individual) the result is right. For every other transport
PDU the value authenticated in B0 is not the octet that is put on the wire, and for
numbered TPDUs (T_Data_Connected) the value does not even fit an octet, so securing or
verifying such a frame raises a bare `ValueError`.

Run: /venv/bin/python -m pytest -q -p no:cacheprovider hunt1.py
"""

from __future__ import annotations

import os

import pytest

from xknx.cemi import CEMIFrame, CEMILData, CEMIMessageCode
from xknx.cemi.flags import CEMIAddressType, CEMIFrameFormat
from xknx.dpt import DPTArray
from xknx.secure.data_secure import DataSecure
from xknx.secure.data_secure_asdu import (
    SecureData,
    SecurityAlgorithmIdentifier,
    SecurityALService,
    SecurityControlField,
    block_0,
)
from xknx.telegram import GroupAddress, IndividualAddress, Telegram, apci, tpci

SRC = IndividualAddress("1.1.1")
GROUP_DST = GroupAddress("1/2/3")
INDIVIDUAL_DST = IndividualAddress("1.1.2")
KEY = bytes.fromhex("000102030405060708090a0b0c0d0e0f")
SEQUENCE_NUMBER = 0x0000_1234_5678

# every transport PDU that carries an APDU - and therefore can carry a secured APDU
DATA_TPCIS = [
    pytest.param(tpci.TDataGroup(), GROUP_DST, id="T_Data_Group"),
    pytest.param(tpci.TDataBroadcast(), GroupAddress(0), id="T_Data_Broadcast"),
    pytest.param(tpci.TDataTagGroup(), GROUP_DST, id="T_Data_Tag_Group"),
    pytest.param(tpci.TDataIndividual(), INDIVIDUAL_DST, id="T_Data_Individual"),
    pytest.param(tpci.TDataConnected(0), INDIVIDUAL_DST, id="T_Data_Connected-0"),
    pytest.param(tpci.TDataConnected(5), INDIVIDUAL_DST, id="T_Data_Connected-5"),
    pytest.param(tpci.TDataConnected(15), INDIVIDUAL_DST, id="T_Data_Connected-15"),
]
ALGORITHMS = [
    pytest.param(SecurityAlgorithmIdentifier.CCM_AUTHENTICATION, id="auth_only"),
    pytest.param(SecurityAlgorithmIdentifier.CCM_ENCRYPTION, id="auth_enc"),
]


def _scf(algorithm: SecurityAlgorithmIdentifier) -> SecurityControlField:
    return SecurityControlField(
        algorithm=algorithm,
        service=SecurityALService.S_A_DATA,
        system_broadcast=False,
        tool_access=False,
    )


def _address_type(dst: GroupAddress | IndividualAddress) -> CEMIAddressType:
    return (
        CEMIAddressType.GROUP
        if isinstance(dst, GroupAddress)
        else CEMIAddressType.INDIVIDUAL
    )


@pytest.mark.parametrize("algorithm", ALGORITHMS)
@pytest.mark.parametrize(("t_pci", "dst"), DATA_TPCIS)
def test_secured_apdu_round_trip_for_every_data_tpci(
    t_pci: tpci.TPCI,
    dst: GroupAddress | IndividualAddress,
    algorithm: SecurityAlgorithmIdentifier,
) -> None:
    """A secured APDU is verified / decrypted to what was sent - for every TPCI kind."""
    plain_apdu = bytes(apci.GroupValueWrite(DPTArray((1, 2, 3))).to_knx())
    scf = _scf(algorithm)
    common = {
        "key": KEY,
        "scf": scf,
        "address_fields_raw": SRC.to_knx() + dst.to_knx(),
        "address_type": _address_type(dst),
        "frame_format": CEMIFrameFormat.STANDARD,
        "tpci": t_pci,
    }
    try:
        secured = SecureData.init_from_plain_apdu(
            apdu=plain_apdu, sequence_number=SEQUENCE_NUMBER, **common
        )
        # over the wire representation of the A_Sec APDU and back
        received = apci.SecureAPDU.from_knx(
            bytes(apci.SecureAPDU(scf=scf, secured_data=secured).to_knx())
        )
        result = received.secured_data.get_plain_apdu(**common)
    except ValueError as err:
        pytest.fail(
            f"C15 requires a frame with transport PDU {t_pci} to be secured and accepted "
            f"delivering exactly the original APDU; observed: securing/verifying it "
            f"raised {err!r} (block_0 builds the TPCI octet from `tpci_int << 2`)"
        )
    assert result == plain_apdu, (
        f"C15 requires the original APDU {plain_apdu.hex()} for {t_pci}; "
        f"observed {result.hex()}"
    )


@pytest.mark.parametrize(("t_pci", "dst"), DATA_TPCIS)
def test_block_0_protects_the_tpdu_octets_that_are_sent(
    t_pci: tpci.TPCI, dst: GroupAddress | IndividualAddress
) -> None:
    """
    B0 octets 12-13 are the TPCI/APCI octets of the secured frame.

    KNX v02.01.01 - Application Layer 03.03.07 - §5.1.3.2 Figure 100 / AN158: B0 is
    `SeqNr(6) | SA(2) | DA(2) | 00 | AT+EFF | TPCI+APCI(2) | 00 | Q`, TPCI+APCI being the
    first two TPDU octets of the frame - `TPCI | 03h` and `F1h`. The reference is the
    library's own serialization of the very same frame.
    """
    # sender side, the way DataSecure.outgoing_cemi() does it for group addresses
    data_secure = DataSecure(
        group_key_table={dst: KEY} if isinstance(dst, GroupAddress) else {},
        individual_address_table={},
        last_sequence_number_sending=SEQUENCE_NUMBER,
    )
    plain = CEMILData.init_from_telegram(
        Telegram(
            destination_address=dst,
            source_address=SRC,
            tpci=t_pci,
            payload=apci.GroupValueWrite(DPTArray((1, 2, 3))),
        )
    )
    try:
        secured = data_secure._secure_data_cemi(
            key=KEY,
            scf=_scf(SecurityAlgorithmIdentifier.CCM_ENCRYPTION),
            cemi_data=plain,
        )
    except ValueError as err:
        pytest.fail(
            f"C15 requires a frame with transport PDU {t_pci} to be secured; observed: "
            f"DataSecure._secure_data_cemi() raised {err!r}"
        )
    raw = CEMIFrame(code=CEMIMessageCode.L_DATA_IND, data=secured).to_knx()
    tpdu_octets_on_the_wire = raw[2 + 7 : 2 + 9]  # msg code + add.info length + 7
    assert tpdu_octets_on_the_wire[1] == 0xF1
    assert tpdu_octets_on_the_wire[0] == t_pci.to_knx() | 0x03

    b_0 = block_0(
        sequence_number=SEQUENCE_NUMBER.to_bytes(6, "big"),
        address_fields_raw=SRC.to_knx() + dst.to_knx(),
        address_type=_address_type(dst),
        frame_format=CEMIFrameFormat.STANDARD,
        tpci_int=t_pci.to_knx(),
        payload_length=5,
    )
    assert b_0[12:14] == tpdu_octets_on_the_wire, (
        f"C15: the MAC must protect the transport PDU that is sent. For {t_pci} the "
        f"frame carries TPCI/APCI octets {tpdu_octets_on_the_wire.hex()} but block_0() "
        f"authenticates {b_0[12:14].hex()} - a frame of any conforming sender with "
        "this TPCI can never be verified (and the other way round)"
    )


if __name__ == "__main__":
    raise SystemExit(pytest.main(["-q", "-p", "no:cacheprovider", __file__]))
