"""C40 hunt 4 (numerical, low severity): the travel time has elapsed, the estimate is still one step short.

`calculate_travel_time` rounds twice (T * range, then / 100). For travel_time 2.3 s and a move 0 -> 10 the
computed remaining time 0.23 lies two floats above the exact value Fraction(2.3) * 10 / 100, so a clock
reading exists at which the exact travel time has elapsed but `now >= timestamp + remaining` is still false;
the progress quotient then is 0.9999999999999999 and `int()` cuts 9.999999999999998 down to 9.
Only observable with small clock values (monotonic-style clocks starting near 0), not with epoch seconds.
"""

from fractions import Fraction
from unittest.mock import patch

import xknx
from xknx.devices import TravelCalculator

assert xknx.__file__.startswith("/tmp/hunt_C40/"), xknx.__file__


def test_target_reached_when_exact_travel_time_elapsed() -> None:
    """Clock starts at 0.0; query at the first clock reading at which the exact travel time has elapsed."""
    travel_time = 2.3
    calc = TravelCalculator(travel_time, travel_time)
    with patch("time.time") as clock:
        clock.return_value = 0.0
        calc.set_position(0)
        calc.start_travel(10)
        exact_travel_time = Fraction(travel_time) * 10 / 100
        now = 0.22999999999999998
        assert Fraction(now) - Fraction(0.0) >= exact_travel_time  # elapsed, exactly
        clock.return_value = now
        observed = calc.current_position()
        assert observed == 10, (
            f"travel 0 -> 10 with travel time {travel_time} s needs exactly {float(exact_travel_time)!r} s; "
            f"{now!r} s have elapsed (>= the exact rational travel time): the property requires the estimate "
            f"to be the target 10; observed {observed}, position_reached={calc.position_reached()}"
        )
