"""
C40 hunt 2 - an UP/DOWN movement command from the bus that arrives while the cover is
on a positioned move in the SAME direction cancels the auto-stopper but leaves the
travel calculator on the old intermediate target.

Cover without a positioning group address (long + stop + position state), position 80
reported.  `set_position(30)` sends UP, starts the travel calculator towards 30 and arms
the auto-stopper (STOP after 12.5 s).  5 s later somebody presses the wall switch:
an UP telegram on the long group address.  `Cover.process_group_write`

* cancels the auto-stopper (`_cancel_auto_stopper()`), so no STOP is ever sent and the
  drive runs to the top, but
* skips `_start_position_update(position_open)` because `not self.is_opening()` is
  False - it never looks at WHERE the cover is opening to.

Property: for any sequence of movement commands the estimate moves monotonically
toward the target (of the last movement command: fully open = 0) and reaches it exactly
when the travel time has elapsed.  Observed: the estimate stops at 30 for good,
`is_traveling()` is False, and no STOP telegram was sent.

The mirrored history (set_position(70) from 20, then DOWN from the bus) fails the same
way; it is the second test.

Mocks: KNX/IP interface factory, CEMIHandler.send_telegram (network boundary) and
the clocks (time.time / loop.time).
"""

from __future__ import annotations

import asyncio
from collections.abc import AsyncIterator
import contextlib
from unittest.mock import AsyncMock, Mock, patch

from xknx import XKNX
from xknx.devices import Cover
from xknx.dpt import DPTArray, DPTBinary
from xknx.telegram import GroupAddress, Telegram, TelegramDirection
from xknx.telegram.apci import GroupValueWrite

WALL_BASE = 1_700_000_000.0


class Clock:
    """Drive loop.time() and time.time() together (wall clock is exactly BASE + offset)."""

    def __init__(self) -> None:
        self.loop = asyncio.get_running_loop()
        self.offset = 0.0
        self._base = self.loop.time
        self.loop.time = self.loop_time  # type: ignore[method-assign]

    def loop_time(self) -> float:
        return self._base() + self.offset

    def wall(self) -> float:
        return WALL_BASE + self.offset

    async def settle(self) -> None:
        for _ in range(3):
            while self.loop._ready:  # type: ignore[attr-defined]
                await asyncio.sleep(0)
            await asyncio.sleep(0)

    async def advance(self, seconds: float) -> None:
        await self.settle()
        if seconds > 0:
            self.offset += seconds
            await asyncio.sleep(0)
            await self.settle()


@contextlib.asynccontextmanager
async def started_xknx(send_latency: float = 0.0) -> AsyncIterator[tuple[XKNX, Clock, list]]:
    """XKNX with running telegram queue; only the network boundary is mocked."""
    clock = Clock()
    sent: list[Telegram] = []
    iface = Mock()
    iface.start = AsyncMock()
    iface.stop = AsyncMock()
    iface.send_cemi = AsyncMock()

    async def fake_send(_self: object, telegram: Telegram) -> None:
        if send_latency:
            await asyncio.sleep(send_latency)
        sent.append(telegram)

    with (
        patch("xknx.xknx.knx_interface_factory", return_value=iface),
        patch("xknx.cemi.cemi_handler.CEMIHandler.send_telegram", new=fake_send),
        patch("time.time", side_effect=clock.wall),
    ):
        xknx = XKNX()
        async with xknx:
            yield xknx, clock, sent


def incoming(xknx: XKNX, address: str, payload: DPTArray | DPTBinary) -> None:
    xknx.telegrams.put_nowait(
        Telegram(
            destination_address=GroupAddress(address),
            direction=TelegramDirection.INCOMING,
            payload=GroupValueWrite(payload),
        )
    )


def make_cover(xknx: XKNX) -> Cover:
    cover = Cover(
        xknx,
        "hunt2",
        group_address_long="1/2/1",
        group_address_stop="1/2/2",
        group_address_position_state="1/2/4",
        sync_state=False,
        travel_time_down=25,
        travel_time_up=25,
    )
    xknx.devices.async_add(cover)
    return cover


async def _run(start_raw: int, start: int, via: int, end: int, bus_value: int) -> None:
    async with started_xknx() as (xknx, clock, sent):
        cover = make_cover(xknx)
        incoming(xknx, "1/2/4", DPTArray(start_raw))
        await clock.settle()
        assert cover.current_position() == start

        await cover.set_position(via)  # positioned move, 12.5 s, auto-stopper armed
        await clock.advance(5)
        at_command = cover.current_position()
        assert at_command == start + (via - start) * 2 // 5  # 5 s of 12.5 s

        # wall switch: long telegram in the direction the cover is already moving
        incoming(xknx, "1/2/1", DPTBinary(bus_value))
        await clock.settle()

        samples: list[tuple[float, int | None]] = []
        for _ in range(80):  # 40 s > full travel time
            await clock.advance(0.5)
            samples.append((round(clock.offset, 1), cover.current_position()))

        stops_sent = [t for t in sent if str(t.destination_address) == "1/2/2"]
        final = samples[-1][1]
        assert final == end, (
            f"history: report {start}, set_position({via}), 5 s later a bus telegram "
            f"{'UP' if end == 0 else 'DOWN'} on the long address (estimate then {at_command}). "
            f"The property requires the estimate to move on toward the commanded end "
            f"position {end} and to reach it once the travel time has elapsed; observed: "
            f"the estimate rests at {final} (is_traveling={cover.is_traveling()}, travel "
            f"calculator target {cover.travelcalculator._travel_to_position}) although the "
            f"auto-stopper was cancelled - STOP telegrams sent: {len(stops_sent)}, so the "
            f"drive runs on to {end}."
        )


async def test_bus_up_during_positioned_move_up() -> None:
    await _run(start_raw=204, start=80, via=30, end=0, bus_value=0)


async def test_bus_down_during_positioned_move_down() -> None:
    await _run(start_raw=51, start=20, via=70, end=100, bus_value=1)
