"""
C40 hunt 1 - the cover's own UP/DOWN telegram, echoed back by the telegram queue,
restarts the travel calculator towards the END position when the short positioned
move it belongs to is already estimated as finished.

Cover without a positioning group address (long + stop + position state).
`Cover.set_position(p)` sends UP/DOWN, starts the travel calculator towards p and arms
the auto-stopper.  The telegram queue hands the outgoing telegram back to
`Cover.process_group_write` after it was sent.  That method starts a *full* travel
(`position_open` / `position_closed`) whenever `not is_opening()` / `not is_closing()`
- which is also true when the estimate of the short move has already arrived:

* test_one_percent_up: a move one position unit UP (51 -> 50).  `int()` truncation in
  TravelCalculator._calculate_position makes the estimate equal the target as soon as
  the clock advanced at all (int(51 - eps) == 50), so the echo - processed a fraction
  of a millisecond later - always finds `is_opening() == False` and retargets to 0.
* test_slow_send_down: a 2 % move DOWN (0.5 s) whose telegram needs 0.6 s to be
  confirmed by the interface (busy bus / retransmission).

Property: the estimate is an integer between the last known position and the target,
moves monotonically toward the target and reaches it exactly when the travel time has
elapsed.  Observed: the estimate leaves the [last known, target] interval and comes to
rest beyond the target.

Mocks: KNX/IP interface factory, CEMIHandler.send_telegram (network boundary) and
the clocks (time.time / loop.time).
"""

from __future__ import annotations

import asyncio
from collections.abc import AsyncIterator
import contextlib
from unittest.mock import AsyncMock, Mock, patch

from xknx import XKNX
from xknx.devices import Cover
from xknx.dpt import DPTArray
from xknx.telegram import GroupAddress, Telegram, TelegramDirection
from xknx.telegram.apci import GroupValueWrite

WALL_BASE = 1_700_000_000.0


class Clock:
    """Drive loop.time() and time.time() together (wall clock is exactly BASE + offset)."""

    def __init__(self) -> None:
        self.loop = asyncio.get_running_loop()
        self.offset = 0.0
        self._base = self.loop.time
        self.loop.time = self.loop_time  # type: ignore[method-assign]

    def loop_time(self) -> float:
        return self._base() + self.offset

    def wall(self) -> float:
        return WALL_BASE + self.offset

    async def settle(self) -> None:
        for _ in range(3):
            while self.loop._ready:  # type: ignore[attr-defined]
                await asyncio.sleep(0)
            await asyncio.sleep(0)

    async def advance(self, seconds: float) -> None:
        await self.settle()
        if seconds > 0:
            self.offset += seconds
            await asyncio.sleep(0)
            await self.settle()


@contextlib.asynccontextmanager
async def started_xknx(send_latency: float = 0.0) -> AsyncIterator[tuple[XKNX, Clock, list]]:
    """XKNX with running telegram queue; only the network boundary is mocked."""
    clock = Clock()
    sent: list[Telegram] = []
    iface = Mock()
    iface.start = AsyncMock()
    iface.stop = AsyncMock()
    iface.send_cemi = AsyncMock()

    async def fake_send(_self: object, telegram: Telegram) -> None:
        if send_latency:
            await asyncio.sleep(send_latency)
        sent.append(telegram)

    with (
        patch("xknx.xknx.knx_interface_factory", return_value=iface),
        patch("xknx.cemi.cemi_handler.CEMIHandler.send_telegram", new=fake_send),
        patch("time.time", side_effect=clock.wall),
    ):
        xknx = XKNX()
        async with xknx:
            yield xknx, clock, sent


def state_report(xknx: XKNX, raw: int) -> None:
    xknx.telegrams.put_nowait(
        Telegram(
            destination_address=GroupAddress("1/2/4"),
            direction=TelegramDirection.INCOMING,
            payload=GroupValueWrite(DPTArray(raw)),
        )
    )


def make_cover(xknx: XKNX) -> Cover:
    cover = Cover(
        xknx,
        "hunt1",
        group_address_long="1/2/1",
        group_address_stop="1/2/2",
        group_address_position_state="1/2/4",
        sync_state=False,
        travel_time_down=25,
        travel_time_up=25,
    )
    xknx.devices.async_add(cover)
    return cover


async def test_one_percent_up() -> None:
    async with started_xknx() as (xknx, clock, sent):
        cover = make_cover(xknx)
        state_report(xknx, 130)  # 130/255 -> 51 %
        await clock.settle()
        assert cover.current_position() == 51

        await cover.set_position(50)  # 1 % UP = 0.25 s of travel
        samples: list[tuple[float, int | None]] = []
        # The telegram queue task sends the UP telegram and echoes it to the device in a
        # later loop iteration: any real clock has advanced by then (here: 0.1 ms).
        clock.offset += 0.0001
        await clock.settle()
        samples.append((clock.offset, cover.current_position()))
        target_after_echo = cover.travelcalculator._travel_to_position
        for _ in range(40):  # 2 s in 50 ms steps; auto-stop is due after 0.25 s
            await clock.advance(0.05)
            samples.append((round(clock.offset, 4), cover.current_position()))

        outside = [(t, p) for t, p in samples if p is None or not 50 <= p <= 51]
        assert not outside and samples[-1][1] == 50, (
            "set_position(50) from the reported position 51: the property requires every "
            "estimate to stay between the last known position 51 and the target 50 and to "
            f"rest at 50; observed estimates outside [50, 51]: {outside[:6]}, final "
            f"estimate {samples[-1][1]} (0.1 ms after the command the travel calculator "
            f"target was {target_after_echo!r}: overwritten by the cover's own echoed UP "
            f"telegram; telegrams sent: {[str(t.destination_address) for t in sent]})"
        )


async def test_slow_send_down() -> None:
    async with started_xknx(send_latency=0.6) as (xknx, clock, sent):
        cover = make_cover(xknx)
        state_report(xknx, 128)  # 128/255 -> 50 %
        await clock.settle()
        assert cover.current_position() == 50

        await cover.set_position(52)  # 2 % DOWN = 0.5 s of travel; send needs 0.6 s
        samples: list[tuple[float, int | None]] = []
        for _ in range(60):
            await clock.advance(0.05)
            samples.append((round(clock.offset, 4), cover.current_position()))

        outside = [(t, p) for t, p in samples if p is None or not 50 <= p <= 52]
        assert not outside and samples[-1][1] == 52, (
            "set_position(52) from the reported position 50: the property requires every "
            "estimate to stay between 50 and the target 52 and to rest at 52; observed "
            f"estimates outside [50, 52]: {outside[:6]}, final estimate {samples[-1][1]}"
        )
