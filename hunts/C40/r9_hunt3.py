"""C40 hunt 3: a position report past the target (in travel direction) is discarded, the estimate snaps to the target.

History (Cover with position + position-state addresses, travel time 25 s both ways, mocked clock):
  t0     state report 0 %            -> position 0, idle
  t0     target position 50 %        -> travelling down toward 50 (12.5 s)
  t0+4   state report 70 %           -> the actuator says the cover is at 70 (e.g. local push button took over)
"""

import asyncio
from unittest.mock import patch

import xknx
from xknx import XKNX
from xknx.devices import Cover
from xknx.dpt import DPTArray
from xknx.telegram import GroupAddress, Telegram
from xknx.telegram.apci import GroupValueWrite

assert xknx.__file__.startswith("/tmp/hunt_C40/"), xknx.__file__

T0 = 1580000000.0


def test_report_past_the_target_is_not_discarded() -> None:
    """After a report the estimate starts at the reported position and needs the travel time to the target."""

    async def scenario() -> list[tuple[float, int | None, bool]]:
        xknx_ = XKNX()
        cover = Cover(
            xknx_,
            "c",
            group_address_long="1/2/1",
            group_address_stop="1/2/2",
            group_address_position="1/2/3",
            group_address_position_state="1/2/4",
            travel_time_down=25,
            travel_time_up=25,
        )
        seen = []
        with patch("time.time") as clock:
            clock.return_value = T0
            cover.process(
                Telegram(GroupAddress("1/2/4"), payload=GroupValueWrite(DPTArray(0)))
            )
            cover.process(
                Telegram(GroupAddress("1/2/3"), payload=GroupValueWrite(DPTArray(128)))
            )
            assert cover.travelcalculator._travel_to_position == 50
            clock.return_value = T0 + 4
            assert cover.current_position() == 16
            assert cover.is_traveling()
            cover.process(
                Telegram(GroupAddress("1/2/4"), payload=GroupValueWrite(DPTArray(179)))
            )
            assert cover.position_current.value == 70
            for elapsed in (0.0, 0.0001, 2.5, 4.9, 5.0):
                clock.return_value = T0 + 4 + elapsed
                seen.append((elapsed, cover.current_position(), cover.is_traveling()))
        cover.async_remove_tasks()
        return seen

    seen = asyncio.run(scenario())
    # 70 -> 50 upward: 20 steps * 0.25 s = 5 s
    assert seen[0][1] == 70 and seen[-2][1] != 50 and seen[-1][1] == 50, (
        "report 70 while travelling toward 50, travel time for 70 -> 50 is 5 s: the property requires the "
        "estimate to start at the last known position (70), move monotonically toward 50 and be 50 exactly "
        f"from 5 s on; observed (elapsed, estimate, is_traveling) = {seen} - the reported position never "
        "shows, the estimate is at the target with 0 s elapsed"
    )
