"""C40 hunt 1: a position report that differs from the target after a confirming one freezes the estimate.

History (TravelCalculator, travel time 25 s both ways, mocked clock):
  t0      set_position(0); start_travel(100)
  t0+10   update_position(100)   # actuator reports the target (arrived early / reports its target)
  t0+12   update_position(90)    # a corrected report
  t0+12+k query
"""

from unittest.mock import patch

import xknx
from xknx.devices import TravelCalculator

assert xknx.__file__.startswith("/tmp/hunt_C40/"), xknx.__file__

T0 = 1580000000.0


def test_report_after_confirming_report_still_reaches_target() -> None:
    """The estimate has to reach the target once the travel time has elapsed."""
    calc = TravelCalculator(25, 25)
    with patch("time.time") as clock:
        clock.return_value = T0
        calc.set_position(0)
        calc.start_travel(100)
        clock.return_value = T0 + 10
        calc.update_position(100)
        assert calc.current_position() == 100
        clock.return_value = T0 + 12
        calc.update_position(90)
        assert calc.current_position() == 90
        # 10 steps down at 25 s / 100 steps = 2.5 s
        seen = []
        for elapsed in (1.0, 2.5, 3.0, 60.0, 86400.0):
            clock.return_value = T0 + 12 + elapsed
            seen.append((elapsed, calc.current_position(), calc.is_traveling()))
        assert seen[-1][1] == 100 and not seen[-1][2], (
            "last known position 90, target 100, travel time for the rest 2.5 s: "
            "the property requires the estimate to move toward the target and to be 100 "
            f"from 2.5 s on; observed (elapsed, estimate, is_traveling) = {seen} - "
            "the estimate is frozen at 90 and the calculator 'travels' forever"
        )


def test_same_history_without_the_confirming_report_behaves() -> None:
    """Control: without the confirming report the very same report is followed by travel."""
    calc = TravelCalculator(25, 25)
    with patch("time.time") as clock:
        clock.return_value = T0
        calc.set_position(0)
        calc.start_travel(100)
        clock.return_value = T0 + 12
        calc.update_position(90)
        clock.return_value = T0 + 12 + 2.5
        assert calc.current_position() == 100
        assert not calc.is_traveling()
