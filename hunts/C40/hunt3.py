"""
C40 hunt 3 - a position report that lies beyond the target (relative to the direction the
travel was started in) is thrown away: the estimate snaps to the target at once.

Cover with positioning + position-state group addresses, travel time 25 s, position 0
reported.  `set_position(50)` -> travel DOWN, 12.5 s.  After 5 s (estimate 20) the
actuator reports 60 % (faster drive than configured / moved by another channel).
`Cover._current_position_from_rv` calls `TravelCalculator.update_position(60)`; that
stores 60 as last known position but keeps `travel_direction == DIRECTION_DOWN`, and
`_calculate_position.position_reached_or_exceeded` then answers "reached" because
target - last_known <= 0 while the (stale) direction is DOWN.

Property: the estimate is between the last known position and the target, moves
monotonically toward the target and reaches it exactly when the travel time has
elapsed.  The last known position is 60, the target 50, the way back takes 2.5 s: at
the clock reading of the report the estimate must be 60, one second later 56.
Observed: 50 at the very clock reading of the report, and `is_traveling()` False.
Because `stop()`/`start_travel()` then take the estimate (50) as new origin, the report
is lost for good: a follow-up command set_position(55) half a second later lets the
estimate run DOWN 50 -> 55 (is_closing) although a cover that reported 60 half a second
ago has to move UP - the estimate is outside [55, 60] all the time (second test).

Mocks: KNX/IP interface factory, CEMIHandler.send_telegram (network boundary) and
the clocks (time.time / loop.time).
"""

from __future__ import annotations

import asyncio
from collections.abc import AsyncIterator
import contextlib
from unittest.mock import AsyncMock, Mock, patch

from xknx import XKNX
from xknx.devices import Cover
from xknx.dpt import DPTArray, DPTBinary
from xknx.telegram import GroupAddress, Telegram, TelegramDirection
from xknx.telegram.apci import GroupValueWrite

WALL_BASE = 1_700_000_000.0


class Clock:
    """Drive loop.time() and time.time() together (wall clock is exactly BASE + offset)."""

    def __init__(self) -> None:
        self.loop = asyncio.get_running_loop()
        self.offset = 0.0
        self._base = self.loop.time
        self.loop.time = self.loop_time  # type: ignore[method-assign]

    def loop_time(self) -> float:
        return self._base() + self.offset

    def wall(self) -> float:
        return WALL_BASE + self.offset

    async def settle(self) -> None:
        for _ in range(3):
            while self.loop._ready:  # type: ignore[attr-defined]
                await asyncio.sleep(0)
            await asyncio.sleep(0)

    async def advance(self, seconds: float) -> None:
        await self.settle()
        if seconds > 0:
            self.offset += seconds
            await asyncio.sleep(0)
            await self.settle()


@contextlib.asynccontextmanager
async def started_xknx(send_latency: float = 0.0) -> AsyncIterator[tuple[XKNX, Clock, list]]:
    """XKNX with running telegram queue; only the network boundary is mocked."""
    clock = Clock()
    sent: list[Telegram] = []
    iface = Mock()
    iface.start = AsyncMock()
    iface.stop = AsyncMock()
    iface.send_cemi = AsyncMock()

    async def fake_send(_self: object, telegram: Telegram) -> None:
        if send_latency:
            await asyncio.sleep(send_latency)
        sent.append(telegram)

    with (
        patch("xknx.xknx.knx_interface_factory", return_value=iface),
        patch("xknx.cemi.cemi_handler.CEMIHandler.send_telegram", new=fake_send),
        patch("time.time", side_effect=clock.wall),
    ):
        xknx = XKNX()
        async with xknx:
            yield xknx, clock, sent


def incoming(xknx: XKNX, address: str, payload: DPTArray | DPTBinary) -> None:
    xknx.telegrams.put_nowait(
        Telegram(
            destination_address=GroupAddress(address),
            direction=TelegramDirection.INCOMING,
            payload=GroupValueWrite(payload),
        )
    )


def make_cover(xknx: XKNX) -> Cover:
    cover = Cover(
        xknx,
        "hunt3",
        group_address_long="1/2/1",
        group_address_position="1/2/3",
        group_address_position_state="1/2/4",
        sync_state=False,
        travel_time_down=25,
        travel_time_up=25,
    )
    xknx.devices.async_add(cover)
    return cover


async def _until_report(xknx: XKNX, clock: Clock) -> Cover:
    cover = make_cover(xknx)
    incoming(xknx, "1/2/4", DPTArray(0))
    await clock.settle()
    assert cover.current_position() == 0
    await cover.set_position(50)
    await clock.advance(5)
    assert cover.current_position() == 20
    assert cover.is_closing()
    incoming(xknx, "1/2/4", DPTArray(153))  # 153/255 -> 60 %
    await clock.settle()  # processed at the same clock reading
    return cover


async def test_report_beyond_target_is_dropped() -> None:
    async with started_xknx() as (xknx, clock, _sent):
        cover = await _until_report(xknx, clock)
        at_report = cover.current_position()
        traveling_at_report = cover.is_traveling()
        await clock.advance(1)
        after_1s = cover.current_position()
        await clock.advance(1.5)
        after_2s5 = cover.current_position()
        assert (at_report, after_1s, after_2s5) == (60, 56, 50), (
            "travel 0 -> 50 (DOWN), after 5 s the actuator reports 60. With last known "
            "position 60, target 50 and 25 s travel time the property requires the estimate "
            "60 at the clock reading of the report, 56 one second later and 50 after 2.5 s; "
            f"observed {at_report} / {after_1s} / {after_2s5}, is_traveling() right after "
            f"the report: {traveling_at_report} (last known position in the travel "
            f"calculator: {cover.travelcalculator._last_known_position}, direction "
            f"{cover.travelcalculator.travel_direction.name})"
        )


async def test_follow_up_move_starts_from_the_wrong_side() -> None:
    async with started_xknx() as (xknx, clock, _sent):
        cover = await _until_report(xknx, clock)
        await clock.advance(0.5)  # 0.5 s after the report: 60 -> 50 would need 2.5 s
        await cover.set_position(55)
        await clock.settle()
        samples: list[tuple[float, int | None, str]] = []
        for _ in range(6):
            samples.append(
                (
                    round(clock.offset, 2),
                    cover.current_position(),
                    "closing" if cover.is_closing() else "opening" if cover.is_opening() else "-",
                )
            )
            await clock.advance(0.25)
        outside = [x for x in samples if x[1] is None or not 55 <= x[1] <= 60 or x[2] == "closing"]
        assert not outside, (
            "report 60 (target 50), 0.5 s later set_position(55): the cover is between 60 and "
            "50 on its way up, so the property requires every estimate between 60 and the new "
            "target 55, moving up; observed (clock, estimate, direction): "
            f"{samples}"
        )
