"""
C40 hunt 4 - `Cover.set_position(p)` is silently dropped when p equals the momentary
estimate of a cover that is MOVING: the estimate keeps running away from the commanded
target.

Cover without a positioning group address (long + stop + position state), travel time
25 s, position 0 reported.

* test_target_equals_estimate_while_moving: `set_down()`; 12.5 s later the estimate is
  50 and the user asks for exactly that: `set_position(50)`.
* test_second_command_in_same_instant: `set_position(40)` immediately followed by
  `set_position(0)` (user changed his mind; the estimate is still 0).

`Cover.set_position` compares p only with `travelcalculator.current_position()`:

    if position < current_position: up
    elif position > current_position: down
    else:
        return  # already in position

The `else` branch neither stops the drive nor touches the travel calculator, although
the cover is not "in position" but passing through it.

Property: for any sequence of movement commands the estimate is between the last known
position and the target (of the last command) and moves monotonically toward it.
Observed: after set_position(50) at estimate 50 the estimate runs on 51, 52, ... 100
(no STOP telegram is sent, so the drive does the same); after set_position(40);
set_position(0) it runs 0 -> 40 and rests there.

Mocks: KNX/IP interface factory, CEMIHandler.send_telegram (network boundary) and
the clocks (time.time / loop.time).
"""

from __future__ import annotations

import asyncio
from collections.abc import AsyncIterator
import contextlib
from unittest.mock import AsyncMock, Mock, patch

from xknx import XKNX
from xknx.devices import Cover
from xknx.dpt import DPTArray, DPTBinary
from xknx.telegram import GroupAddress, Telegram, TelegramDirection
from xknx.telegram.apci import GroupValueWrite

WALL_BASE = 1_700_000_000.0


class Clock:
    """Drive loop.time() and time.time() together (wall clock is exactly BASE + offset)."""

    def __init__(self) -> None:
        self.loop = asyncio.get_running_loop()
        self.offset = 0.0
        self._base = self.loop.time
        self.loop.time = self.loop_time  # type: ignore[method-assign]

    def loop_time(self) -> float:
        return self._base() + self.offset

    def wall(self) -> float:
        return WALL_BASE + self.offset

    async def settle(self) -> None:
        for _ in range(3):
            while self.loop._ready:  # type: ignore[attr-defined]
                await asyncio.sleep(0)
            await asyncio.sleep(0)

    async def advance(self, seconds: float) -> None:
        await self.settle()
        if seconds > 0:
            self.offset += seconds
            await asyncio.sleep(0)
            await self.settle()


@contextlib.asynccontextmanager
async def started_xknx(send_latency: float = 0.0) -> AsyncIterator[tuple[XKNX, Clock, list]]:
    """XKNX with running telegram queue; only the network boundary is mocked."""
    clock = Clock()
    sent: list[Telegram] = []
    iface = Mock()
    iface.start = AsyncMock()
    iface.stop = AsyncMock()
    iface.send_cemi = AsyncMock()

    async def fake_send(_self: object, telegram: Telegram) -> None:
        if send_latency:
            await asyncio.sleep(send_latency)
        sent.append(telegram)

    with (
        patch("xknx.xknx.knx_interface_factory", return_value=iface),
        patch("xknx.cemi.cemi_handler.CEMIHandler.send_telegram", new=fake_send),
        patch("time.time", side_effect=clock.wall),
    ):
        xknx = XKNX()
        async with xknx:
            yield xknx, clock, sent


def incoming(xknx: XKNX, address: str, payload: DPTArray | DPTBinary) -> None:
    xknx.telegrams.put_nowait(
        Telegram(
            destination_address=GroupAddress(address),
            direction=TelegramDirection.INCOMING,
            payload=GroupValueWrite(payload),
        )
    )


def make_cover(xknx: XKNX) -> Cover:
    cover = Cover(
        xknx,
        "hunt4",
        group_address_long="1/2/1",
        group_address_stop="1/2/2",
        group_address_position_state="1/2/4",
        sync_state=False,
        travel_time_down=25,
        travel_time_up=25,
    )
    xknx.devices.async_add(cover)
    return cover


async def test_target_equals_estimate_while_moving() -> None:
    async with started_xknx() as (xknx, clock, sent):
        cover = make_cover(xknx)
        incoming(xknx, "1/2/4", DPTArray(0))
        await clock.settle()
        assert cover.current_position() == 0

        await cover.set_down()
        await clock.advance(12.5)
        assert cover.current_position() == 50
        assert cover.is_closing()
        n_sent = len(sent)

        await cover.set_position(50)  # "stay where you are now"
        await clock.settle()
        samples: list[tuple[float, int | None]] = []
        for _ in range(30):
            await clock.advance(0.5)
            samples.append((round(clock.offset, 1), cover.current_position()))

        outside = [x for x in samples if x[1] != 50]
        assert not outside, (
            "set_down() from 0, 12.5 s later (estimate 50, closing) set_position(50): last "
            "known position and target are both 50, so the property requires the estimate "
            f"to stay 50; observed it running away from the target: {outside[:4]} ... "
            f"{outside[-1]}; telegrams sent for the command: "
            f"{[str(t.destination_address) for t in sent[n_sent:]]} (none - the drive is "
            "not stopped either)"
        )


async def test_second_command_in_same_instant() -> None:
    async with started_xknx() as (xknx, clock, sent):
        cover = make_cover(xknx)
        incoming(xknx, "1/2/4", DPTArray(0))
        await clock.settle()
        assert cover.current_position() == 0

        await cover.set_position(40)
        await cover.set_position(0)  # changed his mind - same clock reading
        await clock.settle()
        samples: list[tuple[float, int | None]] = []
        for _ in range(30):
            await clock.advance(0.5)
            samples.append((round(clock.offset, 1), cover.current_position()))

        outside = [x for x in samples if x[1] != 0]
        assert not outside, (
            "report 0, set_position(40) and at the same clock reading set_position(0): the "
            "target of the last movement command is 0 = last known position, so the "
            f"property requires the estimate to stay 0; observed {outside[:3]} ... "
            f"{outside[-1]}; telegrams sent: {[str(t.destination_address) for t in sent]}"
        )
