"""C40 hunt 2: on upward travel the estimate reaches the target before the travel time has elapsed.

`int()` truncates toward zero, i.e. toward the open end. Downward the estimate is the floor of the exact
position (target reached exactly at the end), upward it is one step ahead from the first instant on and
is at the target up to travel_time_up/100 seconds too early. Restarted upward moves accumulate the step.
"""

import asyncio
from fractions import Fraction
from unittest.mock import patch

import xknx
from xknx import XKNX
from xknx.devices import Cover, TravelCalculator

assert xknx.__file__.startswith("/tmp/hunt_C40/"), xknx.__file__

T0 = 1580000000.0


def test_up_travel_reaches_target_before_travel_time_elapsed() -> None:
    """100 -> 0 with travel_time_up = 25 s must not be at 0 after 24.8 s."""
    calc = TravelCalculator(25, 25)
    with patch("time.time") as clock:
        clock.return_value = T0
        calc.set_position(100)
        calc.start_travel_up()
        clock.return_value = T0 + 24.8
        exact = Fraction(100) - 100 * Fraction(248, 250)
        observed = (calc.current_position(), calc.position_reached(), calc.is_open())
        assert observed == (1, False, False), (
            f"travel 100 -> 0, travel time 25 s, 24.8 s elapsed, exact position {float(exact)}: "
            "the property requires the target to be reached exactly when the travel time has elapsed; "
            f"observed (estimate, position_reached, is_open) = {observed} 0.2 s early"
        )


def test_down_travel_control() -> None:
    """Control: the mirrored downward move is not at the target early."""
    calc = TravelCalculator(25, 25)
    with patch("time.time") as clock:
        clock.return_value = T0
        calc.set_position(0)
        calc.start_travel_down()
        clock.return_value = T0 + 24.8
        assert calc.current_position() == 99
        assert not calc.position_reached()
        clock.return_value = T0 + 25
        assert calc.current_position() == 100


def test_repeated_up_commands_walk_the_estimate() -> None:
    """100 `up` telegrams from the bus, 1 ms apart, move the estimate from 100 to 0 within 0.1 s."""

    async def scenario() -> tuple[int | None, bool]:
        from xknx.dpt import DPTBinary
        from xknx.telegram import GroupAddress, Telegram
        from xknx.telegram.apci import GroupValueWrite

        xknx_ = XKNX()
        cover = Cover(
            xknx_,
            "c",
            group_address_long="1/2/1",
            group_address_stop="1/2/2",
            travel_time_down=25,
            travel_time_up=25,
        )
        with patch("time.time") as clock:
            clock.return_value = T0
            cover.travelcalculator.set_position(100)
            for i in range(100):
                clock.return_value = T0 + i * 0.001
                cover.process(
                    Telegram(
                        destination_address=GroupAddress("1/2/1"),
                        payload=GroupValueWrite(DPTBinary(0)),  # up
                    )
                )
            clock.return_value = T0 + 0.1
            result = (cover.current_position(), cover.is_open())
        cover.async_remove_tasks()
        return result

    position, is_open = asyncio.run(scenario())
    assert position is not None and position >= 99 and not is_open, (
        "cover at 100, travel_time_up 25 s, `up` repeated 100 times within 0.1 s (0.4 % of the way): "
        "the property requires the estimate to reach 0 only after the travel time; "
        f"observed estimate {position}, is_open={is_open}"
    )
