"""
C18 hunt 1 - a plain frame to a secured group address is not reported to every key-issue callback.

Property clause: "A plain (unsecured) data frame to a group address that has a Data
Secure key is never delivered to devices or telegram callbacks, only reported to the
key-issue callbacks".

`TelegramQueue.received_data_secure_group_key_issue()` iterates the live list
`_data_secure_group_key_issue_cbs`. A key-issue callback that unregisters itself (the
unregister function handed out by `register_data_secure_group_key_issue_cb()` invites
exactly this one-shot pattern) shifts the list under the iterator:

* the callback registered right behind it is skipped - the discarded plain frame is
  never reported to it;
* a callback that re-arms itself (unregister + register) is handed the very same frame
  twice inside one `handle_raw_cemi()` call while the one behind it gets nothing.

The sibling list `telegram_received_cbs` is iterated over a copy since
"fix: call every matching telegram callback when one of them unregisters itself".
"""

from __future__ import annotations

import logging
from unittest.mock import AsyncMock

from xknx import XKNX
from xknx.secure.data_secure import DataSecure
from xknx.telegram import GroupAddress, IndividualAddress, Telegram
from xknx.telegram.apci import GroupValueWrite

KEY = bytes(range(16))
SECURE_GA = GroupAddress("1/2/3")
SENDER = IndividualAddress("1.1.5")

# L_Data.ind, standard frame, 1.1.5 -> 1/2/3, T_Data_Group, plain GroupValueWrite DPT9 0c3f
PLAIN_FRAME_TO_SECURE_GA = bytes.fromhex("2900bce011050a03030080 0c3f")


def _xknx() -> XKNX:
    xknx = XKNX()
    xknx.knxip_interface = AsyncMock()
    xknx.current_address = IndividualAddress("5.0.1")
    # the real DataSecure class, keyed for SECURE_GA only
    xknx.cemi_handler.data_secure = DataSecure(
        group_key_table={SECURE_GA: KEY},
        individual_address_table={SENDER: 0},
        last_sequence_number_sending=1,
    )
    return xknx


async def test_plain_frame_reported_to_every_key_issue_cb() -> None:
    """A one-shot key-issue callback must not hide the frame from the next callback."""
    logging.disable(logging.CRITICAL)
    xknx = _xknx()

    delivered: list[Telegram] = []
    xknx.telegram_queue.register_telegram_received_cb(delivered.append)

    seen_one_shot: list[Telegram] = []
    seen_monitor: list[Telegram] = []

    def one_shot(telegram: Telegram) -> None:
        seen_one_shot.append(telegram)
        unregister_one_shot()  # "tell me about the first key issue only"

    unregister_one_shot = xknx.telegram_queue.register_data_secure_group_key_issue_cb(
        one_shot
    )
    xknx.telegram_queue.register_data_secure_group_key_issue_cb(seen_monitor.append)

    xknx.cemi_handler.handle_raw_cemi(PLAIN_FRAME_TO_SECURE_GA)

    # sanity: the frame was recognised as a plain frame to a keyed address and dropped
    assert xknx.connection_manager.undecoded_data_secure == 1
    assert xknx.telegrams.empty() and not delivered
    assert len(seen_one_shot) == 1
    assert isinstance(seen_one_shot[0].payload, GroupValueWrite)
    assert seen_one_shot[0].data_secure is False

    assert len(seen_monitor) == 1, (
        "C18 violated: a plain GroupValueWrite to the Data Secure group address "
        f"{SECURE_GA} was discarded, but of the 2 registered key-issue callbacks only "
        f"the self-unregistering one was called; the second one saw {len(seen_monitor)} "
        "reports. The property requires the discarded plain frame to be reported to "
        "the key-issue callbacks (all of them) - "
        "TelegramQueue.received_data_secure_group_key_issue iterates the live list."
    )


async def test_rearming_key_issue_cb_gets_one_report_per_frame() -> None:
    """A key-issue callback that re-arms itself must see one frame once."""
    logging.disable(logging.CRITICAL)
    xknx = _xknx()
    calls: list[Telegram] = []
    seen_monitor: list[Telegram] = []

    def rearming(telegram: Telegram) -> None:
        calls.append(telegram)
        # drop the current registration and register anew (eg. to move to the end)
        xknx.telegram_queue.unregister_data_secure_group_key_issue_cb(rearming)
        xknx.telegram_queue.register_data_secure_group_key_issue_cb(rearming)

    xknx.telegram_queue.register_data_secure_group_key_issue_cb(rearming)
    xknx.telegram_queue.register_data_secure_group_key_issue_cb(seen_monitor.append)

    xknx.cemi_handler.handle_raw_cemi(PLAIN_FRAME_TO_SECURE_GA)  # ONE frame

    assert xknx.connection_manager.undecoded_data_secure == 1
    assert (len(calls), len(seen_monitor)) == (1, 1), (
        "C18 violated: ONE plain frame to the Data Secure group address "
        f"{SECURE_GA} was reported {len(calls)} times to the re-arming key-issue "
        f"callback and {len(seen_monitor)} times to the callback registered behind it "
        "within a single handle_raw_cemi() call. The property requires the discarded "
        "frame to be reported to the key-issue callbacks - once to each."
    )
