"""Demo (not a failing test): threaded interface - the L_Data.con is processed on the main loop BEFORE send_cemi() returns there; a send starting in between clears it. Prints the observed order."""
import asyncio, logging, time
from unittest.mock import Mock, patch
from xknx import XKNX
from xknx.cemi import CEMIMessageCode
from xknx.cemi.cemi_handler import CEMIHandler
from xknx.io import ConnectionConfig, ConnectionType
from xknx.io.transport.udp_transport import UDPTransport
from xknx.dpt import DPTArray
from xknx.telegram import GroupAddress, IndividualAddress, Telegram, apci, tpci
from xknx.exceptions import ConfirmationError

sent = []

async def fake_connect(self):
    sock = Mock()
    sock.sendto = lambda data, addr=None: sent.append(data)
    self.transport = sock
    self.local_addr_assigned = ("127.0.0.1", 55555)


async def main():
    loop = asyncio.get_running_loop()
    events = []
    with patch.object(UDPTransport, "connect", fake_connect):
        xknx = XKNX(connection_config=ConnectionConfig(connection_type=ConnectionType.ROUTING, local_ip="127.0.0.1", threaded=True))
        await xknx.start()
        real = CEMIHandler.handle_cemi_frame
        btask = []
        tgB = Telegram(destination_address=GroupAddress("1/2/4"), payload=apci.GroupValueWrite(DPTArray((2,))))

        def spy(self, cemi):
            real(self, cemi)
            if cemi.code is CEMIMessageCode.L_DATA_CON and not btask:
                events.append("con A handled")
                btask.append(asyncio.create_task(xknx.cemi_handler.send_telegram(tgB)))

        with patch.object(CEMIHandler, "handle_cemi_frame", spy):
            tgA = Telegram(destination_address=GroupAddress("1/2/3"), payload=apci.GroupValueWrite(DPTArray((1,))))
            t0 = time.monotonic()
            real_send = xknx.knxip_interface.__class__.send_cemi
            async def spy_send(self, cemi):
                events.append(("send_cemi called", cemi.data.dst_addr))
                try:
                    return await real_send(self, cemi)
                finally:
                    events.append(("send_cemi returned", cemi.data.dst_addr, xknx.cemi_handler._l_data_confirmation_event.is_set()))
            p = patch.object(xknx.knxip_interface.__class__, "send_cemi", spy_send); p.start()
            try:
                await xknx.cemi_handler.send_telegram(tgA)
                print("A ok", time.monotonic() - t0)
            except ConfirmationError as e:
                print("A FAILED", time.monotonic() - t0, str(e)[:80])
            await btask[0]
            print("B ok")
        print(events); print(len(sent), xknx.connection_manager.cemi_count_outgoing, xknx.connection_manager.cemi_count_outgoing_error)
        await xknx.stop()

asyncio.run(main())
