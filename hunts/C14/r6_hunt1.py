"""
C14 hunt 1: one L_Data.con frame completes TWO concurrent sends (false success).

CEMIHandler keeps a single `_l_data_confirmation_event` for all sends in flight and
`send_telegram()` is not serialised. The TelegramQueue sender and Management
(P2P connect / T_ACK / T_Disconnect background tasks, management procedures) call
it concurrently. A single received confirmation frame then reaches two consumers;
the second send is reported successful although no confirmation for it ever arrives.

Real XKNX, TelegramQueue, CEMIHandler, Management, KNXIPInterface, UDPTunnel.
Mocked: only the UDP socket (`sendto`) and the loop clock.
"""

from __future__ import annotations

import asyncio

from hunt_c14_harness import OWN_IA, Clock, Wire, spin

from xknx.cemi import CEMIMessageCode
from xknx.dpt import DPTArray
from xknx.exceptions import ManagementConnectionError
from xknx.telegram import GroupAddress, IndividualAddress, Telegram, apci, tpci

DEVICE = IndividualAddress("1.1.5")


async def _result(task: asyncio.Task) -> str:
    """Describe the outcome of a finished-or-not task."""
    if not task.done():
        return "still pending"
    if task.exception() is not None:
        return f"raised {type(task.exception()).__name__}"
    return "completed successfully"


async def test_one_confirmation_completes_two_sends() -> None:
    """Usual frame order (ack, then con). Group telegram + management.connect()."""
    clock = Clock()
    w = Wire()
    xknx = w.xknx
    await xknx.telegram_queue.start()

    # A: a group telegram leaves through the real TelegramQueue
    xknx.telegrams.put_nowait(
        Telegram(
            destination_address=GroupAddress("1/2/3"),
            payload=apci.GroupValueWrite(DPTArray((1,))),
        )
    )
    await spin()
    req_a = w.sent_requests()[0]
    w.gw_ack_pending()  # KNXnet/IP level ack only
    await spin()

    # B: the application opens a management connection meanwhile
    connect_task = asyncio.create_task(xknx.management.connect(DEVICE))
    await spin()
    w.gw_ack_pending()  # unchanged tree: B's T_Connect is on the wire already
    await spin()
    assert xknx.connection_manager.cemi_count_outgoing == 0
    assert not connect_task.done()

    # the gateway confirms A - and only A. Nothing is ever confirmed for B
    w.gw_confirm(req_a)
    await spin()
    completed_after_one_con = xknx.connection_manager.cemi_count_outgoing
    w.gw_ack_pending()  # (a serialising fix transmits B only now)
    await spin()
    cemi_b = w.sent_cemis()[1]
    assert cemi_b.code is CEMIMessageCode.L_DATA_REQ
    assert isinstance(cemi_b.data.tpci, tpci.TConnect)
    await clock.advance(3.1)  # REQUEST_TO_CONFIRMATION_TIMEOUT for B elapses
    outcome_b = await _result(connect_task)

    if connect_task.done() and connect_task.exception() is None:
        # clean up the fake connection before asserting
        xknx.management._connections.pop(DEVICE, None)
    await xknx.telegram_queue.stop()
    for task in list(xknx.task_registry._background_task):
        task.cancel()

    b_failed_properly = connect_task.done() and isinstance(
        connect_task.exception(), ManagementConnectionError
    )
    assert completed_after_one_con == 1 and b_failed_properly, (
        f"{completed_after_one_con} sends were counted as confirmed after exactly ONE "
        "L_Data.con frame (the one of the group telegram) was received, and "
        f"management.connect() {outcome_b} although no L_Data.con for its T_Connect "
        "ever arrived. The property requires a received confirmation to reach exactly "
        "the right consumer, once, and the unconfirmed send to fail with a "
        "confirmation error within the confirmation timeout "
        "(-> ManagementConnectionError from connect())."
    )


async def test_send_completes_on_confirmation_received_before_it_was_transmitted() -> (
    None
):
    """
    The confirmation arrives while B still queues on the tunnel's send lock.

    A's L_Data.con overtakes A's TunnellingAck (UDP datagrams are not ordered).
    B (T_Disconnect answering a foreign T_Connect, sent by Management in the
    background) has cleared the event before and is not on the wire yet.
    """
    clock = Clock()
    w = Wire()
    xknx = w.xknx

    task_a = asyncio.create_task(
        xknx.cemi_handler.send_telegram(
            Telegram(
                destination_address=GroupAddress("1/2/3"),
                payload=apci.GroupValueWrite(DPTArray((1,))),
            )
        )
    )
    await spin()
    req_a = w.sent_requests()[0]

    # ETS line scan: T_Connect to our address -> Management answers T_Disconnect
    w.gw_indication(
        Telegram(
            destination_address=OWN_IA,
            source_address=IndividualAddress("1.0.250"),
            tpci=tpci.TConnect(),
        )
    )
    await spin()
    (task_b,) = tuple(xknx.task_registry._background_task)
    assert len(w.sent_requests()) == 1, "B must still wait for the tunnel's send lock"

    w.gw_confirm(req_a)  # the only confirmation frame of this test
    await spin()
    n_requests_when_con_arrived = len(w.sent_requests())
    w.gw_ack_pending()
    await spin()
    assert task_a.done() and task_a.exception() is None  # fine: A was confirmed

    assert len(w.sent_requests()) == 2  # B is transmitted only now
    w.gw_ack_pending()
    await spin()
    await clock.advance(3.1)
    outcome_b = await _result(task_b)
    if not task_b.done():
        task_b.cancel()

    assert n_requests_when_con_arrived == 1
    assert task_b.done() and task_b.exception() is not None, (
        f"The T_Disconnect send {outcome_b} (cemi_count_outgoing="
        f"{xknx.connection_manager.cemi_count_outgoing}) although the only L_Data.con "
        "frame was received BEFORE its TunnellingRequest was put on the wire and none "
        "arrived afterwards. The property requires a send to complete only after a "
        "confirmation that arrived after the frame was handed to the interface, and "
        "to fail with ConfirmationError within the confirmation timeout otherwise."
    )
