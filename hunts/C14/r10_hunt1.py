"""
C14 hunt 1 - a confirmed send fails with ConfirmationError.

A concurrent send_telegram() (here: the T_ACK Management.process() sends in the
background for a received T_Data_Connected frame) clears the one shared
`_l_data_confirmation_event` while another send is still inside
`await knxip_interface.send_cemi()` - and wipes out the L_Data.con that already
arrived for that send.

Real XKNX, CEMIHandler, Management, KNXIPInterface and UDPTunnel - only
UDPTransport.send (the socket) is mocked, the clock is advanced by hand.
"""

import asyncio
from unittest.mock import Mock, patch

from xknx import XKNX
from xknx.cemi import CEMIFrame, CEMILData, CEMIMessageCode
from xknx.dpt import DPTArray
from xknx.exceptions import ConfirmationError
from xknx.io import UDPTunnel
from xknx.knxip import HPAI, KNXIPFrame, TunnellingAck, TunnellingRequest
from xknx.telegram import GroupAddress, IndividualAddress, Telegram, apci, tpci

OWN_IA = IndividualAddress("1.0.255")
PEER_IA = IndividualAddress("1.1.5")


class Clock:
    """Advance loop time by hand (same idea as test/conftest.py time_travel)."""

    def __init__(self) -> None:
        self.loop = asyncio.get_running_loop()
        self.offset = 0.0
        self._base = self.loop.time
        self.loop.time = lambda: self._base() + self.offset  # type: ignore[method-assign]

    async def _exhaust(self) -> None:
        while self.loop._ready:  # type: ignore[attr-defined]
            await asyncio.sleep(0)

    async def __call__(self, seconds: float) -> None:
        await self._exhaust()
        if seconds > 0:
            self.offset += seconds
            await asyncio.sleep(0)
            await self._exhaust()


def setup() -> tuple[XKNX, UDPTunnel]:
    xknx = XKNX()
    tunnel = UDPTunnel(
        xknx,
        gateway_ip="192.168.1.2",
        gateway_port=3671,
        local_ip="192.168.1.1",
        local_port=0,
        cemi_received_callback=xknx.knxip_interface.cemi_received,
        auto_reconnect=False,
        auto_reconnect_wait=3,
        route_back=False,
    )
    xknx.knxip_interface._interface = tunnel  # a connected tunnel
    tunnel.transport.transport = Mock()
    tunnel.communication_channel = 1
    tunnel._src_address = OWN_IA
    xknx.current_address = OWN_IA
    return xknx, tunnel


def gateway_sends(tunnel: UDPTunnel, code: CEMIMessageCode, telegram: Telegram) -> None:
    """Gateway -> xknx: a cEMI frame in a TUNNELLING_REQUEST with the next sequence counter."""
    cemi = CEMIFrame(code=code, data=CEMILData.init_from_telegram(telegram))
    frame = KNXIPFrame.init_from_body(
        TunnellingRequest(
            communication_channel_id=1,
            sequence_counter=tunnel._sequence.expected,
            raw_cemi=cemi.to_knx(),
        )
    )
    tunnel.transport.handle_knxipframe(frame, HPAI())


def gateway_acks(tunnel: UDPTunnel, sequence_counter: int) -> None:
    tunnel.transport.handle_knxipframe(
        KNXIPFrame.init_from_body(TunnellingAck(sequence_counter=sequence_counter)),
        HPAI(),
    )


def sent_requests(mock_send: Mock) -> list[TunnellingRequest]:
    return [
        c.args[0].body
        for c in mock_send.call_args_list
        if isinstance(c.args[0].body, TunnellingRequest)
    ]


@patch("xknx.io.transport.udp_transport.UDPTransport.send")
async def test_confirmed_send_fails_because_concurrent_send_cleared_the_event(
    mock_send: Mock,
) -> None:
    clock = Clock()
    xknx, tunnel = setup()

    telegram_a = Telegram(
        destination_address=GroupAddress("1/2/3"),
        source_address=OWN_IA,
        payload=apci.GroupValueWrite(DPTArray((1,))),
    )
    # t=0: send A - handed to the interface, TUNNELLING_REQUEST #0 is on the wire
    task_a = asyncio.create_task(xknx.cemi_handler.send_telegram(telegram_a))
    await clock(0)
    assert [r.sequence_counter for r in sent_requests(mock_send)] == [0]
    # the gateways TUNNELLING_ACK #0 is lost (UDP) - the tunnel waits 1 s to repeat

    # t=0.1: the gateway has put A on the bus and confirms: L_Data.con for A
    await clock(0.1)
    gateway_sends(tunnel, CEMIMessageCode.L_DATA_CON, telegram_a)
    await clock(0)
    confirmations_after_a_was_handed_over = 1

    # t=0.2: a device sends numbered data to us -> Management.process() sends a
    # T_ACK in the background -> CEMIHandler.send_telegram() -> event.clear()
    await clock(0.1)
    gateway_sends(
        tunnel,
        CEMIMessageCode.L_DATA_IND,
        Telegram(
            destination_address=OWN_IA,
            source_address=PEER_IA,
            tpci=tpci.TDataConnected(sequence_number=0),
            payload=apci.DeviceDescriptorRead(descriptor=0),
        ),
    )
    await clock(0)

    # t=1: TUNNELLING_REQUEST #0 is repeated, this time the ACK gets through
    await clock(0.9)
    assert [r.sequence_counter for r in sent_requests(mock_send)] == [0, 0]
    gateway_acks(tunnel, 0)
    await clock(0)
    # now the T_ACK gets the tunnel: TUNNELLING_REQUEST #1 - acknowledged
    assert [r.sequence_counter for r in sent_requests(mock_send)] == [0, 0, 1]
    gateway_acks(tunnel, 1)
    await clock(0)
    # no further L_Data.con arrives (the T_ACK's confirmation is lost / late)

    await clock(3.5)
    assert task_a.done()
    error = task_a.exception()
    assert not isinstance(error, ConfirmationError), (
        f"observed: send of {telegram_a} failed with {error!r} "
        f"(cemi_count_outgoing={xknx.connection_manager.cemi_count_outgoing}, "
        f"cemi_count_outgoing_error={xknx.connection_manager.cemi_count_outgoing_error}) "
        f"although {confirmations_after_a_was_handed_over} L_Data.con arrived after the "
        "frame was handed to the interface - the property requires the send to complete "
        "once a confirmation arrived after the hand-over and to fail with a confirmation "
        "error only otherwise. The background T_ACK's send_telegram() cleared the shared "
        "confirmation event while A was still suspended in `await send_cemi()`."
    )
    assert error is None
