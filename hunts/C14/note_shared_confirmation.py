"""
C14 - OBSERVATION, not claimed as a defect under the literal property text.

Two concurrent senders (the telegram queue and a management T_ACK background task are
concurrent in the real library) share CEMIHandler._l_data_confirmation_event.  On a UDP
tunnel whose TUNNELLING_ACK for frame A is lost (the case the 1 s repetition exists for),
the single L_Data.con for A completes BOTH sends; send B completes although no
confirmation arrived after frame B left through the tunnel - the only confirmation was
received ~1 s before frame B was put on the wire (but after B's
`knxip_interface.send_cemi()` call, which is why the literal text "after the frame was
handed to the interface" is arguably still satisfied).

Run: /venv/bin/python -m pytest -q -p no:cacheprovider note_shared_confirmation.py
"""

import asyncio
from unittest.mock import Mock, patch

from xknx import XKNX
from xknx.cemi import CEMIFrame, CEMILData, CEMIMessageCode
from xknx.dpt import DPTArray
from xknx.io import UDPTunnel
from xknx.knxip import HPAI, KNXIPFrame, TunnellingAck, TunnellingRequest
from xknx.telegram import GroupAddress, IndividualAddress, Telegram, tpci
from xknx.telegram.apci import GroupValueWrite


async def test_one_confirmation_completes_two_sends() -> None:
    xknx = XKNX()
    tunnel = UDPTunnel(
        xknx,
        gateway_ip="192.168.1.2",
        gateway_port=3671,
        local_ip="192.168.1.1",
        local_port=0,
        cemi_received_callback=xknx.knxip_interface.cemi_received,
        auto_reconnect=False,
        route_back=False,
    )
    xknx.knxip_interface._interface = tunnel  # noqa: SLF001
    tunnel.transport.transport = Mock()
    tunnel.communication_channel = 1
    loop = asyncio.get_running_loop()
    wire: list[tuple[float, KNXIPFrame]] = []
    events: list[tuple[float, str]] = []
    t0 = loop.time()

    def gateway(frame: KNXIPFrame) -> None:
        tunnel.transport.handle_knxipframe(frame, HPAI())

    with patch(
        "xknx.io.transport.udp_transport.UDPTransport.send",
        side_effect=lambda f, addr=None: wire.append((loop.time() - t0, f)),
    ):
        tg_a = Telegram(
            destination_address=GroupAddress(1),
            payload=GroupValueWrite(DPTArray((1,))),
        )
        tg_b = Telegram(destination_address=IndividualAddress("1.1.5"), tpci=tpci.TAck(0))

        async def send(name: str, telegram: Telegram) -> None:
            try:
                await xknx.cemi_handler.send_telegram(telegram)
                events.append((loop.time() - t0, f"{name} completed"))
            except Exception as exc:  # noqa: BLE001
                events.append((loop.time() - t0, f"{name} failed {exc!r}"))

        task_a = asyncio.create_task(send("A", tg_a))
        await asyncio.sleep(0.01)
        task_b = asyncio.create_task(send("B", tg_b))  # blocks on the tunnel send lock
        await asyncio.sleep(0.04)
        # gateway got A, its TUNNELLING_ACK is lost, the L_Data.con(A) arrives
        con_a = CEMIFrame(
            code=CEMIMessageCode.L_DATA_CON,
            data=CEMILData.init_from_telegram(tg_a, src_addr=IndividualAddress("1.1.250")),
        )
        gateway(
            KNXIPFrame.init_from_body(
                TunnellingRequest(
                    communication_channel_id=1, sequence_counter=0, raw_cemi=con_a.to_knx()
                )
            )
        )
        events.append((loop.time() - t0, "L_Data.con(A) received"))
        await asyncio.sleep(1.0)  # xknx repeats TunnellingRequest(A) after 1 s
        gateway(
            KNXIPFrame.init_from_body(
                TunnellingAck(communication_channel_id=1, sequence_counter=0)
            )
        )
        await asyncio.sleep(0.01)
        gateway(
            KNXIPFrame.init_from_body(
                TunnellingAck(communication_channel_id=1, sequence_counter=1)
            )
        )
        await asyncio.sleep(0.05)  # no L_Data.con(B) is ever delivered

    b_on_wire = [
        t
        for t, f in wire
        if isinstance(f.body, TunnellingRequest) and f.body.sequence_counter == 1
    ]
    con_time = next(t for t, e in events if e.startswith("L_Data.con(A)"))
    b_done = [t for t, e in events if e == "B completed"]
    for task in (task_a, task_b):
        task.cancel()
    assert not (b_done and b_on_wire and con_time < b_on_wire[0]), (
        "send B completed without any confirmation frame arriving after frame B was put "
        f"on the wire: the only L_Data.con arrived at t={con_time:.2f}s, frame B left the "
        f"tunnel at t={b_on_wire[0]:.2f}s, B completed at t={b_done[0]:.2f}s; events={events}"
    )
