"""
C14 hunt 2: a received group-addressed T_Data_Tag_Group data frame is handed to
Management (and from there into an open point-to-point connection) although it is
neither a broadcast nor addressed to this interface - and it never reaches the
telegram queue.

Run: /venv/bin/python -m pytest -q -p no:cacheprovider hunt2.py
"""

import asyncio
from unittest.mock import AsyncMock, patch

from xknx import XKNX
from xknx.cemi import CEMIFrame, CEMILData, CEMIMessageCode
from xknx.dpt import DPTArray
from xknx.exceptions import ManagementConnectionError
from xknx.telegram import GroupAddress, IndividualAddress, Telegram, apci, tpci

OWN = IndividualAddress("1.1.250")
DEVICE = IndividualAddress("1.1.5")

# L_Data.ind from 1.1.5 to group address 1/2/3, TPCI 0b000001xx = T_Data_Tag_Group,
# APCI GroupValueWrite, 1 octet value 0x01
RAW_TAG_GROUP_IND = bytes.fromhex("2900bce011050a0302048001")


def _make_xknx() -> XKNX:
    """XKNX with the real CEMIHandler / Management; only the IP interface is mocked."""
    xknx = XKNX()
    xknx.current_address = OWN

    async def send_cemi(cemi: CEMIFrame) -> None:
        con = CEMIFrame(code=CEMIMessageCode.L_DATA_CON, data=cemi.data)
        asyncio.get_running_loop().call_soon(
            xknx.cemi_handler.handle_raw_cemi, con.to_knx()
        )

    xknx.knxip_interface = AsyncMock()
    xknx.knxip_interface.send_cemi.side_effect = send_cemi
    return xknx


def _ind(telegram: Telegram) -> bytes:
    return CEMIFrame(
        code=CEMIMessageCode.L_DATA_IND,
        data=CEMILData.init_from_telegram(telegram),
    ).to_knx()


def test_raw_frame_is_what_we_think_it_is() -> None:
    """Sanity: the raw frame parses to a group addressed tag-group data frame."""
    cemi = CEMIFrame.from_knx(RAW_TAG_GROUP_IND)
    assert cemi.code is CEMIMessageCode.L_DATA_IND
    assert cemi.data.dst_addr == GroupAddress("1/2/3")
    assert isinstance(cemi.data.tpci, tpci.TDataTagGroup)
    assert cemi.data.payload == apci.GroupValueWrite(DPTArray((1,)))


def test_tag_group_frame_routing() -> None:
    """A group addressed data frame must not be handed to management."""
    xknx = XKNX()
    xknx.current_address = OWN
    with patch(
        "xknx.management.management.Management.process", autospec=True
    ) as mgmt_process:
        xknx.cemi_handler.handle_raw_cemi(RAW_TAG_GROUP_IND)
        queued = xknx.telegrams.qsize()
        to_management = mgmt_process.call_count
    assert to_management == 0, (
        "C14 violated: a frame may be delivered to management only if it is a "
        "broadcast or addressed to this interface; a T_Data_Tag_Group data frame from "
        f"{DEVICE} to group address 1/2/3 (we are {OWN}) was delivered to "
        f"Management.process {to_management} time(s) and to the telegram queue "
        f"{queued} time(s) (a group-addressed data frame belongs in the telegram "
        "queue exactly once, or nowhere)"
    )


async def test_tag_group_frame_is_consumed_as_p2p_response() -> None:
    """Consequence: the group frame is consumed as the connection's numbered response."""
    xknx = _make_xknx()
    # rate_limit=0: no pause between requests, so the simulated device can simply
    # answer 10 ms after each request() call
    conn = await xknx.management.connect(DEVICE, rate_limit=0)

    async def device_answers(seq: int, descriptor_value: int) -> None:
        await asyncio.sleep(0.01)
        xknx.cemi_handler.handle_raw_cemi(
            _ind(
                Telegram(
                    source_address=DEVICE, destination_address=OWN, tpci=tpci.TAck(seq)
                )
            )
        )
        xknx.cemi_handler.handle_raw_cemi(
            _ind(
                Telegram(
                    source_address=DEVICE,
                    destination_address=OWN,
                    tpci=tpci.TDataConnected(seq),
                    payload=apci.DeviceDescriptorResponse(
                        descriptor=0, value=descriptor_value
                    ),
                )
            )
        )

    # first request / response: sequence number 0 - fine
    task = asyncio.create_task(device_answers(0, 0x07B0))
    await conn.request(apci.DeviceDescriptorRead(descriptor=0))
    await task

    # the connected device now sends an ordinary *group* frame (tag group) to 1/2/3
    xknx.cemi_handler.handle_raw_cemi(RAW_TAG_GROUP_IND)
    consumed = conn._response_waiter.done()  # noqa: SLF001

    # second request / response: sequence number 1
    task = asyncio.create_task(device_answers(1, 0x07B0))
    error = None
    response = None
    try:
        response = await conn.request(apci.DeviceDescriptorRead(descriptor=0))
    except ManagementConnectionError as exc:
        error = exc
    await task

    assert not consumed and error is None, (
        "C14 violated: a group-addressed frame (dst 1/2/3, T_Data_Tag_Group) is not "
        "addressed to this interface and must not reach the point-to-point consumer; "
        f"observed: consumed by P2PConnection as response={consumed}; the following "
        f"request ended with error={error!r} response={response!r}"
    )
