"""
C14 hunt 3 - request / confirmation frames of the other link layer services become telegrams.

CEMIHandler.handle_cemi_frame() rejects by deny-list (L_DATA_CON, L_DATA_REQ) instead of
accepting L_DATA_IND only: a CEMIFrame carrying link layer data with any other message
code - L_RAW_REQ, L_POLL_DATA_REQ (requests), L_POLL_DATA_CON, L_RAW_CON (confirmations) -
is treated as an indication and lands in the telegram queue / in management.

Reachable only through the public handle_cemi_frame() API (CEMIFrame.from_knx() refuses
these codes for raw bytes) - real XKNX / CEMIHandler, nothing mocked.
"""

import pytest

from xknx import XKNX
from xknx.cemi import CEMIFrame, CEMILData, CEMIMessageCode
from xknx.dpt import DPTArray
from xknx.telegram import GroupAddress, IndividualAddress, Telegram, apci

REQUEST_AND_CONFIRMATION_CODES = [
    code
    for code in CEMIMessageCode
    if code.name.startswith("L_") and code.name.endswith(("_REQ", "_CON"))
]


@pytest.mark.parametrize("code", REQUEST_AND_CONFIRMATION_CODES, ids=lambda c: c.name)
async def test_request_and_confirmation_frames_never_become_telegrams(
    code: CEMIMessageCode,
) -> None:
    xknx = XKNX()
    xknx.current_address = IndividualAddress("1.0.255")
    frame = CEMIFrame(
        code=code,
        data=CEMILData.init_from_telegram(
            Telegram(
                destination_address=GroupAddress("1/2/3"),
                source_address=IndividualAddress("1.1.5"),
                payload=apci.GroupValueWrite(DPTArray((1,))),
            )
        ),
    )
    xknx.cemi_handler.handle_cemi_frame(frame)
    queued = xknx.telegrams.qsize()
    assert queued == 0, (
        f"observed: a {code.name} frame was put into the telegram queue as "
        f"{xknx.telegrams.get_nowait()} (cemi_count_incoming="
        f"{xknx.connection_manager.cemi_count_incoming}) - the property requires that "
        "confirmation and request frames never become telegrams"
    )
