"""
C14 hunt 2 - a send completes on a confirmation that arrived before its frame left.

Two sends share the one `_l_data_confirmation_event`. Send B clears it and then queues
behind send A in the tunnel (`_send_lock`); the L_Data.con of A arrives while B's frame
has not been transmitted yet and stays latched in the event. When B's frame finally is
on the wire, `event.wait()` returns at once: B "completes" although not a single
confirmation frame arrived after its frame was given to the KNX/IP interface - and none
ever does.

Real XKNX, CEMIHandler, Management, KNXIPInterface and UDPTunnel - only
UDPTransport.send (the socket) is mocked, the clock is advanced by hand.
"""

import asyncio
from unittest.mock import Mock, patch

from xknx import XKNX
from xknx.cemi import CEMIFrame, CEMILData, CEMIMessageCode
from xknx.dpt import DPTArray
from xknx.exceptions import ConfirmationError
from xknx.io import UDPTunnel
from xknx.knxip import HPAI, KNXIPFrame, TunnellingAck, TunnellingRequest
from xknx.telegram import GroupAddress, IndividualAddress, Telegram, apci, tpci

OWN_IA = IndividualAddress("1.0.255")
PEER_IA = IndividualAddress("1.1.5")


class Clock:
    """Advance loop time by hand (same idea as test/conftest.py time_travel)."""

    def __init__(self) -> None:
        self.loop = asyncio.get_running_loop()
        self.offset = 0.0
        self._base = self.loop.time
        self.loop.time = lambda: self._base() + self.offset  # type: ignore[method-assign]

    async def _exhaust(self) -> None:
        while self.loop._ready:  # type: ignore[attr-defined]
            await asyncio.sleep(0)

    async def __call__(self, seconds: float) -> None:
        await self._exhaust()
        if seconds > 0:
            self.offset += seconds
            await asyncio.sleep(0)
            await self._exhaust()


def setup() -> tuple[XKNX, UDPTunnel]:
    xknx = XKNX()
    tunnel = UDPTunnel(
        xknx,
        gateway_ip="192.168.1.2",
        gateway_port=3671,
        local_ip="192.168.1.1",
        local_port=0,
        cemi_received_callback=xknx.knxip_interface.cemi_received,
        auto_reconnect=False,
        auto_reconnect_wait=3,
        route_back=False,
    )
    xknx.knxip_interface._interface = tunnel  # a connected tunnel
    tunnel.transport.transport = Mock()
    tunnel.communication_channel = 1
    tunnel._src_address = OWN_IA
    xknx.current_address = OWN_IA
    return xknx, tunnel


def gateway_sends(tunnel: UDPTunnel, code: CEMIMessageCode, telegram: Telegram) -> None:
    """Gateway -> xknx: a cEMI frame in a TUNNELLING_REQUEST with the next sequence counter."""
    cemi = CEMIFrame(code=code, data=CEMILData.init_from_telegram(telegram))
    frame = KNXIPFrame.init_from_body(
        TunnellingRequest(
            communication_channel_id=1,
            sequence_counter=tunnel._sequence.expected,
            raw_cemi=cemi.to_knx(),
        )
    )
    tunnel.transport.handle_knxipframe(frame, HPAI())


def gateway_acks(tunnel: UDPTunnel, sequence_counter: int) -> None:
    tunnel.transport.handle_knxipframe(
        KNXIPFrame.init_from_body(TunnellingAck(sequence_counter=sequence_counter)),
        HPAI(),
    )


def sent_requests(mock_send: Mock) -> list[TunnellingRequest]:
    return [
        c.args[0].body
        for c in mock_send.call_args_list
        if isinstance(c.args[0].body, TunnellingRequest)
    ]


@patch("xknx.io.transport.udp_transport.UDPTransport.send")
async def test_send_completes_without_any_confirmation_after_its_frame_left(
    mock_send: Mock,
) -> None:
    clock = Clock()
    xknx, tunnel = setup()

    telegram_a = Telegram(
        destination_address=GroupAddress("1/2/3"),
        source_address=OWN_IA,
        payload=apci.GroupValueWrite(DPTArray((1,))),
    )
    # B: a management broadcast sent by another task (Management.send_broadcast)
    payload_b = apci.IndividualAddressRead()

    # t=0: send A - TUNNELLING_REQUEST #0 is on the wire, its TUNNELLING_ACK is lost (UDP)
    task_a = asyncio.create_task(xknx.cemi_handler.send_telegram(telegram_a))
    await clock(0)
    assert [r.sequence_counter for r in sent_requests(mock_send)] == [0]

    # t=0.05: send B starts - clears the event, then waits for the tunnels send lock
    await clock(0.05)
    task_b = asyncio.create_task(xknx.management.send_broadcast(payload_b))
    await clock(0)
    assert [r.sequence_counter for r in sent_requests(mock_send)] == [0], (
        "B must not be on the wire yet"
    )

    # t=0.1: the gateway confirms A: L_Data.con - B's frame is still not transmitted
    await clock(0.05)
    gateway_sends(tunnel, CEMIMessageCode.L_DATA_CON, telegram_a)
    await clock(0)
    assert [r.sequence_counter for r in sent_requests(mock_send)] == [0]
    assert not task_b.done()

    # t=1: TUNNELLING_REQUEST #0 is repeated and acknowledged -> A completes (rightly)
    await clock(0.9)
    assert [r.sequence_counter for r in sent_requests(mock_send)] == [0, 0]
    gateway_acks(tunnel, 0)
    await clock(0)
    assert task_a.done() and task_a.exception() is None

    # only now B's frame is given to the KNX/IP interface: TUNNELLING_REQUEST #1
    requests = sent_requests(mock_send)
    assert [r.sequence_counter for r in requests] == [0, 0, 1]
    assert CEMIFrame.from_knx(requests[2].raw_cemi).data.payload == payload_b
    confirmations_after_b_left = 0
    gateway_acks(tunnel, 1)
    await clock(0)

    # B's frame never gets an L_Data.con (lost on the bus side / gateway trouble):
    # the property demands ConfirmationError within REQUEST_TO_CONFIRMATION_TIMEOUT (3 s)
    completed_early = task_b.done() and task_b.exception() is None
    await clock(3.5)
    assert task_b.done()
    error = task_b.exception()
    assert isinstance(error, ConfirmationError), (
        f"observed: send of the broadcast {payload_b} completed "
        f"({'immediately after its TUNNELLING_ACK' if completed_early else 'later'}; "
        f"exception={error!r}, cemi_count_outgoing="
        f"{xknx.connection_manager.cemi_count_outgoing}, cemi_count_outgoing_error="
        f"{xknx.connection_manager.cemi_count_outgoing_error}) although "
        f"{confirmations_after_b_left} confirmation frames arrived after its frame was "
        "handed to the KNX/IP interface - the only L_Data.con (the one of the other send) "
        "arrived 0.9 s before. The property requires: a send completes only after a "
        "confirmation frame arrived after the frame was handed to the interface, and "
        "otherwise fails with a confirmation error within the confirmation timeout."
    )
