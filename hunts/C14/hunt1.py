"""
C14 hunt 1: a broadcast frame sent by a device we hold a point-to-point connection to
is swallowed by that connection instead of reaching the broadcast consumer(s).

Run: /venv/bin/python -m pytest -q -p no:cacheprovider hunt1.py
"""

import asyncio
from unittest.mock import AsyncMock

from xknx import XKNX
from xknx.cemi import CEMIFrame, CEMILData, CEMIMessageCode
from xknx.exceptions import ManagementConnectionError
from xknx.telegram import GroupAddress, IndividualAddress, Telegram, apci, tpci

OWN = IndividualAddress("1.1.250")
DEVICE = IndividualAddress("1.1.5")


def _make_xknx() -> XKNX:
    """XKNX with the real CEMIHandler / Management; only the IP interface is mocked."""
    xknx = XKNX()
    xknx.current_address = OWN

    async def send_cemi(cemi: CEMIFrame) -> None:
        # network boundary: the cEMI server confirms every L_Data.req
        con = CEMIFrame(code=CEMIMessageCode.L_DATA_CON, data=cemi.data)
        asyncio.get_running_loop().call_soon(
            xknx.cemi_handler.handle_raw_cemi, con.to_knx()
        )

    xknx.knxip_interface = AsyncMock()
    xknx.knxip_interface.send_cemi.side_effect = send_cemi
    return xknx


def _ind(telegram: Telegram) -> bytes:
    """Raw L_Data.ind as it arrives from the transport."""
    return CEMIFrame(
        code=CEMIMessageCode.L_DATA_IND,
        data=CEMILData.init_from_telegram(telegram),
    ).to_knx()


async def test_broadcast_from_connected_device_reaches_broadcast_context() -> None:
    """An IndividualAddressResponse broadcast must reach the broadcast context."""
    xknx = _make_xknx()

    conn = await xknx.management.connect(DEVICE)  # real T_Connect + L_Data.con
    async with xknx.management.broadcast() as bc_context:
        # device 1.1.5 (in programming mode) answers someone's IndividualAddressRead
        # with a *broadcast* (dst 0/0/0, T_Data_Broadcast) IndividualAddressResponse
        raw = _ind(
            Telegram(
                source_address=DEVICE,
                destination_address=GroupAddress("0/0/0"),
                tpci=tpci.TDataBroadcast(),
                payload=apci.IndividualAddressResponse(),
            )
        )
        xknx.cemi_handler.handle_raw_cemi(raw)
        await asyncio.sleep(0)

        delivered_to_broadcast = bc_context.queue.qsize()
        swallowed_by_p2p = conn._response_waiter.done()  # noqa: SLF001

        assert delivered_to_broadcast == 1 and not swallowed_by_p2p, (
            "C14 violated: a received T_Data_Broadcast frame (dst 0/0/0) from "
            f"{DEVICE} must be delivered exactly once to the broadcast consumer; "
            f"observed broadcast-context deliveries={delivered_to_broadcast}, "
            f"consumed as point-to-point response by P2PConnection={swallowed_by_p2p} "
            f"(response_waiter result: "
            f"{conn._response_waiter.result() if swallowed_by_p2p else None})"  # noqa: SLF001
        )


async def test_broadcast_does_not_break_running_p2p_request() -> None:
    """Consequence: the next connection-oriented request fails on the foreign broadcast."""
    xknx = _make_xknx()
    conn = await xknx.management.connect(DEVICE)

    # broadcast of the connected device arrives while the connection is idle
    xknx.cemi_handler.handle_raw_cemi(
        _ind(
            Telegram(
                source_address=DEVICE,
                destination_address=GroupAddress("0/0/0"),
                tpci=tpci.TDataBroadcast(),
                payload=apci.IndividualAddressResponse(),
            )
        )
    )

    async def device_answers() -> None:
        # the device acks and answers the DeviceDescriptorRead correctly (seq 0)
        await asyncio.sleep(0.01)
        xknx.cemi_handler.handle_raw_cemi(
            _ind(
                Telegram(
                    source_address=DEVICE,
                    destination_address=OWN,
                    tpci=tpci.TAck(0),
                )
            )
        )
        xknx.cemi_handler.handle_raw_cemi(
            _ind(
                Telegram(
                    source_address=DEVICE,
                    destination_address=OWN,
                    tpci=tpci.TDataConnected(0),
                    payload=apci.DeviceDescriptorResponse(descriptor=0, value=0x07B0),
                )
            )
        )

    answer_task = asyncio.create_task(device_answers())
    error: Exception | None = None
    response = None
    try:
        response = await conn.request(apci.DeviceDescriptorRead(descriptor=0))
    except ManagementConnectionError as exc:
        error = exc
    await answer_task

    assert error is None and isinstance(
        response.payload, apci.DeviceDescriptorResponse
    ), (
        "C14 violated: the point-to-point response addressed to this interface must "
        "reach the P2P request; instead the earlier *broadcast* frame was handed to "
        f"the connection as its response: error={error!r} response={response!r}"
    )
