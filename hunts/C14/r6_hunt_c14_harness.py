"""
Shared harness for the C14 hunts.

Real XKNX + real CEMIHandler + real Management + real KNXIPInterface + real UDPTunnel.
Only the network boundary is replaced: the socket's `sendto` records the frames
xknx puts on the wire, gateway frames are injected through the transport's own
`data_received_callback` (exactly what the asyncio DatagramProtocol calls).
"""

from __future__ import annotations

import asyncio
from unittest.mock import Mock

from xknx import XKNX
from xknx.cemi import CEMIFrame, CEMILData, CEMIMessageCode
from xknx.io import UDPTunnel
from xknx.knxip import KNXIPFrame, TunnellingAck, TunnellingRequest
from xknx.telegram import IndividualAddress, Telegram

GATEWAY = ("192.168.1.2", 3671)
CHANNEL = 7
OWN_IA = IndividualAddress("1.0.255")


class Wire:
    """The fake gateway on the other end of the UDP socket."""

    def __init__(self) -> None:
        """Wire up a connected tunnel without opening a socket."""
        self.xknx = XKNX()
        self.xknx.current_address = OWN_IA
        self.tunnel = UDPTunnel(
            self.xknx,
            gateway_ip=GATEWAY[0],
            gateway_port=GATEWAY[1],
            local_ip="192.168.1.1",
            local_port=0,
            cemi_received_callback=self.xknx.knxip_interface.cemi_received,
            auto_reconnect=False,
            route_back=False,
        )
        # state of an established tunnel
        self.tunnel.communication_channel = CHANNEL
        self.tunnel._data_endpoint_addr = GATEWAY
        self.tunnel._src_address = OWN_IA
        self.xknx.knxip_interface._interface = self.tunnel
        self.sent: list[KNXIPFrame] = []
        # the asyncio DatagramTransport (= the socket) is the only thing mocked
        _socket = Mock()
        _socket.sendto = self._sendto
        self.tunnel.transport.transport = _socket
        self._gw_seq = 0
        self._acked = 0

    # --- what xknx puts on the wire -------------------------------------
    def _sendto(self, data: bytes, addr: tuple[str, int] | None = None) -> None:
        knxipframe, _ = KNXIPFrame.from_knx(data)
        self.sent.append(knxipframe)

    def sent_requests(self) -> list[TunnellingRequest]:
        """Return TunnellingRequests xknx has transmitted so far."""
        return [f.body for f in self.sent if isinstance(f.body, TunnellingRequest)]

    def sent_cemis(self) -> list[CEMIFrame]:
        """Return the cEMI frames xknx has transmitted so far."""
        return [CEMIFrame.from_knx(r.raw_cemi) for r in self.sent_requests()]

    # --- what the gateway sends -----------------------------------------
    def _inject(self, body: TunnellingAck | TunnellingRequest) -> None:
        raw = KNXIPFrame.init_from_body(body).to_knx()
        self.tunnel.transport.data_received_callback(raw, GATEWAY)

    def gw_ack(self, sequence_counter: int) -> None:
        """Gateway acknowledges xknx's TunnellingRequest (KNXnet/IP level)."""
        self._inject(
            TunnellingAck(
                communication_channel_id=CHANNEL, sequence_counter=sequence_counter
            )
        )

    def gw_ack_pending(self) -> None:
        """Gateway acknowledges every TunnellingRequest not acknowledged yet."""
        requests = self.sent_requests()
        for request in requests[self._acked :]:
            self.gw_ack(request.sequence_counter)
        self._acked = len(requests)

    def gw_cemi(self, cemi: CEMIFrame) -> None:
        """Gateway sends a cEMI frame in a TunnellingRequest."""
        self._inject(
            TunnellingRequest(
                communication_channel_id=CHANNEL,
                sequence_counter=self._gw_seq,
                raw_cemi=cemi.to_knx(),
            )
        )
        self._gw_seq = self._gw_seq + 1 & 0xFF

    def gw_confirm(self, request: TunnellingRequest) -> None:
        """Gateway sends the L_Data.con for a L_Data.req xknx transmitted."""
        cemi = CEMIFrame.from_knx(request.raw_cemi)
        assert cemi.code is CEMIMessageCode.L_DATA_REQ
        cemi.code = CEMIMessageCode.L_DATA_CON
        self.gw_cemi(cemi)

    def gw_indication(self, telegram: Telegram) -> None:
        """Gateway forwards a bus frame as L_Data.ind."""
        self.gw_cemi(
            CEMIFrame(
                code=CEMIMessageCode.L_DATA_IND,
                data=CEMILData.init_from_telegram(telegram),
            )
        )


async def spin(n: int = 5) -> None:
    """Run n event loop iterations (no time passes)."""
    for _ in range(n):
        await asyncio.sleep(0)


class Clock:
    """Virtual loop clock (same technique as test/conftest.py EventLoopClockAdvancer)."""

    def __init__(self) -> None:
        """Patch the running loop's clock."""
        self.loop = asyncio.get_running_loop()
        self.offset = 0.0
        self._base_time = self.loop.time
        self.loop.time = self.time  # type: ignore[method-assign]

    def time(self) -> float:
        """Return loop time adjusted by offset."""
        return self._base_time() + self.offset

    async def _exhaust(self) -> None:
        while self.loop._ready:  # type: ignore[attr-defined]  # noqa: ASYNC110
            await asyncio.sleep(0)

    async def advance(self, seconds: float) -> None:
        """Advance the loop clock and run everything that became due."""
        await self._exhaust()
        if seconds > 0:
            self.offset += seconds
            await asyncio.sleep(0)
            await self._exhaust()
