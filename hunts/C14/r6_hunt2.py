"""
C14 hunt 2: a confirmation that DID arrive is wiped by a concurrent send (false failure).

`send_telegram()` clears the shared `_l_data_confirmation_event` when it starts.
When the L_Data.con of send A is processed while A is still inside
`knxip_interface.send_cemi()` (UDP tunnel: the con overtakes the TunnellingAck;
threaded interface: always, the con is dispatched to the main loop before
`send_cemi()` returns there) a second `send_telegram()` starting in that window
erases A's confirmation. Unless B's own confirmation happens to rescue A, A stalls
for 3 s and raises ConfirmationError for a frame that was sent and confirmed.

Real XKNX, TelegramQueue, CEMIHandler, Management, KNXIPInterface, UDPTunnel.
Mocked: only the UDP socket (`sendto`) and the loop clock.
"""

from __future__ import annotations

import asyncio

from hunt_c14_harness import Clock, Wire, spin

from xknx.dpt import DPTArray
from xknx.telegram import GroupAddress, IndividualAddress, Telegram, apci, tpci

DEVICE = IndividualAddress("1.1.5")


async def test_confirmation_erased_by_concurrent_send() -> None:
    """management.connect() fails although its T_Connect was confirmed in time."""
    clock = Clock()
    w = Wire()
    xknx = w.xknx
    await xknx.telegram_queue.start()

    # A: T_Connect of a management connection
    connect_task = asyncio.create_task(xknx.management.connect(DEVICE))
    await spin()
    req_a = w.sent_requests()[0]
    assert isinstance(w.sent_cemis()[0].data.tpci, tpci.TConnect)

    # gateway: the L_Data.con for A overtakes the TunnellingAck for A (UDP)
    w.gw_confirm(req_a)
    await spin()
    con_seen = xknx.cemi_handler._l_data_confirmation_event.is_set()

    # B: meanwhile the TelegramQueue sends a group telegram the interface rejects
    # (APDU too long for a cEMI frame -> ConversionError, logged by the queue).
    # Its send_telegram() clears the event first.
    xknx.telegrams.put_nowait(
        Telegram(
            destination_address=GroupAddress("1/2/3"),
            payload=apci.GroupValueWrite(DPTArray((0,) * 300)),
        )
    )
    await spin()
    assert len(w.sent_requests()) == 1  # B never reached the wire

    w.gw_ack(req_a.sequence_counter)  # now A's send_cemi() returns
    await spin()
    done_right_after_ack = connect_task.done()

    await clock.advance(3.1)
    assert connect_task.done()
    exc = connect_task.exception()
    await xknx.telegram_queue.stop()
    xknx.management._connections.pop(DEVICE, None)

    assert con_seen, "harness: the L_Data.con for A was not processed"
    assert done_right_after_ack and exc is None, (
        "management.connect(): the L_Data.con for its T_Connect was received after the "
        "frame had been handed to the interface and well within the 3 s confirmation "
        f"timeout, yet the send did not complete (done after ack: {done_right_after_ack}) "
        f"and failed with: {exc!r} (cemi_count_outgoing_error="
        f"{xknx.connection_manager.cemi_count_outgoing_error}). The property requires "
        "a send whose confirmation arrived after hand-over to complete; only otherwise "
        "may it fail with a confirmation error. The confirmation was erased by the "
        "`_l_data_confirmation_event.clear()` of an unrelated concurrent send."
    )
