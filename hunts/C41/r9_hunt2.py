"""C41 hunt 2: removing and adding the device forgets the running cooldown."""

import asyncio

from hunt_common_c41 import setup


def test_cooldown_distance_kept_over_remove_and_add() -> None:
    """set(1) at t=0; device removed/added at t=1; set(2) at t=2 must wait for t>=10."""

    async def scenario() -> None:
        xknx, sensor, clock, bus = await setup(cooldown=10)
        await sensor.set(1)  # t=0
        await clock(1)
        xknx.devices.async_remove(sensor)  # t=1, xknx keeps running and stays connected
        xknx.devices.async_add(sensor)
        await clock(1)
        await sensor.set(2)  # t=2
        await clock(30)
        await xknx.stop()
        writes = [(t, value) for t, kind, value in bus if kind == "write"]
        gaps = [b[0] - a[0] for a, b in zip(writes, writes[1:])]
        assert all(gap >= 10 for gap in gaps), (
            f"observed: GroupValueWrite telegrams {writes} - gaps {gaps} with cooldown=10; "
            "property requires value telegrams caused by updates to be at least the cooldown apart"
        )

    asyncio.run(scenario())
