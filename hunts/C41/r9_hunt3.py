"""C41 hunt 3: an update while disconnected is lost when the cooldown is idle (kept when it runs)."""

import asyncio

from hunt_common_c41 import XknxConnectionState, setup


def test_update_while_disconnected_with_idle_cooldown_reaches_bus() -> None:
    """set(1) t=0; cooldown over; disconnect t=20; set(2) t=21; reconnect t=22; 2 must be sent."""

    async def scenario() -> None:
        xknx, sensor, clock, bus = await setup(cooldown=10)
        await sensor.set(1)  # t=0
        await clock(20)  # cooldown is over and idle
        xknx.connection_manager.connection_state_changed(
            XknxConnectionState.DISCONNECTED
        )
        await clock(1)
        await sensor.set(2)  # t=21 - telegram is queued at once and fails in the interface
        await clock(1)
        xknx.connection_manager.connection_state_changed(XknxConnectionState.CONNECTED)
        await clock(100)
        values = [value for _, _, value in bus]
        await sensor.set(2, skip_unchanged=True)
        await clock(100)
        values_after_repeat = [value for _, _, value in bus]
        await xknx.stop()
        assert values[-1] == 2 and values_after_repeat[-1] == 2, (
            f"observed: bus saw {bus} - value 2 set while disconnected (cooldown idle) was handed to "
            "the dead connection, is remembered as sent and is never sent after the reconnect, a "
            "repeated set(2, skip_unchanged=True) is suppressed; the same update made while the "
            "cooldown is running is kept and sent on reconnect. Property requires the most recently "
            "set value to end up on the bus unless it equals the value last on the bus (which is 1)"
        )

    asyncio.run(scenario())


def test_control_update_while_disconnected_with_running_cooldown() -> None:
    """Control (passes): the same update inside a running cooldown is delivered on reconnect."""

    async def scenario() -> None:
        xknx, sensor, clock, bus = await setup(cooldown=10)
        await sensor.set(1)  # t=0
        await clock(1)
        xknx.connection_manager.connection_state_changed(
            XknxConnectionState.DISCONNECTED
        )
        await sensor.set(2)  # t=1 inside cooldown
        await clock(20)
        xknx.connection_manager.connection_state_changed(XknxConnectionState.CONNECTED)
        await clock(5)
        await xknx.stop()
        assert [value for _, _, value in bus] == [1, 2], bus

    asyncio.run(scenario())
