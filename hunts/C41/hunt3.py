"""
C41 hunt 3: the periodic sender transmits a value that the cooldown is holding back.

`_periodic_send_impl()` sends `_payload_after_cooldown` unconditionally. If a newer value is
deferred by a running cooldown, the periodic sender
  * duplicates it when periodic_send == cooldown (both timers expire in the same loop
    iteration: the cooldown task queues the value, the periodic task queues it again
    before the first telegram was processed) -> two value telegrams 0 s apart;
  * flushes it early when periodic_send < cooldown -> the new value follows the previous
    value telegram after periodic_send seconds instead of cooldown seconds.

Run: /venv/bin/python -m pytest -q -p no:cacheprovider hunt3.py
"""

from __future__ import annotations

import asyncio
from unittest.mock import AsyncMock, Mock, patch

from xknx import XKNX
from xknx.core import XknxConnectionState
from xknx.devices import ExposeSensor
from xknx.telegram import GroupAddress, Telegram
from xknx.telegram.apci import GroupValueWrite

COOLDOWN = 4.0
GA = GroupAddress("1/2/3")


class VirtualClock:
    """Fully virtual loop clock; jumps from timer to timer so timestamps are exact."""

    def __init__(self, loop: asyncio.AbstractEventLoop) -> None:
        self.now = 0.0
        self.loop = loop
        loop.time = self.time  # type: ignore[method-assign]

    def time(self) -> float:
        return self.now

    async def _exhaust(self) -> None:
        while self.loop._ready:  # type: ignore[attr-defined]
            await asyncio.sleep(0)

    async def advance(self, seconds: float) -> None:
        await self._exhaust()
        target = self.now + seconds
        while True:
            due = [
                h._when  # type: ignore[attr-defined]
                for h in self.loop._scheduled  # type: ignore[attr-defined]
                if not h._cancelled and h._when <= target
            ]
            if not due:
                break
            self.now = max(self.now, min(due))
            await asyncio.sleep(0)
            await self._exhaust()
        self.now = target
        await asyncio.sleep(0)
        await self._exhaust()


def make_xknx() -> XKNX:
    """XKNX whose KNX/IP interface (network boundary) is a mock."""
    interface = Mock()
    interface.start = AsyncMock()
    interface.stop = AsyncMock()
    interface.send_cemi = AsyncMock()
    interface.connection_config.threaded = False
    with patch("xknx.xknx.knx_interface_factory", return_value=interface):
        return XKNX()


def install_bus_recorder(xknx: XKNX, clock: VirtualClock) -> list[tuple[float, Telegram]]:
    """Replace the CEMI handler (network boundary) by a recorder of (time, telegram)."""
    sent: list[tuple[float, Telegram]] = []

    async def send_telegram(telegram: Telegram) -> None:
        if telegram.destination_address == GA:
            sent.append((clock.time(), telegram))

    xknx.cemi_handler = Mock()
    xknx.cemi_handler.send_telegram = send_telegram
    return sent


def write_times(sent: list[tuple[float, Telegram]]) -> list[tuple[float, tuple[int, ...]]]:
    return [
        (t, tg.payload.value.value)
        for t, tg in sent
        if isinstance(tg.payload, GroupValueWrite)
    ]


async def run_history(periodic_send: float) -> list[tuple[float, tuple[int, ...]]]:
    """History: set(1) at t=0, set(2) at t=1 (within cooldown). Return value telegrams until t=7."""
    clock = VirtualClock(asyncio.get_running_loop())
    xknx = make_xknx()
    sent = install_bus_recorder(xknx, clock)
    sensor = ExposeSensor(
        xknx,
        "expose",
        group_address="1/2/3",
        value_type="pulse",
        cooldown=COOLDOWN,
        periodic_send=periodic_send,
    )
    xknx.devices.async_add(sensor)
    await xknx.start()
    xknx.connection_manager.connection_state_changed(XknxConnectionState.CONNECTED)
    await sensor.set(1)
    await clock.advance(1)
    await sensor.set(2)
    await clock.advance(6)
    await xknx.stop()
    return write_times(sent)


async def test_periodic_equal_to_cooldown_does_not_duplicate() -> None:
    """cooldown=4, periodic_send=4: the deferred value 2 must be sent once, at t=4."""
    writes = await run_history(periodic_send=COOLDOWN)
    gaps = [b[0] - a[0] for a, b in zip(writes, writes[1:])]
    assert all(gap >= COOLDOWN for gap in gaps), (
        f"cooldown={COOLDOWN}s, periodic_send={COOLDOWN}s, set(1)@0, set(2)@1: value telegrams "
        f"{writes} - gaps {gaps}; the update set(2) caused two telegrams at the same instant, "
        f"the property requires value telegrams caused by updates to be at least the cooldown apart"
    )


async def test_periodic_shorter_than_cooldown_does_not_flush_deferred_value() -> None:
    """cooldown=4, periodic_send=3: the deferred value 2 must not follow value 1 after only 3 s."""
    writes = await run_history(periodic_send=3)
    first_new = next(t for t, v in writes if v == (2,))
    assert first_new - writes[0][0] >= COOLDOWN, (
        f"cooldown={COOLDOWN}s, periodic_send=3s, set(1)@0, set(2)@1: value telegrams {writes}; "
        f"the new value (2,) reached the bus {first_new - writes[0][0]}s after value (1,), the "
        f"property requires value telegrams caused by updates to be at least the cooldown apart"
    )
