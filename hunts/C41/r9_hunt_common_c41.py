"""Shared helpers for the C41 hunts: virtual clock, XKNX without network, bus recorder."""

from __future__ import annotations

import asyncio
from unittest.mock import AsyncMock, Mock, patch

import xknx as _xknx_pkg

assert _xknx_pkg.__file__.startswith("/tmp/hunt_C41/"), _xknx_pkg.__file__

from xknx import XKNX  # noqa: E402
from xknx.core import XknxConnectionState  # noqa: E402
from xknx.devices import ExposeSensor  # noqa: E402
from xknx.exceptions import CommunicationError  # noqa: E402
from xknx.telegram.apci import GroupValueWrite  # noqa: E402


class VClock:
    """Fully virtual event loop clock - advances from timer to timer."""

    def __init__(self, loop: asyncio.AbstractEventLoop) -> None:
        self.loop = loop
        self.now = 1000.0
        loop.time = lambda: self.now  # type: ignore[method-assign]

    async def _exhaust(self) -> None:
        await asyncio.sleep(0)
        while self.loop._ready:  # type: ignore[attr-defined]
            await asyncio.sleep(0)

    async def __call__(self, seconds: float) -> None:
        await self._exhaust()
        target = self.now + seconds
        while True:
            whens = [
                h._when
                for h in self.loop._scheduled  # type: ignore[attr-defined]
                if not h._cancelled
            ]
            nxt = min(whens) if whens else None
            if nxt is None or nxt > target:
                break
            self.now = max(self.now, nxt)
            await self._exhaust()
        self.now = target
        await self._exhaust()


def make_xknx() -> XKNX:
    """XKNX whose KNX/IP interface (network boundary) is a mock."""

    def knx_ip_interface_mock() -> Mock:
        mock = Mock()
        mock.start = AsyncMock()
        mock.stop = AsyncMock()
        mock.send_cemi = AsyncMock()
        return mock

    with patch("xknx.xknx.knx_interface_factory", return_value=knx_ip_interface_mock()):
        return XKNX()


async def setup(cooldown: float = 10, periodic: float = 0):
    """Return started xknx, added sensor, clock and the list of telegrams that reached the bus."""
    loop = asyncio.get_running_loop()
    clock = VClock(loop)
    xknx = make_xknx()
    xknx.rate_limit = 0
    xknx.connection_manager.connection_state_changed(XknxConnectionState.CONNECTED)
    bus: list[tuple[float, str, int]] = []
    t0 = loop.time()

    async def send_telegram(telegram) -> None:
        # like CEMIHandler / the interface: no connection - no telegram on the bus
        if not xknx.connection_manager.connected.is_set():
            raise CommunicationError("not connected", should_log=False)
        kind = "write" if isinstance(telegram.payload, GroupValueWrite) else "response"
        bus.append((loop.time() - t0, kind, telegram.payload.value.value[0]))

    xknx.cemi_handler = Mock()
    xknx.cemi_handler.send_telegram = send_telegram
    sensor = ExposeSensor(
        xknx,
        "TestSensor",
        group_address="1/2/3",
        value_type="1byte_unsigned",
        cooldown=cooldown,
        periodic_send=periodic,
    )
    xknx.devices.async_add(sensor)
    await xknx.start()
    return xknx, sensor, clock, bus
