"""
C41 hunt 2: one update produces a burst of value telegrams when the outgoing queue is slower than the cooldown.

XKNX(rate_limit=20) sends one telegram per 50 ms. 70 telegrams (e.g. the GroupValueReads of
the StateUpdater right after connecting) are queued, then `expose.set(1)` is called ONCE on a
sensor with cooldown=1 s. The telegram waits 3.5 s in the rate limited queue. Each time the
cooldown expires `_cooldown_send()` compares the pending payload with
`sensor_value.last_payload` - which is only updated when the queued telegram has been
processed - finds them different and queues the same value again. The bus then sees four value
telegrams 50 ms apart.

A second test shows the same root cause with two different values: the second value leaves
100 ms after the first one.

A third test shows the opposite outcome of the same comparison: bus has 1; set(2) is queued behind
the backlog, set(1) follows within the cooldown. At cooldown expiry `last_payload` is still 1 (the 2
has not been processed yet), equals the pending 1, the cooldown task cancels itself - and when
the 2 finally leaves the queue it stays on the bus forever although the most recently set value
is 1.

Run: /venv/bin/python -m pytest -q -p no:cacheprovider hunt2.py
"""

from __future__ import annotations

import asyncio
from unittest.mock import AsyncMock, Mock, patch

from xknx import XKNX
from xknx.core import XknxConnectionState
from xknx.devices import ExposeSensor
from xknx.telegram import GroupAddress, Telegram
from xknx.telegram.apci import GroupValueRead, GroupValueWrite

COOLDOWN = 1.0
GA = GroupAddress("1/2/3")


class VirtualClock:
    """Fully virtual loop clock; jumps from timer to timer so timestamps are exact."""

    def __init__(self, loop: asyncio.AbstractEventLoop) -> None:
        self.now = 0.0
        self.loop = loop
        loop.time = self.time  # type: ignore[method-assign]

    def time(self) -> float:
        return self.now

    async def _exhaust(self) -> None:
        while self.loop._ready:  # type: ignore[attr-defined]
            await asyncio.sleep(0)

    async def advance(self, seconds: float) -> None:
        await self._exhaust()
        target = self.now + seconds
        while True:
            due = [
                h._when  # type: ignore[attr-defined]
                for h in self.loop._scheduled  # type: ignore[attr-defined]
                if not h._cancelled and h._when <= target
            ]
            if not due:
                break
            self.now = max(self.now, min(due))
            await asyncio.sleep(0)
            await self._exhaust()
        self.now = target
        await asyncio.sleep(0)
        await self._exhaust()


def make_xknx(**kwargs: int) -> XKNX:
    """XKNX whose KNX/IP interface (network boundary) is a mock."""
    interface = Mock()
    interface.start = AsyncMock()
    interface.stop = AsyncMock()
    interface.send_cemi = AsyncMock()
    interface.connection_config.threaded = False
    with patch("xknx.xknx.knx_interface_factory", return_value=interface):
        return XKNX(**kwargs)


async def setup(backlog: int) -> tuple[XKNX, VirtualClock, ExposeSensor, list]:
    clock = VirtualClock(asyncio.get_running_loop())
    xknx = make_xknx(rate_limit=20)  # 20 telegrams / s - the value the code comments call default
    sent: list[tuple[float, tuple[int, ...]]] = []

    async def send_telegram(telegram: Telegram) -> None:
        """Network boundary: the instant a telegram reaches the bus."""
        if telegram.destination_address == GA and isinstance(
            telegram.payload, GroupValueWrite
        ):
            sent.append((round(clock.time(), 6), telegram.payload.value.value))

    xknx.cemi_handler = Mock()
    xknx.cemi_handler.send_telegram = send_telegram
    sensor = ExposeSensor(
        xknx, "expose", group_address="1/2/3", value_type="pulse", cooldown=COOLDOWN
    )
    xknx.devices.async_add(sensor)
    await xknx.start()
    xknx.connection_manager.connection_state_changed(XknxConnectionState.CONNECTED)
    # other traffic of the same XKNX instance, e.g. state reads after (re)connect
    for i in range(backlog):
        xknx.telegrams.put_nowait(
            Telegram(GroupAddress(f"5/0/{i}"), payload=GroupValueRead())
        )
    return xknx, clock, sensor, sent


async def test_single_update_is_sent_once() -> None:
    """One set() -> exactly one value telegram; any two value telegrams >= cooldown apart."""
    xknx, clock, sensor, sent = await setup(backlog=70)  # 70 * 50 ms = 3.5 s queueing delay

    await sensor.set(1)  # the only update in this history
    await clock.advance(20)
    await xknx.stop()

    gaps = [round(b[0] - a[0], 6) for a, b in zip(sent, sent[1:])]
    assert all(gap >= COOLDOWN for gap in gaps), (
        f"a single set(1) on a sensor with cooldown={COOLDOWN}s put {len(sent)} value "
        f"telegrams on the bus at {sent} (gaps {gaps}); the property requires value telegrams "
        f"caused by updates to be at least the cooldown apart (here: one telegram)"
    )


async def test_two_updates_keep_cooldown_distance_on_the_bus() -> None:
    """set(1), set(2): the two values must reach the bus at least one cooldown apart."""
    xknx, clock, sensor, sent = await setup(backlog=18)  # 0.9 s queueing delay < cooldown

    await sensor.set(1)
    await clock.advance(0.5)
    await sensor.set(2)  # within cooldown -> deferred
    await clock.advance(20)
    await xknx.stop()

    assert [v for _, v in sent] == [(1,), (2,)], sent  # sanity: each value once
    gap = round(sent[1][0] - sent[0][0], 6)
    assert gap >= COOLDOWN, (
        f"values reached the bus at {sent}: only {gap}s apart although cooldown={COOLDOWN}s; "
        f"the property requires value telegrams caused by updates to be at least the cooldown apart"
    )


async def test_most_recent_value_ends_up_on_the_bus() -> None:
    """bus=1; set(2) (queued), set(1): the bus must end with 1, the most recently set value."""
    xknx, clock, sensor, sent = await setup(backlog=0)
    await sensor.set(1)
    await clock.advance(5 * COOLDOWN)
    assert sent == [(0.0, (1,))], sent  # sanity: 1 is on the bus, cooldown over
    assert sensor._cooldown_task is not None and sensor._cooldown_task.done()

    for i in range(70):  # 3.5 s of other traffic in the rate limited queue
        xknx.telegrams.put_nowait(
            Telegram(GroupAddress(f"5/0/{i}"), payload=GroupValueRead())
        )
    t_last_update = clock.time()
    await sensor.set(2)  # sent "immediately" = queued behind the backlog
    await sensor.set(1)  # within cooldown -> deferred; most recently set value
    await clock.advance(30)
    await xknx.stop()

    assert sent[-1][1] == (1,), (
        f"updates set(2), set(1) at t={t_last_update}: telegrams on the bus {sent}; the last value "
        f"on the bus is {sent[-1][1]} but the most recently set value is (1,). The property "
        f"requires the most recently set value to be sent within one cooldown after the last "
        f"update unless it equals the value last on the bus"
    )
