"""
C41 hunt 1: an ExposeSensor loses its cooldown (and its periodic send) when XKNX is restarted.

History: start -> set, set (cooldown works) -> xknx.stop() -> xknx.start() -> set, set.
After the restart both value telegrams leave at the same instant although cooldown=4 s,
and a sensor configured with periodic_send never sends periodically again.

Run: /venv/bin/python -m pytest -q -p no:cacheprovider hunt1.py
"""

from __future__ import annotations

import asyncio
from unittest.mock import AsyncMock, Mock, patch

from xknx import XKNX
from xknx.core import XknxConnectionState
from xknx.devices import ExposeSensor
from xknx.telegram import GroupAddress, Telegram
from xknx.telegram.apci import GroupValueWrite

COOLDOWN = 4.0
GA = GroupAddress("1/2/3")


class VirtualClock:
    """Fully virtual loop clock; jumps from timer to timer so timestamps are exact."""

    def __init__(self, loop: asyncio.AbstractEventLoop) -> None:
        self.now = 0.0
        self.loop = loop
        loop.time = self.time  # type: ignore[method-assign]

    def time(self) -> float:
        return self.now

    async def _exhaust(self) -> None:
        while self.loop._ready:  # type: ignore[attr-defined]
            await asyncio.sleep(0)

    async def advance(self, seconds: float) -> None:
        await self._exhaust()
        target = self.now + seconds
        while True:
            due = [
                h._when  # type: ignore[attr-defined]
                for h in self.loop._scheduled  # type: ignore[attr-defined]
                if not h._cancelled and h._when <= target
            ]
            if not due:
                break
            self.now = max(self.now, min(due))
            await asyncio.sleep(0)
            await self._exhaust()
        self.now = target
        await asyncio.sleep(0)
        await self._exhaust()


def make_xknx() -> XKNX:
    """XKNX whose KNX/IP interface (network boundary) is a mock."""
    interface = Mock()
    interface.start = AsyncMock()
    interface.stop = AsyncMock()
    interface.send_cemi = AsyncMock()
    interface.connection_config.threaded = False
    with patch("xknx.xknx.knx_interface_factory", return_value=interface):
        return XKNX()


def install_bus_recorder(xknx: XKNX, clock: VirtualClock) -> list[tuple[float, Telegram]]:
    """Replace the CEMI handler (network boundary) by a recorder of (time, telegram)."""
    sent: list[tuple[float, Telegram]] = []

    async def send_telegram(telegram: Telegram) -> None:
        if telegram.destination_address == GA:
            sent.append((clock.time(), telegram))

    xknx.cemi_handler = Mock()
    xknx.cemi_handler.send_telegram = send_telegram
    return sent


def write_times(sent: list[tuple[float, Telegram]]) -> list[tuple[float, tuple[int, ...]]]:
    return [
        (t, tg.payload.value.value)
        for t, tg in sent
        if isinstance(tg.payload, GroupValueWrite)
    ]


async def test_cooldown_survives_restart() -> None:
    """Value telegrams must stay >= cooldown apart also after xknx.stop(); xknx.start()."""
    clock = VirtualClock(asyncio.get_running_loop())
    xknx = make_xknx()
    sent = install_bus_recorder(xknx, clock)
    sensor = ExposeSensor(
        xknx, "expose", group_address="1/2/3", value_type="pulse", cooldown=COOLDOWN
    )
    xknx.devices.async_add(sensor)

    await xknx.start()
    xknx.connection_manager.connection_state_changed(XknxConnectionState.CONNECTED)
    await sensor.set(1)
    await sensor.set(2)
    await clock.advance(3 * COOLDOWN)
    first_run = write_times(sent)
    # sanity: before the restart the cooldown is honoured
    assert first_run == [(0.0, (1,)), (COOLDOWN, (2,))], first_run
    sent.clear()

    await xknx.stop()
    xknx.connection_manager.connection_state_changed(XknxConnectionState.DISCONNECTED)
    await xknx.start()
    xknx.connection_manager.connection_state_changed(XknxConnectionState.CONNECTED)

    t0 = clock.time()
    await sensor.set(3)
    await sensor.set(4)
    await clock.advance(3 * COOLDOWN)
    second_run = [(t - t0, v) for t, v in write_times(sent)]
    await xknx.stop()

    gaps = [b[0] - a[0] for a, b in zip(second_run, second_run[1:])]
    assert all(gap >= COOLDOWN for gap in gaps), (
        f"after xknx.stop()/xknx.start() the sensor (cooldown={COOLDOWN}s) sent value "
        f"telegrams {second_run} (time since restart, payload) - gaps {gaps}; the property "
        f"requires value telegrams caused by updates to be at least the cooldown apart "
        f"(as in the first run: {first_run})"
    )


async def test_periodic_send_survives_restart() -> None:
    """A periodic_send configuration must still be in effect after a restart."""
    clock = VirtualClock(asyncio.get_running_loop())
    xknx = make_xknx()
    sent = install_bus_recorder(xknx, clock)
    sensor = ExposeSensor(
        xknx, "expose", group_address="1/2/3", value_type="pulse", periodic_send=10
    )
    xknx.devices.async_add(sensor)

    await xknx.start()
    xknx.connection_manager.connection_state_changed(XknxConnectionState.CONNECTED)
    await sensor.set(1)
    await clock.advance(25)
    assert [t for t, _ in write_times(sent)] == [0.0, 10.0, 20.0]  # sanity
    sent.clear()

    await xknx.stop()
    xknx.connection_manager.connection_state_changed(XknxConnectionState.DISCONNECTED)
    await xknx.start()
    xknx.connection_manager.connection_state_changed(XknxConnectionState.CONNECTED)
    t0 = clock.time()
    await sensor.set(2)
    await clock.advance(35)
    after = [(t - t0, v) for t, v in write_times(sent)]
    await xknx.stop()

    assert len(after) >= 3, (
        f"after xknx.stop()/xknx.start() a sensor with periodic_send=10 sent only {after} "
        f"in 35 s; the configured periodic send must keep putting the current value on the bus"
    )
