"""C41 hunt 1: a value pending in the cooldown is dropped when the device tasks are removed."""

import asyncio

from hunt_common_c41 import XknxConnectionState, setup


def test_pending_value_survives_remove_and_add() -> None:
    """set(1); set(2) inside the cooldown; device removed and added again; 2 must reach the bus."""

    async def scenario() -> None:
        xknx, sensor, clock, bus = await setup(cooldown=10)
        await sensor.set(1)  # t=0 - sent at once
        await clock(1)
        await sensor.set(2)  # t=1 - inside the cooldown, pending
        await clock(1)
        xknx.devices.async_remove(sensor)  # t=2
        xknx.devices.async_add(sensor)
        await clock(100)  # ten cooldowns
        values = [value for _, _, value in bus]
        # repeating the update with skip_unchanged does not help either
        await sensor.set(2, skip_unchanged=True)
        await clock(100)
        values_after_repeat = [value for _, _, value in bus]
        await xknx.stop()
        assert values[-1] == 2 and values_after_repeat[-1] == 2, (
            f"observed: bus saw {bus} - the most recently set value 2 never reached the bus after "
            "remove/add of the device (and set(2, skip_unchanged=True) was suppressed although the "
            "bus still holds 1); property requires: the most recently set value is sent within one "
            "cooldown after the last update unless it equals the value last on the bus"
        )

    asyncio.run(scenario())


def test_pending_value_survives_stop_and_start() -> None:
    """The same with xknx.stop() / xknx.start() on the same instance."""

    async def scenario() -> None:
        xknx, sensor, clock, bus = await setup(cooldown=10)
        await sensor.set(1)
        await clock(1)
        await sensor.set(2)
        await clock(1)
        await xknx.stop()
        await clock(1)
        await xknx.start()
        xknx.connection_manager.connection_state_changed(XknxConnectionState.CONNECTED)
        await clock(100)
        values = [value for _, _, value in bus]
        await xknx.stop()
        assert values[-1] == 2, (
            f"observed: bus saw {bus} - value 2 set before stop() was still pending in the cooldown "
            "and is never sent after start(); property requires the most recently set value to end "
            "up on the bus"
        )

    asyncio.run(scenario())
