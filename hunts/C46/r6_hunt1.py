"""
C46 hunt 1: the secured announcement of a gateway is forgotten when the same gateway
also answers the plain (Core v1) SearchRequest.

GatewayScanner sends a SearchRequestExtended *and* a SearchRequest. A gateway that
answers both is yielded twice by `async_scan()`:
  * once described by its SearchResponseExtended (with DIBSecuredServiceFamilies)
  * once described by its SearchResponse (which can not carry the secured DIB, so
    `tunnelling_requires_secure` / `routing_requires_secure` stay `None`).
The second descriptor is only suppressed when the plain SearchResponse itself declares
Core >= 2 - not when the very same control endpoint has already announced secured services.
`KNXIPInterface._start_automatic()` treats the second descriptor as an independent,
unsecured gateway and opens a plain tunnel to it.

Real library code is used for scanning (raw datagrams are fed into the real UDPTransport of
the GatewayScanner), filtering and automatic connection. Only sockets are stubbed:
`UDPTransport.connect/send` of the scanner and the `connect()` of the 5 Interface classes,
which record the attempt.
"""

from __future__ import annotations

import asyncio
from unittest.mock import patch

import pytest

from xknx import XKNX
from xknx.exceptions import IPSecureError, XKNXException
from xknx.io import ConnectionConfig, SecureConfig
from xknx.io.gateway_scanner import GatewayScanner
from xknx.io.knxip_interface import KNXIPInterface
from xknx.io.routing import Routing, SecureRouting
from xknx.io.transport import UDPTransport
from xknx.io.tunnel import SecureTunnel, TCPTunnel, UDPTunnel
from xknx.knxip import (
    HPAI,
    DIBDeviceInformation,
    DIBSecuredServiceFamilies,
    DIBServiceFamily,
    DIBSuppSVCFamilies,
    KNXIPFrame,
    SearchResponse,
    SearchResponseExtended,
)
from xknx.telegram import IndividualAddress

GW_IP = "10.1.1.11"
GW_PORT = 3671


def _device_info() -> DIBDeviceInformation:
    dib = DIBDeviceInformation()
    dib.name = "Secure GW"
    dib.serial_number = "11:22:33:44:55:66"
    dib.individual_address = IndividualAddress("1.0.0")
    dib.mac_address = "01:02:03:04:05:06"
    return dib


def _supported(core: int, tunnelling: int, routing: bool) -> DIBSuppSVCFamilies:
    dib = DIBSuppSVCFamilies()
    dib.families.append(DIBSuppSVCFamilies.Family(DIBServiceFamily.CORE, core))
    dib.families.append(
        DIBSuppSVCFamilies.Family(DIBServiceFamily.DEVICE_MANAGEMENT, 1)
    )
    if tunnelling:
        dib.families.append(
            DIBSuppSVCFamilies.Family(DIBServiceFamily.TUNNELING, tunnelling)
        )
    if routing:
        dib.families.append(DIBSuppSVCFamilies.Family(DIBServiceFamily.ROUTING, 1))
    dib.families.append(DIBSuppSVCFamilies.Family(DIBServiceFamily.SECURITY, 1))
    return dib


def _secured(tunnelling: bool, routing: bool) -> DIBSecuredServiceFamilies:
    dib = DIBSecuredServiceFamilies()
    if tunnelling:
        dib.families.append(
            DIBSecuredServiceFamilies.Family(DIBServiceFamily.TUNNELING, 1)
        )
    if routing:
        dib.families.append(
            DIBSecuredServiceFamilies.Family(DIBServiceFamily.ROUTING, 1)
        )
    return dib


def _raw(body_cls: type, dibs: list) -> bytes:
    """Serialize a search response of the gateway - parsed again by the real transport."""
    body = body_cls()
    body.control_endpoint = HPAI(ip_addr=GW_IP, port=GW_PORT)
    body.dibs.extend(dibs)
    return KNXIPFrame.init_from_body(body).to_knx()


def gateway_answers(
    core: int, tunnelling: int, routing: bool, secured: tuple[bool, bool]
) -> list[bytes]:
    """Answers of one gateway to SearchRequestExtended and SearchRequest (in request order)."""
    return [
        _raw(
            SearchResponseExtended,
            [_device_info(), _supported(core, tunnelling, routing), _secured(*secured)],
        ),
        _raw(SearchResponse, [_device_info(), _supported(core, tunnelling, routing)]),
    ]


async def auto_connect(
    datagrams: list[bytes],
    config: ConnectionConfig,
    secure_tunnel_error: Exception | None = None,
) -> tuple[list[tuple[str, str]], str]:
    """Run KNXIPInterface.start() in AUTOMATIC mode; return recorded attempts and outcome."""
    attempts: list[tuple[str, str]] = []
    sends: dict[int, int] = {}

    def stub(kind: str, error: Exception | None = None):
        async def _connect(self) -> None:  # type: ignore[no-untyped-def]
            attempts.append((kind, getattr(self, "gateway_ip", "multicast")))
            if error is not None:
                raise error

        return _connect

    async def udp_connect(self: UDPTransport) -> None:
        """No socket."""

    def udp_send(self: UDPTransport, frame: KNXIPFrame, addr=None) -> None:  # type: ignore[no-untyped-def]
        # the gateway answers once both search requests are out
        sends[id(self)] = sends.get(id(self), 0) + 1
        if sends[id(self)] == 2:
            for raw in datagrams:
                asyncio.get_running_loop().call_soon(
                    self.data_received_callback, raw, (GW_IP, GW_PORT)
                )

    original_init = GatewayScanner.__init__

    def short_scan_init(self, *args, **kwargs) -> None:  # type: ignore[no-untyped-def]
        original_init(self, *args, **kwargs)
        self.timeout_in_seconds = 0.05  # clock only - don't wait 3 s per case

    with (
        patch.object(GatewayScanner, "__init__", short_scan_init),
        patch.object(UDPTransport, "connect", udp_connect),
        patch.object(UDPTransport, "send", udp_send),
        patch.object(UDPTransport, "getsockname", lambda self: ("10.1.1.2", 56789)),
        patch("xknx.io.util.get_default_local_ip", return_value="10.1.1.2"),
        patch("xknx.io.util.find_local_ip", return_value="10.1.1.2"),
        patch("xknx.io.util.get_local_interface_name", return_value="eth0"),
        patch.object(TCPTunnel, "connect", stub("TCPTunnel (unsecured)")),
        patch.object(UDPTunnel, "connect", stub("UDPTunnel (unsecured)")),
        patch.object(Routing, "connect", stub("Routing (unsecured)")),
        patch.object(SecureTunnel, "connect", stub("SecureTunnel", secure_tunnel_error)),
        patch.object(SecureRouting, "connect", stub("SecureRouting")),
    ):
        interface = KNXIPInterface(XKNX(), config)
        try:
            await asyncio.wait_for(interface.start(), 10)
        except XKNXException as err:
            return attempts, f"{type(err).__name__}: {err}"
        info = await interface.gateway_info()
        return (
            attempts,
            f"connected; gateway_info.tunnelling_requires_secure="
            f"{info.tunnelling_requires_secure if info else None}",
        )


def unsecured_tunnels(attempts: list[tuple[str, str]]) -> list[tuple[str, str]]:
    return [
        attempt
        for attempt in attempts
        if attempt[0].startswith(("TCPTunnel", "UDPTunnel")) and attempt[1] == GW_IP
    ]


MESSAGE = (
    "\nGateway {ip} announced TUNNELING in DIBSecuredServiceFamilies of its "
    "SearchResponseExtended ({what}).\n"
    "observed connection attempts: {attempts}\n"
    "observed outcome: {outcome}\n"
    "C46 requires: automatic connection never opens an unsecured tunnel to a gateway "
    "that announces tunnelling as secured."
)


async def test_secured_udp_only_gateway_gets_plain_udp_tunnel() -> None:
    """Tunnelling v1 (UDP only), tunnelling secured, default ConnectionConfig()."""
    attempts, outcome = await auto_connect(
        gateway_answers(core=1, tunnelling=1, routing=False, secured=(True, False)),
        ConnectionConfig(),
    )
    assert not unsecured_tunnels(attempts), MESSAGE.format(
        ip=GW_IP,
        what="Core 1, Tunnelling 1; it also answered the plain SearchRequest",
        attempts=attempts,
        outcome=outcome,
    )


async def test_secured_tcp_gateway_no_credentials_gets_plain_tcp_tunnel() -> None:
    """Tunnelling v2, tunnelling secured, default ConnectionConfig() (no SecureConfig)."""
    attempts, outcome = await auto_connect(
        gateway_answers(core=1, tunnelling=2, routing=True, secured=(True, True)),
        ConnectionConfig(),
    )
    assert not unsecured_tunnels(attempts), MESSAGE.format(
        ip=GW_IP,
        what="Core 1, Tunnelling 2; it also answered the plain SearchRequest; "
        "no SecureConfig -> secure attempt skipped with InvalidSecureConfiguration",
        attempts=attempts,
        outcome=outcome,
    )


async def test_secured_tcp_gateway_failed_session_falls_back_to_plain_tcp() -> None:
    """Tunnelling v2, tunnelling secured, credentials configured but session refused."""
    attempts, outcome = await auto_connect(
        gateway_answers(core=1, tunnelling=2, routing=False, secured=(True, False)),
        ConnectionConfig(
            secure_config=SecureConfig(user_id=3, user_password="wrong-password")
        ),
        secure_tunnel_error=IPSecureError(
            "Secure session authentication failed: STATUS_AUTHENTICATION_FAILED"
        ),
    )
    assert attempts[:1] == [("SecureTunnel", GW_IP)]  # the secure attempt was made first
    assert not unsecured_tunnels(attempts), MESSAGE.format(
        ip=GW_IP,
        what="Core 1, Tunnelling 2; it also answered the plain SearchRequest; "
        "the secure session was refused (wrong password)",
        attempts=attempts,
        outcome=outcome,
    )


@pytest.mark.parametrize("tunnelling", [1, 2])
async def test_control_core_v2_declared_is_not_downgraded(tunnelling: int) -> None:
    """Control (passes): identical gateways that declare Core 2 in the plain SearchResponse."""
    attempts, outcome = await auto_connect(
        gateway_answers(
            core=2, tunnelling=tunnelling, routing=False, secured=(True, False)
        ),
        ConnectionConfig(),
    )
    assert not unsecured_tunnels(attempts), (attempts, outcome)


async def test_scan_result_forgets_secured_announcement() -> None:
    """`GatewayScanner.scan()`: the later plain response overwrites the secured descriptor."""
    scanner = GatewayScanner(XKNX(), local_ip="10.1.1.2")
    transport = UDPTransport(local_addr=("10.1.1.2", 0), remote_addr=("224.0.23.12", 3671))
    transport.register_callback(scanner._response_rec_callback)
    for raw in gateway_answers(
        core=1, tunnelling=2, routing=False, secured=(True, False)
    ):
        transport.data_received_callback(raw, (GW_IP, GW_PORT))
    (descriptor,) = scanner.found_gateways.values()
    assert descriptor.tunnelling_requires_secure, (
        f"\nGateway {GW_IP} announced TUNNELING as secured, but after its plain SearchResponse "
        f"the scan result for the same control endpoint says tunnelling_requires_secure="
        f"{descriptor.tunnelling_requires_secure!r}; a secured gateway must stay secured "
        "in the scan result (C46: the security requirement of a discovered gateway must not be lost)."
    )
