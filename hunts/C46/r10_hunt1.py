"""
C46 hunt 1: the plain SearchResponse of a gateway that announced secured tunnelling
in its SearchResponseExtended is turned into a second, "unsecured" descriptor.

GatewayScanner decides whether to drop a plain SearchResponse only from the CORE
version inside that very frame. A gateway whose plain SearchResponse does not say
"CORE >= 2" (core version 1, or no CORE entry) is therefore yielded twice by
`async_scan()`: once with `tunnelling_requires_secure=True` (extended response) and
once with `tunnelling_requires_secure=None` (plain response). `_start_automatic`
treats both as independent gateways and opens a plain TCP/UDP tunnel to the gateway
that has just announced its tunnelling service as secured.

Everything below the UDP socket and above the tunnel/routing classes is the real
library: real frames are serialised, fed into the real UDPTransport receive path,
parsed by the real GatewayScanner and connected by the real KNXIPInterface.
"""

from __future__ import annotations

import asyncio
from typing import Any
from unittest.mock import patch

import pytest

from xknx import XKNX
from xknx.exceptions import CommunicationError
from xknx.io import ConnectionConfig, SecureConfig
from xknx.io import knxip_interface as kmod
from xknx.io.gateway_scanner import GatewayScanner
from xknx.io.transport import UDPTransport
from xknx.knxip import (
    HPAI,
    DIBDeviceInformation,
    DIBServiceFamily,
    KNXIPFrame,
    SearchResponse,
    SearchResponseExtended,
)
from xknx.knxip.dib import DIBSecuredServiceFamilies, DIBSuppSVCFamilies
from xknx.telegram import IndividualAddress

GW_IP = "10.1.2.3"
GW_PORT = 3671
LOCAL_IP = "10.1.2.100"


def search_response(
    *,
    extended: bool,
    core: int | None,
    tunnelling: int | None,
    routing: bool = False,
    secured: tuple[DIBServiceFamily, ...] | None = None,
) -> bytes:
    """Serialise a SearchResponse(Extended) of the gateway at GW_IP."""
    body = SearchResponseExtended() if extended else SearchResponse()
    body.control_endpoint = HPAI(ip_addr=GW_IP, port=GW_PORT)
    info = DIBDeviceInformation()
    info.name = "Secure IP Interface"
    info.individual_address = IndividualAddress("1.0.0")
    info.serial_number = "11:22:33:44:55:66"
    info.mac_address = "01:02:03:04:05:06"
    families = DIBSuppSVCFamilies()
    if core is not None:
        families.families.append(
            DIBSuppSVCFamilies.Family(DIBServiceFamily.CORE, core)
        )
    families.families.append(
        DIBSuppSVCFamilies.Family(DIBServiceFamily.DEVICE_MANAGEMENT, 1)
    )
    if tunnelling is not None:
        families.families.append(
            DIBSuppSVCFamilies.Family(DIBServiceFamily.TUNNELING, tunnelling)
        )
    if routing:
        families.families.append(
            DIBSuppSVCFamilies.Family(DIBServiceFamily.ROUTING, 1)
        )
    body.dibs = [info, families]
    if secured is not None:
        assert extended, "only the extended response carries the secured-families DIB"
        sec = DIBSecuredServiceFamilies()
        for family in secured:
            sec.families.append(DIBSuppSVCFamilies.Family(family, 1))
        body.dibs.append(sec)
    return KNXIPFrame.init_from_body(body).to_knx()


class StubFactory:
    """Stands in for TCPTunnel / UDPTunnel / SecureTunnel / Routing / SecureRouting."""

    attempts: list[tuple[str, str | None]] = []
    secure_session_fails = False

    def __init__(self, kind: str) -> None:
        self.kind = kind

    def __call__(self, *args: Any, **kwargs: Any) -> Any:
        kind = self.kind

        class _Stub:
            async def connect(self) -> None:
                StubFactory.attempts.append((kind, kwargs.get("gateway_ip")))
                if kind == "SecureTunnel" and StubFactory.secure_session_fails:
                    raise CommunicationError("secure session refused")

            async def disconnect(self) -> None:
                return None

        return _Stub()


async def automatic_connect(
    frames: list[bytes],
    secure_config: SecureConfig | None,
    secure_session_fails: bool = False,
) -> tuple[str, list[tuple[str, str | None]]]:
    """Run KNXIPInterface.start() (AUTOMATIC) against a network answering with `frames`."""
    StubFactory.attempts = []
    StubFactory.secure_session_fails = secure_session_fails
    sent = 0

    async def fake_connect(self: UDPTransport) -> None:
        return None

    def fake_send(self: UDPTransport, frame: KNXIPFrame, addr: Any = None) -> None:
        # answer once both search requests (extended + plain) are on the wire
        nonlocal sent
        sent += 1
        if sent == 2:
            loop = asyncio.get_running_loop()
            for raw in frames:
                loop.call_soon(self.data_received_callback, raw, (GW_IP, GW_PORT))

    orig_init = GatewayScanner.__init__

    def short_scan_init(self: GatewayScanner, *args: Any, **kwargs: Any) -> None:
        orig_init(self, *args, **kwargs)
        self.timeout_in_seconds = 0.05  # clock only

    interface = kmod.KNXIPInterface(
        XKNX(), ConnectionConfig(secure_config=secure_config)
    )
    with (
        patch.object(UDPTransport, "connect", fake_connect),
        patch.object(UDPTransport, "send", fake_send),
        patch.object(UDPTransport, "getsockname", lambda self: (LOCAL_IP, 50000)),
        patch.object(UDPTransport, "stop", lambda self: None),
        patch.object(GatewayScanner, "__init__", short_scan_init),
        patch.object(kmod, "TCPTunnel", StubFactory("TCPTunnel")),
        patch.object(kmod, "UDPTunnel", StubFactory("UDPTunnel")),
        patch.object(kmod, "SecureTunnel", StubFactory("SecureTunnel")),
        patch.object(kmod, "Routing", StubFactory("Routing")),
        patch.object(kmod, "SecureRouting", StubFactory("SecureRouting")),
        patch("xknx.io.util.get_default_local_ip", return_value=LOCAL_IP),
        patch("xknx.io.util.validate_ip", side_effect=lambda ip, **kw: ip),
        patch("xknx.io.util.get_local_interface_name", return_value="eth0"),
        patch("xknx.io.util.find_local_ip", return_value=LOCAL_IP),
    ):
        outcome = "connected"
        try:
            await interface.start()
        except CommunicationError as ex:
            outcome = f"CommunicationError({ex})"
    return outcome, list(StubFactory.attempts)


def unsecured_tunnels(attempts: list[tuple[str, str | None]]) -> list[tuple[str, str | None]]:
    """Return the unsecured tunnel attempts made to the secured gateway."""
    return [a for a in attempts if a[0] in ("TCPTunnel", "UDPTunnel") and a[1] == GW_IP]


T = DIBServiceFamily.TUNNELING

# (id, extended response kwargs, plain response kwargs)
WORLDS = [
    pytest.param(
        {"core": 1, "tunnelling": 2, "secured": (T,)},
        {"core": 1, "tunnelling": 2},
        id="core-v1-in-both-frames",
    ),
    pytest.param(
        {"core": 2, "tunnelling": 2, "secured": (T,)},
        {"core": None, "tunnelling": 2},
        id="plain-frame-without-CORE-entry",
    ),
    pytest.param(
        {"core": 2, "tunnelling": 2, "secured": (T,)},
        {"core": 1, "tunnelling": 1},
        id="plain-frame-gives-legacy-v1-view",
    ),
]


async def test_control_core_v2_gateway_is_never_downgraded() -> None:
    """Sanity check of the harness: the sampled Core-V2 case behaves (passes)."""
    ext = search_response(extended=True, core=2, tunnelling=2, secured=(T,))
    plain = search_response(extended=False, core=2, tunnelling=2)
    for frames in ([ext, plain], [plain, ext]):
        outcome, attempts = await automatic_connect(frames, secure_config=None)
        assert not unsecured_tunnels(attempts), (outcome, attempts)


@pytest.mark.parametrize("ext_kwargs,plain_kwargs", WORLDS)
async def test_no_credentials_falls_back_to_plain_tunnel(
    ext_kwargs: dict[str, Any], plain_kwargs: dict[str, Any]
) -> None:
    """The user has no secure credentials; extended response arrives first."""
    ext = search_response(extended=True, **ext_kwargs)
    plain = search_response(extended=False, **plain_kwargs)
    outcome, attempts = await automatic_connect([ext, plain], secure_config=None)
    bad = unsecured_tunnels(attempts)
    assert not bad, (
        f"gateway {GW_IP} announced TUNNELING in its DIBSecuredServiceFamilies "
        f"(SearchResponseExtended), yet automatic connection made the unsecured "
        f"attempt(s) {bad} (all attempts: {attempts}, start(): {outcome}). "
        "C46 requires that no unsecured tunnel is ever opened to a gateway that "
        "announces tunnelling as secured."
    )


@pytest.mark.parametrize("ext_kwargs,plain_kwargs", WORLDS)
async def test_refused_secure_session_falls_back_to_plain_tunnel(
    ext_kwargs: dict[str, Any], plain_kwargs: dict[str, Any]
) -> None:
    """Credentials are configured, the secure session fails (e.g. wrong password)."""
    ext = search_response(extended=True, **ext_kwargs)
    plain = search_response(extended=False, **plain_kwargs)
    outcome, attempts = await automatic_connect(
        [ext, plain],
        secure_config=SecureConfig(user_id=2, user_password="wrong"),
        secure_session_fails=True,
    )
    bad = unsecured_tunnels(attempts)
    assert not bad, (
        f"after the SecureTunnel attempt to {GW_IP} failed, automatic connection "
        f"retried the same gateway without security: {bad} (all attempts: "
        f"{attempts}, start(): {outcome}). C46 requires that a gateway announcing "
        "tunnelling as secured is never connected with an unsecured tunnel."
    )


async def test_secured_router_gets_unsecured_routing() -> None:
    """Routing variant: a router announcing ROUTING as secured, core version 1."""
    routing = DIBServiceFamily.ROUTING
    ext = search_response(
        extended=True, core=1, tunnelling=None, routing=True, secured=(routing,)
    )
    plain = search_response(extended=False, core=1, tunnelling=None, routing=True)
    # plain answer delivered first (with the extended answer first the library
    # reports "connected" without opening anything - see HUNT_REPORT notes)
    outcome, attempts = await automatic_connect([plain, ext], secure_config=None)
    bad = [a for a in attempts if a[0] == "Routing"]
    assert not bad, (
        f"router {GW_IP} announced ROUTING in its DIBSecuredServiceFamilies, yet "
        f"automatic connection opened unsecured routing {bad} because of the "
        f"router's plain SearchResponse (all attempts: {attempts}, start(): "
        f"{outcome}). C46 requires that no unsecured routing connection is opened "
        "to a gateway announcing routing as secured."
    )


@pytest.mark.parametrize("ext_kwargs,plain_kwargs", WORLDS)
async def test_plain_response_first_preempts_secure_tunnel(
    ext_kwargs: dict[str, Any], plain_kwargs: dict[str, Any]
) -> None:
    """Valid credentials, but the plain SearchResponse is delivered first."""
    ext = search_response(extended=True, **ext_kwargs)
    plain = search_response(extended=False, **plain_kwargs)
    outcome, attempts = await automatic_connect(
        [plain, ext],
        secure_config=SecureConfig(user_id=2, user_password="correct"),
    )
    bad = unsecured_tunnels(attempts)
    assert not bad, (
        f"both answers of gateway {GW_IP} arrived in the same loop iteration, the "
        f"plain one first; although valid secure credentials are configured the "
        f"library connected with {bad} and never tried SecureTunnel (all attempts: "
        f"{attempts}, start(): {outcome}). C46 requires that a gateway announcing "
        "tunnelling as secured is never connected with an unsecured tunnel."
    )
