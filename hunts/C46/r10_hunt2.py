"""
C46 hunt 2: a secured-service announcement is forgotten when the response carries a
second DIBSecuredServiceFamilies block.

`GatewayDescriptor.parse_dibs` *assigns* `tunnelling_requires_secure` and
`routing_requires_secure` for every DIBSecuredServiceFamilies it meets, so the last
block wins and an earlier "TUNNELING is secured" / "ROUTING is secured" is reset to
False. The gateway did announce the service as secured, automatic connection opens
an unsecured tunnel / unsecured routing connection anyway (fail-open).

Uses the harness of hunt1.py (same directory): real frames -> real UDPTransport
receive path -> real GatewayScanner -> real KNXIPInterface; only the socket and the
tunnel/routing classes are stubbed.
"""

from __future__ import annotations

import sys
from pathlib import Path

sys.path.insert(0, str(Path(__file__).parent))

from r10_hunt1 import GW_IP, GW_PORT, automatic_connect  # noqa: E402

from xknx.knxip import (  # noqa: E402
    HPAI,
    DIBDeviceInformation,
    DIBServiceFamily,
    KNXIPFrame,
    SearchResponseExtended,
)
from xknx.knxip.dib import (  # noqa: E402
    DIBSecuredServiceFamilies,
    DIBSuppSVCFamilies,
)
from xknx.telegram import IndividualAddress  # noqa: E402

T = DIBServiceFamily.TUNNELING
R = DIBServiceFamily.ROUTING
M = DIBServiceFamily.DEVICE_MANAGEMENT


def extended_response(
    supported: dict[DIBServiceFamily, int],
    secured_blocks: list[tuple[DIBServiceFamily, ...]],
) -> bytes:
    """Core-V2 SearchResponseExtended with one secured-families DIB per block."""
    body = SearchResponseExtended()
    body.control_endpoint = HPAI(ip_addr=GW_IP, port=GW_PORT)
    info = DIBDeviceInformation()
    info.name = "Secure IP Router"
    info.individual_address = IndividualAddress("1.0.0")
    info.serial_number = "11:22:33:44:55:66"
    info.mac_address = "01:02:03:04:05:06"
    families = DIBSuppSVCFamilies()
    for name, version in supported.items():
        families.families.append(DIBSuppSVCFamilies.Family(name, version))
    body.dibs = [info, families]
    for block in secured_blocks:
        sec = DIBSecuredServiceFamilies()
        for name in block:
            sec.families.append(DIBSuppSVCFamilies.Family(name, 1))
        body.dibs.append(sec)
    raw = KNXIPFrame.init_from_body(body).to_knx()
    # the frame is well-formed for the library's own parser
    frame, rest = KNXIPFrame.from_knx(raw)
    assert rest == b"" and len(frame.body.dibs) == 2 + len(secured_blocks)
    return raw


async def test_control_single_block_is_respected() -> None:
    """Sanity: the same announcement in ONE block is honoured (passes)."""
    raw = extended_response({DIBServiceFamily.CORE: 2, T: 2, R: 1}, [(T, R)])
    outcome, attempts = await automatic_connect([raw], secure_config=None)
    assert not [a for a in attempts if a[0] != "SecureTunnel"], (outcome, attempts)


async def test_secured_tunnelling_forgotten_after_second_block() -> None:
    """Blocks [TUNNELING], [ROUTING]: tunnelling is announced secured in block 1."""
    raw = extended_response({DIBServiceFamily.CORE: 2, T: 2, R: 1}, [(T,), (R,)])
    outcome, attempts = await automatic_connect([raw], secure_config=None)
    bad = [a for a in attempts if a[0] in ("TCPTunnel", "UDPTunnel")]
    assert not bad, (
        f"gateway {GW_IP} listed TUNNELING in a DIBSecuredServiceFamilies block, "
        f"automatic connection nevertheless made the unsecured attempt(s) {bad} "
        f"(all attempts: {attempts}, start(): {outcome}). C46 requires that no "
        "unsecured tunnel is opened to a gateway announcing tunnelling as secured."
    )


async def test_secured_routing_forgotten_after_second_block() -> None:
    """Routing-only gateway, blocks [ROUTING], [DEVICE_MANAGEMENT]."""
    raw = extended_response({DIBServiceFamily.CORE: 2, M: 2, R: 1}, [(R,), (M,)])
    outcome, attempts = await automatic_connect([raw], secure_config=None)
    bad = [a for a in attempts if a[0] == "Routing"]
    assert not bad, (
        f"gateway {GW_IP} listed ROUTING in a DIBSecuredServiceFamilies block, "
        f"automatic connection nevertheless opened unsecured routing {bad} "
        f"(all attempts: {attempts}, start(): {outcome}). C46 requires that no "
        "unsecured routing connection is opened to a gateway announcing routing "
        "as secured."
    )
