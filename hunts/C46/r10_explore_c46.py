"""Exploration harness for C46 (not a deliverable)."""

from __future__ import annotations

import asyncio
import itertools
import sys
from unittest.mock import patch

import xknx
from xknx import XKNX
from xknx.exceptions import CommunicationError
from xknx.io import ConnectionConfig, GatewayScanFilter, SecureConfig
from xknx.io import knxip_interface as kmod
from xknx.io.gateway_scanner import GatewayScanner
from xknx.io.transport import UDPTransport
from xknx.knxip import (
    HPAI,
    DIBDeviceInformation,
    DIBServiceFamily,
    KNXIPFrame,
    SearchResponse,
    SearchResponseExtended,
)
from xknx.knxip.dib import DIBSecuredServiceFamilies, DIBSuppSVCFamilies
from xknx.telegram import IndividualAddress

print(xknx.__file__)

GW_IP = "10.1.2.3"


def make_frame(extended, core, tun_ver, routing, secured):
    body = SearchResponseExtended() if extended else SearchResponse()
    body.control_endpoint = HPAI(ip_addr=GW_IP, port=3671)
    info = DIBDeviceInformation()
    info.name = "gw"
    info.individual_address = IndividualAddress("1.0.0")
    info.serial_number = "11:22:33:44:55:66"
    info.mac_address = "01:02:03:04:05:06"
    fam = DIBSuppSVCFamilies()
    if core:
        fam.families.append(DIBSuppSVCFamilies.Family(DIBServiceFamily.CORE, core))
    if tun_ver:
        fam.families.append(
            DIBSuppSVCFamilies.Family(DIBServiceFamily.TUNNELING, tun_ver)
        )
    if routing:
        fam.families.append(DIBSuppSVCFamilies.Family(DIBServiceFamily.ROUTING, 1))
    body.dibs = [info, fam]
    if extended and secured is not None:
        sec = DIBSecuredServiceFamilies()
        for name in secured:
            sec.families.append(DIBSuppSVCFamilies.Family(name, 1))
        body.dibs.append(sec)
    return KNXIPFrame.init_from_body(body).to_knx()


class Recorder:
    attempts: list = []
    secure_fails = False

    def __init__(self, kind):
        self.kind = kind

    def __call__(self, *args, **kwargs):
        rec = self

        class Stub:
            async def connect(self_inner):
                Recorder.attempts.append((rec.kind, kwargs.get("gateway_ip")))
                if rec.kind in ("SecureTunnel",) and Recorder.secure_fails:
                    raise CommunicationError("secure session refused")

            async def disconnect(self_inner):
                pass

        return Stub()


async def run_world(frames, scan_filter, secure_config, secure_fails):
    Recorder.attempts = []
    Recorder.secure_fails = secure_fails
    sent = {"n": 0}

    async def fake_connect(self):
        return None

    def fake_send(self, frame, addr=None):
        sent["n"] += 1
        if sent["n"] == 2:
            loop = asyncio.get_running_loop()
            for raw in frames:
                loop.call_soon(self.data_received_callback, raw, (GW_IP, 3671))

    orig_init = GatewayScanner.__init__

    def fast_init(self, *a, **kw):
        orig_init(self, *a, **kw)
        self.timeout_in_seconds = 0.01

    xk = XKNX()
    cfg = ConnectionConfig(scan_filter=scan_filter, secure_config=secure_config)
    iface = kmod.KNXIPInterface(xk, cfg)
    with (
        patch.object(UDPTransport, "connect", fake_connect),
        patch.object(UDPTransport, "send", fake_send),
        patch.object(UDPTransport, "getsockname", lambda self: ("10.1.2.100", 5555)),
        patch.object(UDPTransport, "stop", lambda self: None),
        patch.object(GatewayScanner, "__init__", fast_init),
        patch.object(kmod, "TCPTunnel", Recorder("TCPTunnel")),
        patch.object(kmod, "UDPTunnel", Recorder("UDPTunnel")),
        patch.object(kmod, "SecureTunnel", Recorder("SecureTunnel")),
        patch.object(kmod, "Routing", Recorder("Routing")),
        patch.object(kmod, "SecureRouting", Recorder("SecureRouting")),
        patch("xknx.io.util.get_default_local_ip", return_value="10.1.2.100"),
        patch("xknx.io.util.validate_ip", side_effect=lambda ip, **kw: ip),
        patch("xknx.io.util.get_local_interface_name", return_value="eth0"),
        patch("xknx.io.util.find_local_ip", return_value="10.1.2.100"),
    ):
        result = "ok"
        try:
            await iface.start()
        except Exception as ex:  # noqa: BLE001
            result = type(ex).__name__
    return result, list(Recorder.attempts), iface._interface is not None


async def main():
    T = DIBServiceFamily.TUNNELING
    R = DIBServiceFamily.ROUTING
    secured_opts = [None, (), (T,), (R,), (T, R)]
    viol = {}
    count = 0
    silent = {}
    for core, tun, routing, secured, order, sc, sf in itertools.product(
        (0, 1, 2), (0, 1, 2), (0, 1), secured_opts, ("ext", "plain"), (0, 1), (0, 1)
    ):
        ext = make_frame(True, core, tun, routing, secured)
        plain = make_frame(False, core, tun, routing, None)
        frames = [ext, plain] if order == "ext" else [plain, ext]
        if secured is None and core < 2:
            frames = [plain]
        for flags in itertools.product((True, False), repeat=5):
            filt = GatewayScanFilter(
                tunnelling=flags[0],
                tunnelling_tcp=flags[1],
                routing=flags[2],
                secure_tunnelling=flags[3],
                secure_routing=flags[4],
            )
            secure_config = (
                SecureConfig(user_id=2, user_password="pw") if sc else None
            )
            res, attempts, has_if = await run_world(frames, filt, secure_config, sf)
            count += 1
            tsec = secured is not None and T in secured
            rsec = secured is not None and R in secured
            for kind, ip in attempts:
                if kind in ("TCPTunnel", "UDPTunnel") and tsec:
                    viol.setdefault(
                        ("tunnel", core, tun, routing, secured, order, sc, sf), []
                    ).append((flags, attempts, res))
                if kind == "Routing" and rsec:
                    viol.setdefault(
                        ("routing", core, tun, routing, secured, order, sc, sf), []
                    ).append((flags, attempts, res))
            if res == "ok" and not has_if:
                silent.setdefault((core, tun, routing, secured), []).append(flags)
    print("worlds", count)
    print("violations", len(viol))
    for k, v in list(viol.items())[:40]:
        print(k, len(v), v[0])
    print("silent-success-without-interface", len(silent))
    for k, v in list(silent.items())[:20]:
        print(k, len(v), v[0])


asyncio.run(main())
