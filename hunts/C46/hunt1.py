"""
C46 hunt 1: a gateway that announces tunnelling / routing as secured is downgraded
when its plain SearchResponse does not advertise KNXnet/IP Core >= 2.

GatewayScanner always sends a SearchRequestExtended *and* a SearchRequest. A gateway
answers both. The SearchResponseExtended carries DIB_SECURED_SERVICE_FAMILIES (the
announcement "tunnelling/routing requires security"), the plain SearchResponse can not.
`GatewayScanner._response_rec_callback()` drops the plain SearchResponse only if its
DIB_SUPP_SVC_FAMILIES lists Core version >= 2 - for core version 1 (or no Core entry)
the plain response becomes a second GatewayDescriptor of the very same gateway with
`tunnelling_requires_secure = routing_requires_secure = None`, it passes the
non-secure arms of GatewayScanFilter.match() and KNXIPInterface._start_automatic()
opens an unsecured tunnel / unsecured routing connection for it.

Real classes are used throughout (KNXIPInterface, GatewayScanner, UDPTransport frame
parsing, TCPTunnel / UDPTunnel / SecureTunnel / Routing objects). Mocked is only the
network boundary: the scanner's UDP socket (connect / send / getsockname) and the
`connect()` of the interface classes, which record the connection attempt.
"""

from __future__ import annotations

import asyncio
from unittest.mock import patch

import pytest

from xknx import XKNX
from xknx.exceptions import CommunicationError
from xknx.io import ConnectionConfig, GatewayScanFilter
from xknx.io.gateway_scanner import GatewayScanner
from xknx.io.knxip_interface import KNXIPInterface
from xknx.io.routing import Routing, SecureRouting
from xknx.io.transport import UDPTransport
from xknx.io.tunnel import SecureTunnel, TCPTunnel, UDPTunnel
from xknx.knxip import (
    HPAI,
    DIBServiceFamily,
    KNXIPFrame,
    SearchRequest,
    SearchRequestExtended,
    SearchResponse,
    SearchResponseExtended,
)
from xknx.knxip.dib import (
    DIBDeviceInformation,
    DIBSecuredServiceFamilies,
    DIBSuppSVCFamilies,
    DIBTunnelingInfo,
    TunnelingSlotStatus,
)
from xknx.telegram import IndividualAddress

GW_IP = "10.1.0.40"
GW_PORT = 3671
LOCAL_IP = "10.1.0.2"

Family = DIBSuppSVCFamilies.Family

_scanner_init = GatewayScanner.__init__


def _short_scan_init(self: GatewayScanner, *args, **kwargs) -> None:  # type: ignore[no-untyped-def]
    """Clock shortcut only: the 3 s scan window is cut to 50 ms."""
    _scanner_init(self, *args, **kwargs)
    self.timeout_in_seconds = 0.05


def gateway_responses(
    *,
    core_version: int | None,
    tunnelling_version: int | None,
    routing: bool,
    secured: tuple[DIBServiceFamily, ...],
) -> tuple[bytes, bytes]:
    """Return the raw (SearchResponse, SearchResponseExtended) of one gateway."""
    device_info = DIBDeviceInformation()
    device_info.name = "Secured gateway"
    device_info.individual_address = IndividualAddress("1.0.0")
    device_info.serial_number = "11:22:33:44:55:66"
    device_info.mac_address = "01:02:03:04:05:06"

    families = [Family(DIBServiceFamily.DEVICE_MANAGEMENT, core_version or 1)]
    if core_version is not None:
        # None: the device does not list the (mandatory) Core family at all
        families.insert(0, Family(DIBServiceFamily.CORE, core_version))
    if tunnelling_version:
        families.append(Family(DIBServiceFamily.TUNNELING, tunnelling_version))
    if routing:
        families.append(Family(DIBServiceFamily.ROUTING, 1))

    plain_families = DIBSuppSVCFamilies()
    plain_families.families = list(families)
    plain = SearchResponse(control_endpoint=HPAI(GW_IP, GW_PORT))
    plain.dibs = [device_info, plain_families]

    extended_families = DIBSuppSVCFamilies()
    extended_families.families = [*families, Family(DIBServiceFamily.SECURITY, 1)]
    secured_families = DIBSecuredServiceFamilies()
    secured_families.families = [Family(family, 1) for family in secured]
    extended = SearchResponseExtended(control_endpoint=HPAI(GW_IP, GW_PORT))
    extended.dibs = [
        device_info,
        extended_families,
        secured_families,
        DIBTunnelingInfo(
            {IndividualAddress("1.0.1"): TunnelingSlotStatus(True, False, True)}
        ),
    ]
    return (
        KNXIPFrame.init_from_body(plain).to_knx(),
        KNXIPFrame.init_from_body(extended).to_knx(),
    )


async def automatic_start(
    datagrams: list[bytes],
    scan_filter: GatewayScanFilter | None = None,
) -> tuple[list[str], str]:
    """
    Run a real automatic KNXIPInterface.start() against a simulated network.

    `datagrams` are delivered to the scanner's UDP socket - in the given order - once
    both search requests are on the wire. Return the recorded connection attempts
    (kind of interface whose connect() was called) and the outcome of start().
    """
    attempts: list[str] = []
    loop = asyncio.get_running_loop()

    async def socket_connect(self: UDPTransport) -> None:
        return None

    def socket_send(
        self: UDPTransport, frame: KNXIPFrame, addr: tuple[str, int] | None = None
    ) -> None:
        # the SearchRequest is the second (last) request the scanner sends
        if isinstance(frame.body, SearchRequest) and not isinstance(
            frame.body, SearchRequestExtended
        ):
            for raw in datagrams:
                loop.call_soon(self.data_received_callback, raw, (GW_IP, GW_PORT))

    def recording_connect(kind: str):  # type: ignore[no-untyped-def]
        async def _connect(self) -> None:  # type: ignore[no-untyped-def]
            attempts.append(kind)

        return _connect

    xknx = XKNX()
    interface = KNXIPInterface(
        xknx,
        ConnectionConfig(local_ip=LOCAL_IP, scan_filter=scan_filter),
    )
    with (
        patch.object(UDPTransport, "connect", socket_connect),
        patch.object(UDPTransport, "send", socket_send),
        patch.object(UDPTransport, "getsockname", lambda self: (LOCAL_IP, 50000)),
        patch("xknx.io.util.get_local_interface_name", return_value="eth0"),
        patch("xknx.io.util.find_local_ip", return_value=LOCAL_IP),
        patch.object(TCPTunnel, "connect", recording_connect("unsecured TCP tunnel")),
        patch.object(UDPTunnel, "connect", recording_connect("unsecured UDP tunnel")),
        patch.object(SecureTunnel, "connect", recording_connect("secure tunnel")),
        patch.object(Routing, "connect", recording_connect("unsecured routing")),
        patch.object(SecureRouting, "connect", recording_connect("secure routing")),
        patch.object(GatewayScanner, "__init__", _short_scan_init),
    ):
        try:
            await asyncio.wait_for(interface.start(), timeout=10)
        except CommunicationError as err:
            outcome = f"CommunicationError({err})"
        else:
            outcome = f"started, gateway_info={interface._gateway_info!s}"
    return attempts, outcome


@pytest.mark.parametrize("order", ["extended_first", "plain_first"])
async def test_control_core_v2_gateway_is_not_downgraded(order: str) -> None:
    """Control: the same gateway advertising Core v2 is never connected unsecured."""
    plain, extended = gateway_responses(
        core_version=2,
        tunnelling_version=2,
        routing=True,
        secured=(DIBServiceFamily.TUNNELING, DIBServiceFamily.ROUTING),
    )
    datagrams = [extended, plain] if order == "extended_first" else [plain, extended]
    # no secure credentials are configured: the only legal outcome is "no usable device"
    attempts, outcome = await automatic_start(datagrams)
    assert attempts == [], (attempts, outcome)
    assert outcome.startswith("CommunicationError"), outcome


@pytest.mark.parametrize("order", ["extended_first", "plain_first"])
@pytest.mark.parametrize("tunnelling_version", [2, 1])
@pytest.mark.parametrize("core_version", [1, None])
async def test_secured_tunnelling_is_not_downgraded(
    order: str, tunnelling_version: int, core_version: int | None
) -> None:
    """A gateway announcing tunnelling as secured must not get an unsecured tunnel."""
    plain, extended = gateway_responses(
        core_version=core_version,
        tunnelling_version=tunnelling_version,
        routing=False,
        secured=(DIBServiceFamily.TUNNELING,),
    )
    datagrams = [extended, plain] if order == "extended_first" else [plain, extended]
    attempts, outcome = await automatic_start(datagrams)
    unsecured = [a for a in attempts if a.startswith("unsecured")]
    assert not unsecured, (
        f"OBSERVED: automatic connection made the attempts {attempts} ({outcome}) to "
        f"gateway {GW_IP}, whose SearchResponseExtended lists TUNNELING in "
        "DIB_SECURED_SERVICE_FAMILIES (tunnelling announced as secured); its plain "
        f"SearchResponse (Core version {core_version} in DIB_SUPP_SVC_FAMILIES) was accepted as a second, "
        "'unsecured' descriptor of the same gateway. "
        "REQUIRED (C46): automatic connection never opens an unsecured tunnel to a "
        "gateway that announces tunnelling as secured, and the scan filter's "
        "non-secure tunnelling arms must not match it."
    )


@pytest.mark.parametrize("order", ["extended_first", "plain_first"])
async def test_secured_routing_is_not_downgraded(order: str) -> None:
    """A gateway announcing routing as secured must not get unsecured routing."""
    plain, extended = gateway_responses(
        core_version=1,
        tunnelling_version=None,
        routing=True,
        secured=(DIBServiceFamily.ROUTING,),
    )
    datagrams = [extended, plain] if order == "extended_first" else [plain, extended]
    # the user even restricted the scan to plain routers: a secured router must not match
    scan_filter = GatewayScanFilter(
        tunnelling=False,
        tunnelling_tcp=False,
        routing=True,
        secure_tunnelling=False,
        secure_routing=False,
    )
    attempts, outcome = await automatic_start(datagrams, scan_filter)
    unsecured = [a for a in attempts if a.startswith("unsecured")]
    assert not unsecured, (
        f"OBSERVED: automatic connection made the attempts {attempts} ({outcome}) for "
        f"gateway {GW_IP}, whose SearchResponseExtended lists ROUTING in "
        "DIB_SECURED_SERVICE_FAMILIES (routing announced as secured); the scan filter "
        "(routing=True, secure_routing=False) matched the gateway's plain "
        "SearchResponse (Core v1). "
        "REQUIRED (C46): automatic connection never opens an unsecured routing "
        "connection to a gateway that announces routing as secured; the filter matches "
        "only when the security requirement agrees."
    )
