"""
C30 hunt 1 - the timer value carried by outgoing SecureWrappers decreases.

`SecureGroup.send()` does not wait for (or check) the timer synchronisation, and
`SecureSequenceTimer.synchronize()` applies the synchronisation reply with an absolute
assignment (`update()`), discarding whatever the timer has reached meanwhile.

A telegram sent while `SecureRouting.connect()` is still synchronising therefore goes out
with timer value T1; a (genuine, authenticated) synchronisation reply carrying a lower value
pulls the timer back and the next wrapper carries T2 < T1.

Run: /venv/bin/python -m pytest -q -p no:cacheprovider hunt1.py
"""

from __future__ import annotations

import asyncio
from unittest.mock import Mock, patch

from xknx import XKNX
from xknx.cemi import CEMIFrame, CEMILData, CEMIMessageCode
from xknx.exceptions import CommunicationError
from xknx.io.const import XKNX_SERIAL_NUMBER
from xknx.io.routing import SecureRouting
from xknx.knxip import KNXIPFrame, SecureWrapper, TimerNotify
from xknx.secure.security_primitives import (
    calculate_message_authentication_code_cbc,
    encrypt_data_ctr,
)
from xknx.telegram import GroupAddress, IndividualAddress, Telegram, apci

BACKBONE_KEY = bytes.fromhex("000102030405060708090a0b0c0d0e0f")
PEER_SERIAL = bytes.fromhex("00fa12345678")
PEER_ADDR = ("192.168.1.2", 3671)
ONE_HOUR_MS = 60 * 60 * 1000


class VirtualClock:
    """Replace loop.time() by a virtual clock (the clock is the only thing mocked besides the socket)."""

    def __init__(self, loop: asyncio.AbstractEventLoop, start: float = 50_000.0) -> None:
        self.now = start
        self.loop = loop
        loop.time = lambda: self.now  # type: ignore[method-assign]

    async def settle(self) -> None:
        for _ in range(20):
            await asyncio.sleep(0)

    async def advance(self, seconds: float) -> None:
        await self.settle()
        self.now += seconds
        await self.settle()


def genuine_timer_notify(timer_value: int, serial: bytes, tag: bytes) -> bytes:
    """Return the datagram of a TimerNotify authenticated with the backbone key."""
    timer_bytes = timer_value.to_bytes(6, "big")
    mac_cbc = calculate_message_authentication_code_cbc(
        key=BACKBONE_KEY,
        additional_data=bytes.fromhex("06 10 09 55 00 24"),
        block_0=timer_bytes + serial + tag + b"\x00\x00",
    )
    _, mac = encrypt_data_ctr(
        key=BACKBONE_KEY,
        counter_0=timer_bytes + serial + tag + b"\xff\x00",
        mac_cbc=mac_cbc,
    )
    return KNXIPFrame.init_from_body(
        TimerNotify(
            timer_value=timer_value,
            serial_number=serial,
            message_tag=tag,
            message_authentication_code=mac,
        )
    ).to_knx()


def test_cemi() -> CEMIFrame:
    return CEMIFrame(
        code=CEMIMessageCode.L_DATA_REQ,
        data=CEMILData.init_from_telegram(
            Telegram(
                destination_address=GroupAddress("1/2/3"),
                payload=apci.GroupValueRead(),
            ),
            src_addr=IndividualAddress("1.1.5"),
        ),
    )


test_cemi.__test__ = False  # type: ignore[attr-defined]


async def _run(foreign_notify_first: bool) -> tuple[list[int], list[str]]:
    """Run the history and return the timer values of the outgoing wrappers."""
    clock = VirtualClock(asyncio.get_running_loop())
    sent: list[KNXIPFrame] = []
    notes: list[str] = []

    def fake_udp_send(
        self: object, knxipframe: KNXIPFrame, addr: tuple[str, int] | None = None
    ) -> None:
        sent.append(knxipframe)

    async def fake_udp_connect(self: object) -> None:
        return None

    with (
        patch("xknx.io.transport.udp_transport.UDPTransport.send", fake_udp_send),
        patch(
            "xknx.io.transport.udp_transport.UDPTransport.connect", fake_udp_connect
        ),
    ):
        xknx = XKNX()
        routing = SecureRouting(
            xknx,
            individual_address=IndividualAddress("1.1.5"),
            cemi_received_callback=Mock(),
            local_ip="192.168.1.50",
            backbone_key=BACKBONE_KEY,
            latency_ms=1000,
        )
        transport = routing.transport
        timer = transport.secure_timer

        connect_task = asyncio.create_task(routing.connect())
        await clock.settle()
        # the synchronisation request is on the wire, connect() waits for the reply
        assert isinstance(sent[0].body, TimerNotify)
        sync_tag = sent[0].body.message_tag
        assert not connect_task.done()

        await clock.advance(0.2)
        if foreign_notify_first:
            # the time keeper's periodic TimerNotify (genuine) is seen during the wait:
            # E1 - the timer is moved forward by an authenticated frame
            group_time = timer.current_timer_value() + ONE_HOUR_MS
            transport.data_received_callback(
                genuine_timer_notify(group_time, PEER_SERIAL, b"\x12\x34"), PEER_ADDR
            )
            assert timer.current_timer_value() == group_time
            notes.append(f"genuine TimerNotify moved the timer to {group_time}")

        # a telegram is sent while connect() is still synchronising
        # (KNXIPInterface assigns `_interface` before awaiting `connect()`, so
        #  `xknx.knxip_interface.send_cemi()` / `cemi_handler.send_telegram()` get here)
        try:
            await routing.send_cemi(test_cemi())
        except CommunicationError as err:
            # a library that refuses to send before the timer is synchronised is fine
            notes.append(f"send during synchronisation refused: {err!r}")
        await clock.advance(0.3)

        # the genuine reply to our request comes from a follower whose timer lags
        # 400 ms behind (well inside the latency tolerance of 1000 ms)
        reply_value = timer.current_timer_value() - 400
        transport.data_received_callback(
            genuine_timer_notify(reply_value, XKNX_SERIAL_NUMBER, sync_tag), PEER_ADDR
        )
        await clock.settle()
        assert connect_task.done()
        assert timer.timer_authenticated
        notes.append(f"synchronisation reply carried {reply_value}")

        await clock.advance(0.05)
        await routing.send_cemi(test_cemi())

        await routing.disconnect()
        await clock.settle()

    wrappers = [f.body for f in sent if isinstance(f.body, SecureWrapper)]
    return [int.from_bytes(w.sequence_information, "big") for w in wrappers], notes


async def test_outgoing_timer_value_never_decreases_after_notify_and_lagging_reply() -> (
    None
):
    """Genuine TimerNotify during synchronisation, then a reply from a lagging follower."""
    values, notes = await _run(foreign_notify_first=True)
    assert values, "no SecureWrapper was sent at all"
    assert values == sorted(values), (
        f"outgoing SecureWrapper timer values {values} decrease by "
        f"{values[0] - values[-1]} ms ({'; '.join(notes)}) - C30 requires that the timer "
        "value carried by outgoing wrappers never decreases"
    )


async def test_outgoing_timer_value_never_decreases_reply_below_own_timer() -> None:
    """Only the synchronisation reply is received; it is lower than the value already used."""
    values, notes = await _run(foreign_notify_first=False)
    assert values, "no SecureWrapper was sent at all"
    assert values == sorted(values), (
        f"outgoing SecureWrapper timer values {values} decrease by "
        f"{values[0] - values[-1]} ms ({'; '.join(notes)}) - C30 requires that the timer "
        "value carried by outgoing wrappers never decreases"
    )
