"""C30 hunt 1: the timer value carried by outgoing wrappers decreases after a reconnect.

History: SecureGroup connects, synchronisation is not answered (-> time keeper, the
own monotonic clock is the timer, `_clock_difference` stays 0). Wrappers are sent.
The same object is stopped and connected again (Routing.disconnect() / connect()).
This time the synchronisation request is answered (authentic MAC) with a timer value
far below what our wrappers already carried. `synchronize()` treats
`_clock_difference == 0` as "no timer established yet" and steps the timer back.
"""

import asyncio
from unittest.mock import patch

from xknx.io.const import DEFAULT_MCAST_GRP, DEFAULT_MCAST_PORT, XKNX_SERIAL_NUMBER
from xknx.io.ip_secure import SecureGroup, SecureSequenceTimer
from xknx.knxip import (
    HPAI,
    KNXIPFrame,
    RoutingIndication,
    SecureWrapper,
    TimerNotify,
)

KEY = bytes.fromhex("0a a2 27 b4 fd 7a 32 31 9b a9 96 0a c0 36 ce 0e")
PEER = HPAI("192.168.1.50", 3671)


class Clock:
    """Virtual loop time (same technique as test/conftest.py)."""

    def __init__(self, loop: asyncio.AbstractEventLoop) -> None:
        self.offset = 0.0
        self._base = loop.time
        self.loop = loop
        loop.time = self.time  # type: ignore[method-assign]

    def time(self) -> float:
        return self._base() + self.offset

    async def _drain(self) -> None:
        while self.loop._ready:  # type: ignore[attr-defined]
            await asyncio.sleep(0)

    async def __call__(self, seconds: float) -> None:
        await self._drain()
        if seconds > 0:
            self.offset += seconds
            await asyncio.sleep(0)
            await self._drain()


def genuine_timer_notify(
    timer_value: int, serial_number: bytes, message_tag: bytes
) -> KNXIPFrame:
    """Build a TimerNotify with a valid MAC - as a peer holding the backbone key would."""
    out: list[KNXIPFrame] = []
    peer = SecureSequenceTimer(
        backbone_key=KEY, latency_ms=1000, transport_send=lambda f, a: out.append(f)
    )
    peer.update(timer_value)
    peer.send_timer_notify(message_tag=message_tag, serial_number=serial_number)
    return out[0]


async def test_outgoing_wrapper_timer_never_decreases_over_reconnect() -> None:
    loop = asyncio.get_running_loop()
    clock = Clock(loop)
    sent: list[KNXIPFrame] = []

    async def fake_connect(self) -> None:  # network boundary
        return None

    def fake_send(self, knxipframe, addr=None) -> None:  # network boundary
        sent.append(knxipframe)

    with (
        patch("xknx.io.transport.udp_transport.UDPTransport.connect", fake_connect),
        patch("xknx.io.transport.udp_transport.UDPTransport.send", fake_send),
    ):
        group = SecureGroup(
            local_addr=("127.0.0.1", 12345),
            remote_addr=(DEFAULT_MCAST_GRP, DEFAULT_MCAST_PORT),
            backbone_key=KEY,
            latency_ms=1000,
        )
        # 1) first connect: nobody answers -> time keeper on the own clock
        task = asyncio.create_task(group.connect())
        await clock(5)
        assert task.done() and group.secure_timer.timer_authenticated
        assert group.secure_timer.timekeeper

        payload = KNXIPFrame.init_from_body(RoutingIndication(raw_cemi=bytes(11)))
        group.send(payload)
        await clock(30)
        group.send(payload)
        wrappers = [f for f in sent if isinstance(f.body, SecureWrapper)]
        assert len(wrappers) == 2
        before = [int.from_bytes(w.body.sequence_information, "big") for w in wrappers]
        assert before[0] <= before[1]

        # 2) Routing.disconnect() / Routing.connect() on the same transport object
        group.stop()
        sent.clear()
        task = asyncio.create_task(group.connect())
        await clock(0)
        sync_request = sent[0]
        assert isinstance(sync_request.body, TimerNotify)
        # a peer (freshly booted router) answers authentically with its low timer value
        low_timer = 1000
        assert low_timer < before[1]
        reply = genuine_timer_notify(
            timer_value=low_timer,
            serial_number=XKNX_SERIAL_NUMBER,
            message_tag=sync_request.body.message_tag,
        )
        group.handle_knxipframe(reply, PEER)
        await clock(0)
        assert task.done() and group.secure_timer.timer_authenticated

        group.send(payload)
        after = int.from_bytes(sent[-1].body.sequence_information, "big")
        group.stop()

    assert after >= before[1], (
        f"outgoing SecureWrapper timer decreased: wrappers carried {before} before the "
        f"reconnect, the first wrapper after it carries {after}. C30 requires that the "
        "timer value carried by outgoing wrappers never decreases (receivers drop it as "
        "outdated / replay)."
    )
