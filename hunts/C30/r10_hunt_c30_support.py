"""Shared helpers for the C30 hunt files: a genuine peer owning the backbone key and a virtual clock."""

from __future__ import annotations

import asyncio
from contextlib import contextmanager
from unittest.mock import patch

from xknx import XKNX
from xknx.io.routing import SecureRouting
from xknx.knxip import KNXIPFrame, RoutingIndication, SecureWrapper, TimerNotify
from xknx.secure.security_primitives import (
    calculate_message_authentication_code_cbc,
    encrypt_data_ctr,
)

BACKBONE_KEY = bytes.fromhex("0aa227b4fd7a32319ba9960ac036ce0e")
PEER_SERIAL = bytes.fromhex("00fa12345678")
PEER_ADDR = ("192.168.1.50", 3671)
ATTACKER_ADDR = ("192.168.1.66", 40000)
OWN_ADDR = ("192.168.1.10", 51234)
# L_DATA_IND GroupValueWrite 1/2/3 from 1.1.5
RAW_CEMI = bytes.fromhex("2900bce011050a03010081")


def genuine_timer_notify(timer_value: int, serial: bytes, tag: bytes) -> bytes:
    """Return the datagram of a TimerNotify whose MAC verifies with the backbone key."""
    tb = timer_value.to_bytes(6, "big")
    mac_cbc = calculate_message_authentication_code_cbc(
        key=BACKBONE_KEY,
        additional_data=bytes.fromhex("061009550024"),
        block_0=tb + serial + tag + b"\x00\x00",
    )
    _, mac = encrypt_data_ctr(
        key=BACKBONE_KEY, counter_0=tb + serial + tag + b"\xff\x00", mac_cbc=mac_cbc
    )
    return KNXIPFrame.init_from_body(
        TimerNotify(
            timer_value=timer_value,
            serial_number=serial,
            message_tag=tag,
            message_authentication_code=mac,
        )
    ).to_knx()


def genuine_wrapper(timer_value: int, tag: bytes = b"\xab\xcd") -> bytes:
    """Return the datagram of a SecureWrapper (RoutingIndication inside) of a genuine peer."""
    payload = KNXIPFrame.init_from_body(RoutingIndication(raw_cemi=RAW_CEMI)).to_knx()
    seq = timer_value.to_bytes(6, "big")
    header = bytes.fromhex("06100950") + (38 + len(payload)).to_bytes(2, "big")
    mac_cbc = calculate_message_authentication_code_cbc(
        key=BACKBONE_KEY,
        additional_data=header + b"\x00\x00",
        payload=payload,
        block_0=seq + PEER_SERIAL + tag + len(payload).to_bytes(2, "big"),
    )
    enc, mac = encrypt_data_ctr(
        key=BACKBONE_KEY,
        counter_0=seq + PEER_SERIAL + tag + b"\xff\x00",
        mac_cbc=mac_cbc,
        payload=payload,
    )
    return KNXIPFrame.init_from_body(
        SecureWrapper(
            secure_session_id=0,
            sequence_information=seq,
            serial_number=PEER_SERIAL,
            message_tag=tag,
            encrypted_data=enc,
            message_authentication_code=mac,
        )
    ).to_knx()


class VirtualClock:
    """Advance loop.time() without waiting (same idea as test/conftest.py time_travel)."""

    def __init__(self) -> None:
        self.loop = asyncio.get_running_loop()
        self._base = self.loop.time
        self.offset = 0.0
        self.loop.time = lambda: self._base() + self.offset  # type: ignore[method-assign]

    async def settle(self) -> None:
        for _ in range(5):
            await asyncio.sleep(0)
        while self.loop._ready:  # type: ignore[attr-defined]
            await asyncio.sleep(0)

    async def advance(self, seconds: float) -> None:
        await self.settle()
        self.offset += seconds
        await asyncio.sleep(0)
        await self.settle()


@contextmanager
def secure_routing():
    """Yield (routing, sent datagram frames, forwarded cemi list); only the socket is mocked."""
    sent: list[KNXIPFrame] = []
    forwarded: list[bytes] = []

    async def fake_connect(self) -> None:  # the network boundary
        self.transport = object()  # marks the transport as connected
        self.local_addr_assigned = OWN_ADDR

    def fake_send(self, knxipframe, addr=None) -> None:  # the network boundary
        sent.append(KNXIPFrame.from_knx(knxipframe.to_knx())[0])

    with (
        patch("xknx.io.transport.udp_transport.UDPTransport.connect", fake_connect),
        patch("xknx.io.transport.udp_transport.UDPTransport.send", fake_send),
        patch("xknx.io.transport.udp_transport.UDPTransport.stop", lambda self: None),
    ):
        xknx = XKNX()
        routing = SecureRouting(
            xknx,
            individual_address=None,
            cemi_received_callback=forwarded.append,
            local_ip="192.168.1.10",
            backbone_key=BACKBONE_KEY,
            latency_ms=1000,
        )
        try:
            yield routing, sent, forwarded
        finally:
            routing.transport.secure_timer.stop()


def wrapper_timers(sent: list[KNXIPFrame]) -> list[int]:
    """Timer values carried by the SecureWrapper frames that went to the socket."""
    return [
        int.from_bytes(f.body.sequence_information, "big")
        for f in sent
        if isinstance(f.body, SecureWrapper)
    ]
