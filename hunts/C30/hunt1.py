"""
C30 hunt 1 - the synchronisation reply is applied with an unconditional `update()`.

`SecureSequenceTimer.synchronize()` sets the timer to the value carried by the
synchronisation reply, whatever the timer has become in the meantime. Every other
path only ever adds a positive amount to the timer. So a reply whose value is lower
than the current timer value moves the timer BACKWARDS:

* the timer value carried by outgoing SecureWrappers decreases, and
* wrapped frames that are older than the latency tolerance (measured against a timer
  value that was already authenticated) are forwarded again.

Run: /venv/bin/python -m pytest -q -p no:cacheprovider hunt1.py
"""

from __future__ import annotations

import asyncio
from unittest.mock import Mock, patch

from xknx import XKNX
from xknx.cemi import CEMIFrame, CEMILData, CEMIMessageCode
from xknx.io.const import XKNX_SERIAL_NUMBER
from xknx.io.routing import SecureRouting
from xknx.knxip import KNXIPFrame, RoutingIndication, SecureWrapper, TimerNotify
from xknx.secure.security_primitives import (
    calculate_message_authentication_code_cbc,
    encrypt_data_ctr,
)
from xknx.telegram import GroupAddress, Telegram, apci

BACKBONE_KEY = bytes.fromhex("0aa227b4fd7a32319ba9960ac036ce0e")
LATENCY_MS = 1000
SERIAL_A = bytes.fromhex("00fa11111111")  # the time keeper
SERIAL_B = bytes.fromhex("00fa22222222")  # a time follower
ADDR_A = ("192.168.1.11", 3671)
ADDR_B = ("192.168.1.12", 3671)
ADDR_X = ("192.168.1.66", 3671)  # somebody without the backbone key


# ---------------------------------------------------------------- genuine peers
def genuine_timer_notify(timer: int, serial: bytes, tag: bytes) -> bytes:
    """Return the datagram of a TimerNotify authenticated with the backbone key."""
    header = bytes.fromhex("06 10 09 55 00 24")
    timer_bytes = timer.to_bytes(6, "big")
    mac_cbc = calculate_message_authentication_code_cbc(
        key=BACKBONE_KEY,
        additional_data=header,
        block_0=timer_bytes + serial + tag + b"\x00\x00",
    )
    _, mac = encrypt_data_ctr(
        key=BACKBONE_KEY,
        counter_0=timer_bytes + serial + tag + b"\xff\x00",
        mac_cbc=mac_cbc,
    )
    return header + timer_bytes + serial + tag + mac


def genuine_secure_wrapper(inner: bytes, timer: int, serial: bytes, tag: bytes) -> bytes:
    """Return the datagram of a SecureWrapper authenticated with the backbone key."""
    seq = timer.to_bytes(6, "big")
    header = bytes.fromhex("06 10 09 50") + (38 + len(inner)).to_bytes(2, "big")
    mac_cbc = calculate_message_authentication_code_cbc(
        key=BACKBONE_KEY,
        additional_data=header + bytes(2),
        payload=inner,
        block_0=seq + serial + tag + len(inner).to_bytes(2, "big"),
    )
    enc, mac = encrypt_data_ctr(
        key=BACKBONE_KEY,
        counter_0=seq + serial + tag + b"\xff\x00",
        mac_cbc=mac_cbc,
        payload=inner,
    )
    return header + bytes(2) + seq + serial + tag + enc + mac


def test_cemi() -> CEMIFrame:
    """Return a group telegram."""
    return CEMIFrame(
        code=CEMIMessageCode.L_DATA_IND,
        data=CEMILData.init_from_telegram(
            Telegram(
                destination_address=GroupAddress("1/2/3"),
                payload=apci.GroupValueWrite(apci.DPTBinary(1)),
            )
        ),
    )


test_cemi.__test__ = False  # type: ignore[attr-defined]


# ---------------------------------------------------------------- virtual time
class VirtualClock:
    """Virtual loop time (same technique as test/conftest.py::EventLoopClockAdvancer)."""

    def __init__(self) -> None:
        self.loop = asyncio.get_running_loop()
        self.offset = 0.0
        self._base_time = self.loop.time
        self.loop.time = self.time  # type: ignore[method-assign]

    def time(self) -> float:
        return self._base_time() + self.offset

    async def settle(self) -> None:
        await asyncio.sleep(0)
        while self.loop._ready:  # type: ignore[attr-defined]  # noqa: ASYNC110
            await asyncio.sleep(0)

    async def advance(self, seconds: float) -> None:
        await self.settle()
        self.offset += seconds
        await self.settle()


class Net:
    """The network boundary: records what the UDP socket would have sent."""

    def __init__(self) -> None:
        self.sent: list[KNXIPFrame] = []

    def send(self, knxipframe: KNXIPFrame, addr: tuple[str, int] | None = None) -> None:
        self.sent.append(knxipframe)

    def wrappers(self) -> list[int]:
        """Return the timer values of all sent SecureWrappers."""
        return [
            int.from_bytes(f.body.sequence_information, "big")
            for f in self.sent
            if isinstance(f.body, SecureWrapper)
        ]

    def notifies(self) -> list[KNXIPFrame]:
        return [f for f in self.sent if isinstance(f.body, TimerNotify)]


def make_routing(net: Net, received: list[bytes]) -> SecureRouting:
    """Real SecureRouting / SecureGroup / SecureSequenceTimer. Only the socket is mocked."""
    xknx = XKNX()
    return SecureRouting(
        xknx,
        individual_address=None,
        cemi_received_callback=received.append,
        local_ip="192.168.1.2",
        backbone_key=BACKBONE_KEY,
        latency_ms=LATENCY_MS,
    )


async def test_sync_reply_lowers_timer_of_outgoing_wrappers() -> None:
    """
    Genuine frames only. Keeper A (timer Tk), follower B (timer Tk+400, a legal state as it
    is within the latency tolerance of A). We join:

      t=0     we send our synchronisation request (TimerNotify, our serial, tag)
      t=50ms  B's periodic TimerNotify (Tk+450) arrives   -> E1, our timer = Tk+450
      t=60ms  the application sends a telegram            -> SecureWrapper carries Tk+460
      t=150ms A answers our request with Tk+150           -> `update()`: our timer = Tk+150
      t=160ms the application sends a telegram            -> SecureWrapper carries Tk+160
    """
    net = Net()
    received: list[bytes] = []
    with (
        patch("xknx.io.transport.udp_transport.UDPTransport.connect"),
        patch("xknx.io.transport.udp_transport.UDPTransport.send", net.send),
    ):
        clock = VirtualClock()
        routing = make_routing(net, received)
        group = routing.transport
        timer = group.secure_timer

        connect_task = asyncio.create_task(routing.connect())
        await clock.settle()
        (request,) = net.notifies()
        tag = request.body.message_tag
        assert request.body.serial_number == XKNX_SERIAL_NUMBER
        t_keeper = request.body.timer_value + 10_000_000  # keeper is far ahead of us

        await clock.advance(0.050)
        group.data_received_callback(
            genuine_timer_notify(t_keeper + 450, SERIAL_B, b"\xb0\x0b"), ADDR_B
        )
        assert timer.current_timer_value() == t_keeper + 450

        await clock.advance(0.010)
        await routing.send_cemi(test_cemi())

        await clock.advance(0.090)
        group.data_received_callback(
            genuine_timer_notify(t_keeper + 150, XKNX_SERIAL_NUMBER, tag), ADDR_A
        )
        await clock.settle()
        assert connect_task.done() and connect_task.exception() is None
        assert timer.timer_authenticated

        await clock.advance(0.010)
        await routing.send_cemi(test_cemi())

        first, second = net.wrappers()
        await routing.disconnect()
        assert second >= first, (
            "C30 'the timer value carried by outgoing wrappers never decreases': "
            f"the SecureWrapper sent at t=60ms carried timer {first}, the one sent 100 ms later "
            f"at t=160ms carried {second} ({first - second} ms LOWER). The authenticated "
            "TimerNotify of device B had moved the timer to Tk+450; the synchronisation reply "
            "(Tk+150) was applied by SecureSequenceTimer.synchronize() with an unconditional "
            "update() and moved it backwards."
        )


async def test_reflected_sync_request_lowers_timer_without_key() -> None:
    """
    Nobody needs the backbone key: our own synchronisation request is a TimerNotify with a valid
    MAC, our serial number and the awaited message tag. Whoever sends its bytes back to us (from
    another source address, so that the echo filter does not apply) has it accepted as the
    synchronisation reply. `update()` then sets the timer back to the value it had when the
    request was sent.

      t=0      we send the request (timer T0)
      t=500ms  the application sends a telegram           -> SecureWrapper carries T0+500
      t=600ms  the request is reflected back to us        -> `update()`: our timer = T0
      t=610ms  the application sends a telegram           -> SecureWrapper carries T0+10
    """
    net = Net()
    received: list[bytes] = []
    with (
        patch("xknx.io.transport.udp_transport.UDPTransport.connect"),
        patch("xknx.io.transport.udp_transport.UDPTransport.send", net.send),
    ):
        clock = VirtualClock()
        routing = make_routing(net, received)
        group = routing.transport
        timer = group.secure_timer

        connect_task = asyncio.create_task(routing.connect())
        await clock.settle()
        (request,) = net.notifies()
        request_datagram = request.to_knx()

        await clock.advance(0.500)
        await routing.send_cemi(test_cemi())
        before = timer.current_timer_value()

        await clock.advance(0.100)
        group.data_received_callback(request_datagram, ADDR_X)
        await clock.settle()
        after = timer.current_timer_value()
        assert connect_task.done() and connect_task.exception() is None

        await clock.advance(0.010)
        await routing.send_cemi(test_cemi())
        first, second = net.wrappers()
        await routing.disconnect()
        assert after >= before and second >= first, (
            "C30 'the timer value carried by outgoing wrappers never decreases': a party without "
            "the backbone key replayed our own synchronisation request to us. The timer went from "
            f"{before} (t=500ms) to {after} (t=600ms); the SecureWrapper sent at t=500ms carried "
            f"{first}, the one sent at t=610ms carried {second} ({first - second} ms LOWER)."
        )


async def test_sync_reply_reopens_window_for_frames_beyond_latency_tolerance() -> None:
    """
    Receive-only history, genuine frames only.

      t=0     synchronisation request
      t=50ms  B's TimerNotify (Tk+950)      -> authenticated, our timer = Tk+950
      t=150ms A's synchronisation reply (Tk+150) -> our timer = Tk+150 (was Tk+1050)
      t=160ms a replay of a wrapper that B sent long ago with timer Tk-700 arrives.
              Against the timer value we had already authenticated (Tk+1060) it is 1760 ms
              old, i.e. beyond the latency tolerance of 1000 ms. It is forwarded.
    """
    net = Net()
    received: list[bytes] = []
    with (
        patch("xknx.io.transport.udp_transport.UDPTransport.connect"),
        patch("xknx.io.transport.udp_transport.UDPTransport.send", net.send),
    ):
        clock = VirtualClock()
        routing = make_routing(net, received)
        group = routing.transport
        timer = group.secure_timer

        connect_task = asyncio.create_task(routing.connect())
        await clock.settle()
        (request,) = net.notifies()
        tag = request.body.message_tag
        t_keeper = request.body.timer_value + 10_000_000

        await clock.advance(0.050)
        group.data_received_callback(
            genuine_timer_notify(t_keeper + 950, SERIAL_B, b"\xb0\x0b"), ADDR_B
        )
        authenticated_offset = timer.current_timer_value() - int(clock.time() * 1000)

        await clock.advance(0.100)
        group.data_received_callback(
            genuine_timer_notify(t_keeper + 150, XKNX_SERIAL_NUMBER, tag), ADDR_A
        )
        await clock.settle()
        assert connect_task.done() and timer.timer_authenticated

        await clock.advance(0.010)
        authenticated_timer_now = int(clock.time() * 1000) + authenticated_offset
        old_timer = t_keeper - 700
        inner = KNXIPFrame.init_from_body(
            RoutingIndication(raw_cemi=test_cemi().to_knx())
        ).to_knx()
        group.data_received_callback(
            genuine_secure_wrapper(inner, old_timer, SERIAL_B, b"\x0b\xb0"), ADDR_X
        )
        await routing.disconnect()
        age = authenticated_timer_now - old_timer
        assert age > LATENCY_MS  # sanity of the scenario
        assert not received, (
            "C30 'forwards wrapped frames only if ... their timer value is within the latency "
            f"tolerance': a SecureWrapper with timer {old_timer} was forwarded to the application "
            f"although a timer value of {authenticated_timer_now} had already been authenticated "
            f"(frame is {age} ms old, tolerance {LATENCY_MS} ms). The synchronisation reply had "
            f"moved the timer backwards to {timer.current_timer_value()}."
        )
