"""
C30 hunt 2: a wrapped frame that is an hour late is forwarded.

While the timer synchronisation is running, authenticated TimerNotify frames of other
devices already move the timer forward (E1). The synchronisation answer is then written
over the timer unconditionally - SecureSequenceTimer.synchronize() -> update() - also when
it is LOWER than what was authenticated before. The answer is matched by serial number and
message tag only, so the own request coming back from another address (a replay - no
backbone key needed) is such an answer. After the rewind stale wrappers pass the
latency check.
"""

import asyncio

from hunt_c30_support import (
    ATTACKER_ADDR,
    PEER_ADDR,
    PEER_SERIAL,
    VirtualClock,
    genuine_timer_notify,
    genuine_wrapper,
    secure_routing,
)

from xknx.io.const import XKNX_SERIAL_NUMBER
from xknx.knxip import TimerNotify

ONE_HOUR_MS = 60 * 60 * 1000


async def _run(reply_from_reflection: bool) -> None:
    clock = VirtualClock()
    with secure_routing() as (routing, sent, forwarded):
        timer = routing.transport.secure_timer
        connect_task = asyncio.create_task(routing.connect())
        await clock.settle()
        request_frame = sent[0]
        assert isinstance(request_frame.body, TimerNotify)
        own_start = request_frame.body.timer_value
        group_time = own_start + 3 * ONE_HOUR_MS  # timer of the multicast group

        # 50 ms: periodic TimerNotify of the time keeper - genuine, MAC verifies
        await clock.advance(0.05)
        routing.transport.data_received_callback(
            genuine_timer_notify(group_time, serial=PEER_SERIAL, tag=b"\x77\x01"),
            PEER_ADDR,
        )
        authenticated_timer = timer.current_timer_value()
        assert authenticated_timer == group_time  # moved forward by an authenticated frame

        # 60 ms: the synchronisation "answer"
        await clock.advance(0.01)
        if reply_from_reflection:
            # the own request, byte-identical, from somebody else's address
            routing.transport.data_received_callback(
                request_frame.to_knx(), ATTACKER_ADDR
            )
        else:
            # a genuine but old / duplicated answer (generated history)
            routing.transport.data_received_callback(
                genuine_timer_notify(
                    own_start + 1,
                    serial=XKNX_SERIAL_NUMBER,
                    tag=request_frame.body.message_tag,
                ),
                PEER_ADDR,
            )
        await clock.settle()
        assert connect_task.done()
        rewound_timer = timer.current_timer_value()

        # 70 ms: a genuine wrapper recorded two hours ago is replayed
        await clock.advance(0.01)
        stale = group_time - 2 * ONE_HOUR_MS
        routing.transport.data_received_callback(genuine_wrapper(stale), ATTACKER_ADDR)
        await clock.settle()

        assert forwarded == [], (
            f"a SecureWrapper with timer value {stale} was forwarded (cemi {forwarded[0].hex()}) "
            f"20 ms after this connection had authenticated the group timer {authenticated_timer}: "
            f"the frame is {authenticated_timer - stale} ms late, the latency tolerance is 1000 ms. "
            f"The synchronisation answer rewound the timer to {rewound_timer}. The property "
            "requires that wrapped frames are forwarded only if their timer value is within the "
            "latency tolerance (and that only authenticated frames move the timer - nothing may "
            "move it back behind an authenticated value)"
        )


async def test_stale_wrapper_forwarded_after_reflected_own_sync_request() -> None:
    """The attacker owns no key: he re-sends our own TimerNotify and an old wrapper."""
    await _run(reply_from_reflection=True)


async def test_stale_wrapper_forwarded_after_old_genuine_sync_reply() -> None:
    """Same with a genuine synchronisation answer that carries an old timer value."""
    await _run(reply_from_reflection=False)
