"""
C30 hunt 1: the timer value carried by outgoing SecureWrappers decreases.

SecureGroup.send() wraps and sends while the timer synchronisation is still running
(no `timer_authenticated` gate), and SecureSequenceTimer.synchronize() then overwrites
the timer with whatever the synchronisation answer carries - also a LOWER value.
"""

import asyncio
from contextlib import suppress

from hunt_c30_support import (
    ATTACKER_ADDR,
    PEER_ADDR,
    VirtualClock,
    genuine_timer_notify,
    secure_routing,
    wrapper_timers,
)

from xknx.cemi import CEMIFrame, CEMILData, CEMIMessageCode
from xknx.exceptions import CommunicationError
from xknx.io.const import XKNX_SERIAL_NUMBER
from xknx.knxip import TimerNotify
from xknx.telegram import GroupAddress, Telegram, apci


def _cemi() -> CEMIFrame:
    return CEMIFrame(
        code=CEMIMessageCode.L_DATA_IND,
        data=CEMILData.init_from_telegram(
            Telegram(
                destination_address=GroupAddress("1/2/3"),
                payload=apci.GroupValueWrite(apci.DPTBinary(1)),
            )
        ),
    )


async def test_outgoing_timer_decreases_after_genuine_lower_sync_reply() -> None:
    """Send while synchronising, then a genuine synchronisation reply with a lower value."""
    clock = VirtualClock()
    with secure_routing() as (routing, sent, _forwarded):
        connect_task = asyncio.create_task(routing.connect())
        await clock.advance(0.2)
        request = sent[0].body
        assert isinstance(request, TimerNotify)
        assert not connect_task.done()  # still synchronising

        with suppress(CommunicationError):  # a refusal would be fine
            await routing.send_cemi(_cemi())  # goes out wrapped with the own, unsynchronised timer

        await clock.advance(0.2)
        # genuine answer of the time keeper (MAC verifies, our serial number and tag)
        routing.transport.data_received_callback(
            genuine_timer_notify(
                request.timer_value // 2,
                serial=XKNX_SERIAL_NUMBER,
                tag=request.message_tag,
            ),
            PEER_ADDR,
        )
        await clock.settle()
        assert connect_task.done()

        await clock.advance(0.1)
        await routing.send_cemi(_cemi())

        timers = wrapper_timers(sent)
        assert timers == sorted(timers), (
            f"outgoing SecureWrapper timer values {timers}: the second wrapper carries a LOWER "
            "timer value than the first - the property requires that the timer value carried "
            "by outgoing wrappers never decreases (a wrapper was sent before the timer "
            "synchronisation finished and the synchronisation then rewound the timer)"
        )


async def test_outgoing_timer_decreases_after_reflected_own_sync_request() -> None:
    """No key needed: the own synchronisation request, re-sent by someone else, ends the sync."""
    clock = VirtualClock()
    with secure_routing() as (routing, sent, _forwarded):
        connect_task = asyncio.create_task(routing.connect())
        await clock.settle()
        request_frame = sent[0]
        assert isinstance(request_frame.body, TimerNotify)

        await clock.advance(0.9)
        with suppress(CommunicationError):  # a refusal would be fine
            await routing.send_cemi(_cemi())  # carries request timer + 900

        await clock.advance(0.1)
        # the byte-identical own request arrives from another source address
        routing.transport.data_received_callback(request_frame.to_knx(), ATTACKER_ADDR)
        await clock.settle()
        assert connect_task.done()

        await clock.advance(0.1)
        await routing.send_cemi(_cemi())  # carries request timer + 100

        timers = wrapper_timers(sent)
        assert timers == sorted(timers), (
            f"outgoing SecureWrapper timer values {timers} (own sync request carried "
            f"{request_frame.body.timer_value}): the wrapper sent 200 ms LATER carries a timer "
            "value about 800 ms LOWER - the property requires that the timer value carried by "
            "outgoing wrappers never decreases"
        )
