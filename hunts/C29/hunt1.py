"""
C29 hunt 1: SecureSession.connect() on a session object whose previous connect()
attempt failed / was cancelled after the handshake.

SecureSession.connect() sets `self.initialized = True` right after the handshake and
only `stop()` ever resets it. When the attempt then fails (authentication rejected,
authentication timed out, caller cancelled it / wrapped it in `asyncio.timeout`) the
object stays "initialized" with the old session key. The next `connect()` on the same
object resets BOTH sequence counters to their start values but keeps key, session id
and `initialized`:

 * the SessionRequest of the new handshake is sent inside a SecureWrapper made with the
   OLD session key, OLD session id and sequence number 0 - the very (key, sequence
   number, serial, tag) tuple the SessionAuthenticate of the first attempt used;
 * the plain SessionResponse of the gateway is discarded, so the object never recovers;
 * frames recorded from the first session are accepted a second time (replay).

Everything below uses the real SecureSession / SecureDeviceManagementConnection / SecureTunnel; only
`loop.create_connection` (the network boundary) is replaced by an in-memory gateway.
"""

from __future__ import annotations

import asyncio
from unittest.mock import patch

from cryptography.hazmat.primitives import serialization
from cryptography.hazmat.primitives.asymmetric.x25519 import (
    X25519PrivateKey,
    X25519PublicKey,
)
import pytest

from xknx import XKNX
from xknx.exceptions import CommunicationError
from xknx.io.device_management_connection import SecureDeviceManagementConnection
from xknx.io.ip_secure import SecureSession
from xknx.io.tunnel import SecureTunnel
from xknx.knxip import (
    KNXIPFrame,
    KNXIPServiceType,
    SecureWrapper,
    SessionRequest,
    SessionResponse,
    SessionStatus,
)
from xknx.knxip.knxip_enum import SecureSessionStatusCode
from xknx.secure.security_primitives import (
    calculate_message_authentication_code_cbc,
    decrypt_ctr,
    encrypt_data_ctr,
)
from xknx.secure.util import sha256_hash

GATEWAY_SERIAL = bytes.fromhex("00faaaaaaaaa")


class FakeTcp:
    """In-memory replacement of the asyncio TCP transport (network boundary)."""

    def __init__(self) -> None:
        self.written: list[bytes] = []
        self.closed = False

    def write(self, data: bytes) -> None:
        self.written.append(bytes(data))

    def close(self) -> None:
        self.closed = True

    def get_extra_info(self, *_args: object) -> None:
        return None


def wrap(key: bytes, session_id: int, seq: int, inner: bytes) -> bytes:
    """Build a genuine SecureWrapper like the gateway would."""
    header = bytes.fromhex("06100950") + (38 + len(inner)).to_bytes(2, "big")
    seq_b = seq.to_bytes(6, "big")
    tag = bytes(2)
    mac_cbc = calculate_message_authentication_code_cbc(
        key=key,
        additional_data=header + session_id.to_bytes(2, "big"),
        payload=inner,
        block_0=seq_b + GATEWAY_SERIAL + tag + len(inner).to_bytes(2, "big"),
    )
    enc, mac = encrypt_data_ctr(
        key=key,
        counter_0=seq_b + GATEWAY_SERIAL + tag + b"\xff\x00",
        mac_cbc=mac_cbc,
        payload=inner,
    )
    return header + session_id.to_bytes(2, "big") + seq_b + GATEWAY_SERIAL + tag + enc + mac


def unwrap(key: bytes, raw: bytes) -> KNXIPFrame | None:
    """Decrypt a SecureWrapper the client sent; None if the MAC does not verify with `key`."""
    frame, _ = KNXIPFrame.from_knx(raw)
    body = frame.body
    assert isinstance(body, SecureWrapper)
    c_0 = body.sequence_information + body.serial_number + body.message_tag
    dec, mac_tr = decrypt_ctr(
        key=key,
        counter_0=c_0 + b"\xff\x00",
        mac=body.message_authentication_code,
        payload=body.encrypted_data,
    )
    mac_cbc = calculate_message_authentication_code_cbc(
        key=key,
        additional_data=raw[:6] + body.secure_session_id.to_bytes(2, "big"),
        payload=dec,
        block_0=c_0 + len(dec).to_bytes(2, "big"),
    )
    if mac_cbc != mac_tr:
        return None
    return KNXIPFrame.from_knx(dec)[0]


class Gateway:
    """Records every TCP connection the client opens and plays the server side."""

    def __init__(self) -> None:
        self.connections: list[FakeTcp] = []
        self.receivers: list = []  # data_received of the client protocol, per connection

    async def create_connection(self, factory, host=None, port=None):  # noqa: ANN001
        tcp = FakeTcp()
        protocol = factory()
        protocol.connection_made(tcp)
        self.connections.append(tcp)
        self.receivers.append(protocol.data_received)
        return tcp, protocol

    def session_response(self, conn: int, session_id: int) -> bytes:
        """Answer the SessionRequest on connection `conn`; return the session key."""
        request, _ = KNXIPFrame.from_knx(self.connections[conn].written[0])
        assert isinstance(request.body, SessionRequest)
        private = X25519PrivateKey.generate()
        public = private.public_key().public_bytes(
            serialization.Encoding.Raw, serialization.PublicFormat.Raw
        )
        key = sha256_hash(
            private.exchange(
                X25519PublicKey.from_public_bytes(request.body.ecdh_client_public_key)
            )
        )[:16]
        self.receivers[conn](
            KNXIPFrame.init_from_body(
                SessionResponse(
                    secure_session_id=session_id, ecdh_server_public_key=public
                )
            ).to_knx()
        )
        return key


async def spin(n: int = 10) -> None:
    for _ in range(n):
        await asyncio.sleep(0)


def describe(raw: bytes) -> str:
    frame, _ = KNXIPFrame.from_knx(raw)
    if isinstance(frame.body, SecureWrapper):
        return (
            f"SECURE_WRAPPER(session_id={frame.body.secure_session_id}, "
            f"seq={int.from_bytes(frame.body.sequence_information, 'big')})"
        )
    return f"plain {frame.header.service_type_ident.name}"


def check_send_property(gateway: Gateway, keys: dict[int, bytes]) -> None:
    """Check the send clauses of C29 on everything that reached the wire."""
    # (a) under one session key the sequence numbers are strictly increasing
    for session_id, key in keys.items():
        last = -1
        for conn in gateway.connections:
            for raw in conn.written:
                frame, _ = KNXIPFrame.from_knx(raw)
                if not isinstance(frame.body, SecureWrapper):
                    continue
                if unwrap(key, raw) is None:
                    continue  # other key
                seq = int.from_bytes(frame.body.sequence_information, "big")
                assert seq > last, (
                    f"C29 violated: sequence number {seq} sent after {last} with the key "
                    f"of session {session_id} - every wrapped frame needs a strictly "
                    "increasing sequence number (AES-CTR nonce reuse otherwise); frame "
                    f"inside the offending wrapper: {unwrap(key, raw)}; wire log per TCP "
                    f"connection: {[[describe(w) for w in c.written] for c in gateway.connections]}"
                )
                last = seq
    # (b) each TCP connection starts with the one allowed plain frame, the SessionRequest
    for idx, conn in enumerate(gateway.connections):
        first, _ = KNXIPFrame.from_knx(conn.written[0])
        assert first.header.service_type_ident is KNXIPServiceType.SESSION_REQUEST, (
            f"C29 violated: the first frame on TCP connection #{idx + 1} must be the plain "
            f"SessionRequest of a new handshake, observed {describe(conn.written[0])}; "
            f"wire log: {[[describe(w) for w in c.written] for c in gateway.connections]}"
        )


async def test_retry_after_rejected_authentication() -> None:
    """connect() -> gateway rejects the authentication -> connect() again on the same object."""
    gateway = Gateway()
    session = SecureSession(("127.0.0.1", 3671), user_id=2, user_password="wrong")
    loop = asyncio.get_running_loop()
    with patch.object(loop, "create_connection", gateway.create_connection):
        attempt_1 = asyncio.create_task(session.connect())
        await spin()
        key_1 = gateway.session_response(conn=0, session_id=7)
        await spin()
        gateway.receivers[0](
            wrap(
                key_1,
                7,
                0,
                KNXIPFrame.init_from_body(
                    SessionStatus(
                        status=SecureSessionStatusCode.STATUS_AUTHENTICATION_FAILED
                    )
                ).to_knx(),
            )
        )
        with pytest.raises(CommunicationError):
            await attempt_1
        # the caller retries on the same object without calling stop() in between
        attempt_2 = asyncio.create_task(session.connect())
        await spin()
        try:
            assert len(gateway.connections) == 2
            check_send_property(gateway, {7: key_1})
        finally:
            attempt_2.cancel()
            session.stop()
            await spin()


async def test_retry_after_caller_timeout_device_management() -> None:
    """
    Public API history: `async with asyncio.timeout(..)` around connect() of a
    SecureDeviceManagementConnection whose gateway is slow to answer SessionAuthenticate
    (the library itself waits 10 s for it), then connect() again on the same object.
    """
    gateway = Gateway()
    connection = SecureDeviceManagementConnection(
        gateway_ip="127.0.0.1", gateway_port=3671, user_id=2, user_password="pw"
    )
    loop = asyncio.get_running_loop()
    with patch.object(loop, "create_connection", gateway.create_connection):

        async def answer_handshake_only() -> bytes:
            await spin()
            return gateway.session_response(conn=0, session_id=7)

        server = asyncio.create_task(answer_handshake_only())
        with pytest.raises(TimeoutError):
            async with asyncio.timeout(0.05):
                await connection.connect()
        key_1 = await server
        assert [describe(w) for w in gateway.connections[0].written] == [
            "plain SESSION_REQUEST",
            "SECURE_WRAPPER(session_id=7, seq=0)",  # SessionAuthenticate
        ]
        attempt_2 = asyncio.create_task(connection.connect())
        await spin()
        try:
            assert len(gateway.connections) == 2
            check_send_property(gateway, {7: key_1})
        finally:
            attempt_2.cancel()
            connection.transport.stop()
            await spin()


async def test_retry_after_caller_timeout_secure_tunnel() -> None:
    """Same history through SecureTunnel.connect() - it only cleans up on OSError / CommunicationError."""
    gateway = Gateway()
    tunnel = SecureTunnel(
        XKNX(),
        cemi_received_callback=lambda _raw: None,
        gateway_ip="127.0.0.1",
        gateway_port=3671,
        user_id=2,
        user_password="pw",
        auto_reconnect=False,
    )
    loop = asyncio.get_running_loop()
    with patch.object(loop, "create_connection", gateway.create_connection):

        async def answer_handshake_only() -> bytes:
            await spin()
            return gateway.session_response(conn=0, session_id=7)

        server = asyncio.create_task(answer_handshake_only())
        with pytest.raises(TimeoutError):
            await asyncio.wait_for(tunnel.connect(), timeout=0.05)
        key_1 = await server
        attempt_2 = asyncio.create_task(tunnel.connect())
        await spin()
        try:
            assert len(gateway.connections) == 2
            check_send_property(gateway, {7: key_1})
        finally:
            attempt_2.cancel()
            tunnel.transport.stop()
            await spin()


async def test_replay_accepted_after_retry() -> None:
    """Receive side of the same history: a frame of the first attempt is accepted twice."""
    gateway = Gateway()
    session = SecureSession(("127.0.0.1", 3671), user_id=2, user_password="wrong")
    passed_on: list[KNXIPFrame] = []
    session.register_callback(lambda frame, _src, _tr: passed_on.append(frame))
    loop = asyncio.get_running_loop()
    with patch.object(loop, "create_connection", gateway.create_connection):
        attempt_1 = asyncio.create_task(session.connect())
        await spin()
        key_1 = gateway.session_response(conn=0, session_id=7)
        await spin()
        recorded = wrap(
            key_1,
            7,
            0,
            KNXIPFrame.init_from_body(
                SessionStatus(status=SecureSessionStatusCode.STATUS_AUTHENTICATION_FAILED)
            ).to_knx(),
        )
        gateway.receivers[0](recorded)
        with pytest.raises(CommunicationError):
            await attempt_1
        accepted_before = sum(isinstance(f.body, SessionStatus) for f in passed_on)
        assert accepted_before == 1
        # replay on the still open first connection is refused, as it should be
        gateway.receivers[0](recorded)
        assert sum(isinstance(f.body, SessionStatus) for f in passed_on) == 1

        attempt_2 = asyncio.create_task(session.connect())
        await spin()
        try:
            # an on-path attacker replays the recorded frame into the new TCP connection
            gateway.receivers[1](recorded)
            accepted = sum(isinstance(f.body, SessionStatus) for f in passed_on)
            assert accepted == 1, (
                "C29 violated: the SecureWrapper with sequence number 0 of the first "
                f"session attempt was passed on {accepted} times - a replayed frame was "
                "accepted because connect() reset the receive counter to -1 while keeping "
                "the old session key and `initialized=True`; only fresh frames with "
                "strictly increasing sequence numbers may be passed on"
            )
        finally:
            attempt_2.cancel()
            session.stop()
            await spin()
