"""C29 hunt 1: plain SessionResponse is passed on after the session was authenticated and closed mid-chunk."""

import asyncio

from c29_harness import FakeServer, environment, new_session
from xknx.knxip import (
    HPAI,
    DisconnectRequest,
    KNXIPFrame,
    KNXIPServiceType,
    SessionResponse,
    TunnellingAck,
)


def test_plain_frame_after_authenticated_session_closed_in_same_chunk():
    async def scenario():
        server = FakeServer()
        with environment(server) as passed:
            session = new_session()
            await session.connect()  # handshake + authentication done
            assert session.initialized
            # a consumer that closes the session from a receive callback - exactly what
            # Tunnel._disconnect_request_received -> _tunnel_lost() -> transport.stop()
            # does with auto_reconnect=False
            session.register_callback(
                lambda frame, source, transport: session.stop(),
                [KNXIPServiceType.DISCONNECT_REQUEST],
            )
            base = len(passed)
            chunk = (
                server.crypto.wrap(
                    KNXIPFrame.init_from_body(
                        DisconnectRequest(communication_channel_id=1, control_endpoint=HPAI())
                    ),
                    seq=1,
                )
                # plain frames following in the same TCP segment
                + KNXIPFrame.init_from_body(SessionResponse(secure_session_id=77)).to_knx()
                + KNXIPFrame.init_from_body(TunnellingAck()).to_knx()
            )
            # one data_received() call of the authenticated connection
            server.connections[-1].protocol.data_received(chunk)
            return [f.header.service_type_ident for f in passed[base:]]

    got = asyncio.run(scenario())
    assert got == [KNXIPServiceType.DISCONNECT_REQUEST], (
        f"frames passed on to the callback dispatcher: {got}. The plain SESSION_RESPONSE arrived on a "
        "connection whose handshake AND authentication had already completed (and whose session was "
        "then closed); C29 requires that the only plain frame ever accepted is the session response "
        "before authentication - every other plain frame must be discarded."
    )
