"""
C29 hunt 2: send sequence counter at its end (2**48) - stop() cannot reset the session.

`encrypt_frame()` refuses to wrap once the 48 bit counter is used up and tells the user
to "reset the secure session to restore normal operation". But `SecureSession.stop()`
itself first sends a wrapped SessionStatus CLOSE; that send raises the same IPSecureError
and stop() is left before `stop_keepalive_task()`, `self.initialized = False` and
`super().stop()` ran. The object stays initialized with the old key, the TCP connection
stays open - and the next connect() restarts the counter at 0 under the SAME key
(SessionRequest wrapped with sequence number 0), ie. the counter wraps around.

White-box shortcut: instead of sending 2**48 - 1 frames the private send counter is set
to its last value. Everything else is the real library; only `loop.create_connection`
is replaced (helpers shared with hunt1.py).
"""

from __future__ import annotations

import asyncio
from unittest.mock import patch

import pytest

from hunt1 import Gateway, check_send_property, describe, spin, wrap
from xknx.exceptions import IPSecureError
from xknx.io.ip_secure import SecureSession
from xknx.knxip import ConnectionStateRequest, KNXIPFrame, SessionStatus
from xknx.knxip.knxip_enum import SecureSessionStatusCode


async def test_counter_exhaustion_reset() -> None:
    """Exhaust the send counter, reset the session as the error message asks, reconnect."""
    gateway = Gateway()
    session = SecureSession(("127.0.0.1", 3671), user_id=2, user_password="pw")
    loop = asyncio.get_running_loop()
    with patch.object(loop, "create_connection", gateway.create_connection):
        connect_1 = asyncio.create_task(session.connect())
        await spin()
        key_1 = gateway.session_response(conn=0, session_id=7)
        await spin()
        gateway.receivers[0](
            wrap(
                key_1,
                7,
                0,
                KNXIPFrame.init_from_body(
                    SessionStatus(
                        status=SecureSessionStatusCode.STATUS_AUTHENTICATION_SUCCESS
                    )
                ).to_knx(),
            )
        )
        await connect_1
        assert session.initialized

        # ... 2**48 - 2 frames later
        session._sequence_number = 2**48 - 1
        heartbeat = KNXIPFrame.init_from_body(ConnectionStateRequest())
        session.send(heartbeat)  # last sequence number 0xffffffffffff - fine
        assert describe(gateway.connections[0].written[-1]) == (
            f"SECURE_WRAPPER(session_id=7, seq={2**48 - 1})"
        )
        with pytest.raises(IPSecureError, match="reset the secure session"):
            session.send(heartbeat)  # refused, as designed

        # reset the session as the message asks
        stop_error: Exception | None = None
        try:
            session.stop()
        except IPSecureError as err:
            stop_error = err
        state_after_stop = (
            f"stop() raised {type(stop_error).__name__ if stop_error else None}, "
            f"initialized={session.initialized}, "
            f"tcp closed={gateway.connections[0].closed}, "
            f"keepalive task running={session._keepalive_task is not None}"
        )
        connect_2 = asyncio.create_task(session.connect())
        await spin()
        try:
            try:
                check_send_property(gateway, {7: key_1})
            except AssertionError as err:
                raise AssertionError(
                    f"{err}\nstate after the reset attempt: {state_after_stop}"
                ) from None
            assert stop_error is None and not session.initialized, (
                "stop() must tear the session down even when the CLOSE notification can "
                f"not be wrapped any more; observed: {state_after_stop}"
            )
        finally:
            connect_2.cancel()
            await asyncio.gather(connect_2, return_exceptions=True)
            session._sequence_number = 0
            session.stop()
            await spin()
