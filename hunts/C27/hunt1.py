"""C27 hunt 1: RoutingBusy arriving in the loop iteration in which the pause timer expires.

A sender is parked in `_RoutingFlowControl.throttle()` on `self._ready.wait()`.
The pause timer (`_resume_sending`) expires and calls `self._ready.set()`; this only
*schedules* the wake-up of the parked sender for the next loop iteration.
A RoutingBusy datagram that is processed in the same loop iteration (after the timer
step, before the sender wakes) calls `self._ready.clear()` and starts a new pause -
but `asyncio.Event.wait()` does not re-check the flag once its waiter future is
resolved, so the sender wakes up and transmits a RoutingIndication right at the
beginning of the freshly announced pause.
"""

import asyncio
from unittest.mock import Mock, patch

from xknx import XKNX
from xknx.cemi import CEMIFrame, CEMILData, CEMIMessageCode
from xknx.io import Routing
from xknx.dpt import DPTBinary
from xknx.knxip import KNXIPFrame, RoutingBusy
from xknx.telegram import GroupAddress, IndividualAddress, Telegram
from xknx.telegram.apci import GroupValueWrite

from test.conftest import EventLoopClockAdvancer

BUSY_SOURCE = ("192.168.1.2", 3671)


def busy_datagram(wait_time_ms: int) -> bytes:
    return KNXIPFrame.init_from_body(RoutingBusy(wait_time=wait_time_ms)).to_knx()


def make_cemi() -> CEMIFrame:
    return CEMIFrame(
        code=CEMIMessageCode.L_DATA_REQ,
        data=CEMILData.init_from_telegram(
            Telegram(
                destination_address=GroupAddress("1/2/3"),
                payload=GroupValueWrite(DPTBinary(1)),
            ),
            src_addr=IndividualAddress("1.1.1"),
        ),
    )


async def test_busy_frame_in_same_loop_iteration_as_resume() -> None:
    loop = asyncio.get_running_loop()
    time_travel = EventLoopClockAdvancer(loop)
    xknx = XKNX()
    confirmations = Mock()
    routing = Routing(
        xknx,
        individual_address=None,
        cemi_received_callback=confirmations,
        local_ip="192.168.1.1",
    )
    sent_at: list[float] = []
    busy_at: list[tuple[float, int]] = []
    order: list[str] = []  # order of events at the network boundary

    def fake_sendto(_data: bytes, _addr: tuple[str, int] | None = None) -> None:
        sent_at.append(loop.time())
        order.append("indication sent")

    # network boundary: the asyncio DatagramTransport of the UDP transport
    routing.transport.transport = Mock(sendto=Mock(side_effect=fake_sendto))

    def receive_busy(wait_time_ms: int) -> None:
        # network boundary: the datagram handed to the UDP transport by the event loop
        busy_at.append((loop.time(), wait_time_ms))
        order.append(f"busy({wait_time_ms}) received")
        routing.transport.data_received_callback(
            busy_datagram(wait_time_ms), BUSY_SOURCE
        )

    with patch("random.random", return_value=0.5):
        t0 = loop.time()
        # busy #1: pause of 100 ms (first frame -> N == 0 -> no random extension)
        receive_busy(100)
        # busy #2 (a second router), wait time 500 ms, is delivered by the event loop
        # at t0 + 100 ms - in the loop iteration in which pause #1 expires: after the
        # pause timer task's step, before the parked sender is resumed.
        send_task = asyncio.create_task(routing.send_cemi(make_cemi()))
        await asyncio.sleep(0)  # sender parks on _ready.wait(); pause timer starts
        assert not sent_at

        def deliver() -> None:
            # Models the selector reporting the datagram in the loop iteration in which
            # the pause timer task runs: deliver the datagram as soon as the pause timer
            # has fired (the private flag is only read to pick the schedule point; the
            # parked sender has not been resumed yet at that moment).
            if routing._flow_control._ready.is_set():
                receive_busy(500)
            else:
                loop.call_soon(deliver)

        loop.call_at(t0 + 0.1, deliver)

        await time_travel(0.1)
        await time_travel(0.0)

        assert len(busy_at) == 2, busy_at
        assert order[:2] == ["busy(100) received", "busy(500) received"], order
        second_busy_time, second_wait = busy_at[1]
        pause_end = second_busy_time + second_wait / 1000
        early = [t for t in sent_at if second_busy_time <= t < pause_end]
        assert not early, (
            f"RoutingIndication sent at t={early[0] - t0:.3f}s although a RoutingBusy "
            f"(wait_time={second_wait} ms) was received at t={second_busy_time - t0:.3f}s "
            f"and set a pause until t>={pause_end - t0:.3f}s "
            f"(order at the network boundary: {order}; "
            f"flow control ready flag now: {routing._flow_control._ready.is_set()}); "
            "the property requires that no routing indication is sent until the announced "
            "wait time has elapsed since the busy frame that set the current pause"
        )
        # (not reached on the unchanged tree)
        await time_travel(0.6)
        assert send_task.done()
        assert confirmations.call_count == 1
    routing._flow_control.cancel()
