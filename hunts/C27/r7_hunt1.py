"""
C27 hunt 1: a RoutingBusy frame received after the pause has ended but inside the
running slowduration window (N > 0, moving time window still open) is not counted
into N - the random wait extension of the pause it sets is too short.

Real classes: xknx.io.routing.Routing (+ _RoutingFlowControl), UDPTransport frame
parsing/dispatch. Mocked: the datagram socket and the clock (virtual-time loop),
random.random pinned to 0.999.
"""

import asyncio
import selectors
from unittest.mock import patch

from xknx import XKNX
from xknx.cemi import CEMIFrame, CEMILData, CEMIMessageCode
from xknx.dpt import DPTBinary
from xknx.io import routing as routing_module
from xknx.io.routing import BUSY_RANDOM_TIME_FACTOR, Routing
from xknx.knxip import KNXIPFrame, RoutingBusy
from xknx.telegram import GroupAddress, IndividualAddress, Telegram
from xknx.telegram.apci import GroupValueWrite


class _VirtualSelector(selectors.BaseSelector):
    """Selector that advances the virtual clock instead of blocking."""

    def __init__(self, loop_ref):
        self._inner = selectors.DefaultSelector()
        self._loop_ref = loop_ref

    def register(self, *a, **k):
        return self._inner.register(*a, **k)

    def unregister(self, *a, **k):
        return self._inner.unregister(*a, **k)

    def modify(self, *a, **k):
        return self._inner.modify(*a, **k)

    def get_map(self):
        return self._inner.get_map()

    def close(self):
        self._inner.close()

    def select(self, timeout=None):
        if timeout is None:
            raise RuntimeError("virtual loop: nothing scheduled")
        if timeout > 0:
            self._loop_ref[0].vtime += timeout
        return self._inner.select(0)


class VirtualLoop(asyncio.SelectorEventLoop):
    def __init__(self):
        ref = [None]
        super().__init__(_VirtualSelector(ref))
        ref[0] = self
        self.vtime = 1000.0
        self._clock_resolution = 1e-12

    def time(self):
        return self.vtime


def _cemi(i: int) -> CEMIFrame:
    telegram = Telegram(
        destination_address=GroupAddress(i + 1),
        payload=GroupValueWrite(DPTBinary(1)),
    )
    return CEMIFrame(
        code=CEMIMessageCode.L_DATA_REQ,
        data=CEMILData.init_from_telegram(
            telegram, src_addr=IndividualAddress("1.1.1")
        ),
    )


RANDOM = 0.999


async def _scenario_window():
    """B1(t=0,100ms), B2(t=50,10ms - covered, N=1), resume, B3 inside the slowduration window."""
    loop = asyncio.get_running_loop()
    wire: list[float] = []

    class FakeDatagramTransport:
        def sendto(self, data, addr=None):
            wire.append(loop.time())

        def close(self):
            pass

    routing = Routing(XKNX(), None, lambda raw: None, "127.0.0.1")
    routing.transport.transport = FakeDatagramTransport()
    fc = routing._flow_control

    def busy(wait_ms):
        raw = KNXIPFrame.init_from_body(RoutingBusy(wait_time=wait_ms)).to_knx()
        routing.transport.data_received_callback(raw, ("10.0.0.9", 3671))

    t0 = loop.time()
    with patch.object(routing_module.random, "random", return_value=RANDOM):
        busy(100)
        await asyncio.sleep(0.050)
        busy(10)
        assert fc._received_busy_frames == 1
        await routing.send_cemi(_cemi(0))
        first_resume = wire[-1] - t0  # 100 ms + 0.999 * 1 * 50 ms
        await asyncio.sleep(t0 + 0.200 - loop.time())
        # 200 ms: the pause is over, slowduration (N * 100 ms from the resume) is running
        assert fc._ready.is_set() and not fc._timer_task.done()
        n_before = fc._received_busy_frames
        t_b3 = loop.time()
        busy(100)
        n_after = fc._received_busy_frames
        await routing.send_cemi(_cemi(1))
        second_pause = wire[-1] - t_b3
    await routing.disconnect()
    return first_resume, n_before, n_after, second_pause


def test_busy_inside_slowduration_window_is_counted():
    loop = VirtualLoop()
    try:
        first_resume, n_before, n_after, second_pause = loop.run_until_complete(
            _scenario_window()
        )
    finally:
        loop.close()
    required = 0.100 + RANDOM * 2 * BUSY_RANDOM_TIME_FACTOR
    assert second_pause >= required - 1e-6, (
        f"RoutingBusy(100 ms) received 150 ms after the previous RoutingBusy and inside the "
        f"running slowduration window (N={n_before}): N after the frame is {n_after}, sending "
        f"resumed {second_pause * 1000:.2f} ms after it. The frame is the 2nd counted frame of "
        f"the moving window (N must become {n_before + 1}), so the property requires wait time "
        f"+ random*N*50ms = {required * 1000:.2f} ms (random()={RANDOM}). "
        f"[first resume at {first_resume * 1000:.2f} ms]"
    )


if __name__ == "__main__":
    test_busy_inside_slowduration_window_is_counted()
