"""C27 hunt 3: a pause that is running when the interface is stopped never ends.

`Routing.disconnect()` calls `_RoutingFlowControl.cancel()`, which cancels the pause timer
task but leaves `_ready` cleared and `_wait_start_time` set. Nothing will ever set `_ready`
again: when the same Routing object is connected again (`connect()` / `disconnect()` are its
public lifecycle API) every `send_cemi()` parks forever on `_ready.wait()` - long after the
announced wait time of the (old) RoutingBusy frame has elapsed. No RoutingIndication, no
L_Data.con, no exception.
"""

import asyncio
from unittest.mock import Mock, patch

from xknx import XKNX
from xknx.cemi import CEMIFrame, CEMILData, CEMIMessageCode
from xknx.dpt import DPTBinary
from xknx.io import Routing
from xknx.io.transport import UDPTransport
from xknx.knxip import KNXIPFrame, RoutingBusy
from xknx.telegram import GroupAddress, IndividualAddress, Telegram
from xknx.telegram.apci import GroupValueWrite


class VirtualClock:
    """Exact virtual loop time: jumps from timer to timer, no real-time drift."""

    def __init__(self, loop: asyncio.AbstractEventLoop) -> None:
        self.loop = loop
        self.now = 1000.0
        loop.time = lambda: self.now  # type: ignore[method-assign]

    async def _drain(self) -> None:
        await asyncio.sleep(0)
        while self.loop._ready:  # type: ignore[attr-defined]
            await asyncio.sleep(0)

    async def advance_to(self, target: float) -> None:
        while True:
            await self._drain()
            pending = [h._when for h in self.loop._scheduled if not h._cancelled]  # type: ignore[attr-defined]
            if pending and min(pending) <= target:
                self.now = max(self.now, min(pending))
                continue
            self.now = max(self.now, target)
            await self._drain()
            return


def make_cemi() -> CEMIFrame:
    return CEMIFrame(
        code=CEMIMessageCode.L_DATA_REQ,
        data=CEMILData.init_from_telegram(
            Telegram(
                destination_address=GroupAddress("1/2/3"),
                payload=GroupValueWrite(DPTBinary(1)),
            ),
            src_addr=IndividualAddress("1.1.1"),
        ),
    )


async def test_sending_resumes_after_reconnect_during_pause() -> None:
    loop = asyncio.get_running_loop()
    clock = VirtualClock(loop)
    xknx = XKNX()
    confirmations = Mock()
    sent_at: list[float] = []

    async def fake_udp_connect(self: UDPTransport) -> None:
        # network boundary: no sockets - a mock asyncio DatagramTransport
        self.transport = Mock(
            sendto=Mock(side_effect=lambda *_a, **_k: sent_at.append(loop.time()))
        )

    with patch.object(UDPTransport, "connect", fake_udp_connect):
        routing = Routing(
            xknx,
            individual_address=None,
            cemi_received_callback=confirmations,
            local_ip="192.168.1.1",
        )
        await routing.connect()
        t0 = loop.time()
        wait_time_ms = 100
        routing.transport.data_received_callback(
            KNXIPFrame.init_from_body(RoutingBusy(wait_time=wait_time_ms)).to_knx(),
            ("192.168.1.2", 3671),
        )
        await clock.advance_to(t0 + 0.050)
        # interface is restarted in the middle of the pause
        await routing.disconnect()
        await clock.advance_to(t0 + 0.060)
        await routing.connect()

        await clock.advance_to(t0 + 0.070)
        send_task = asyncio.create_task(routing.send_cemi(make_cemi()))
        # announced wait ends at t0+100 ms (first busy frame: no random extension);
        # be generous: 10 s
        await clock.advance_to(t0 + 10.0)
        try:
            assert sent_at and send_task.done() and confirmations.call_count == 1, (
                f"{loop.time() - t0:.1f} s after a RoutingBusy with wait_time={wait_time_ms} ms "
                f"(interface disconnected at +50 ms, reconnected at +60 ms, send_cemi() called at +70 ms): "
                f"routing indications sent={len(sent_at)}, send_cemi done={send_task.done()}, "
                f"local confirmations={confirmations.call_count}, "
                f"flow control ready={routing._flow_control._ready.is_set()}, "
                f"pause timer={routing._flow_control._timer_task!r} - "
                "the property requires that sending resumes once the announced wait time has elapsed "
                "and that the send produces exactly one local confirmation"
            )
        finally:
            send_task.cancel()
            await routing.disconnect()
