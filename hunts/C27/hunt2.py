"""C27 hunt 2: the random wait extension ignores RoutingBusy frames counted during the pause.

KNX 03.08.05 Routing §2.3.5: after the announced wait time t_w has elapsed the device waits
an additional random time  t_random = random[0..1] * N * 50 ms,  N being the number of
RoutingBusy frames received (incremented for every busy frame that arrives more than 10 ms
after the previous one). `_RoutingFlowControl._resume_sending` evaluates
`random.random() * self._received_busy_frames * BUSY_RANDOM_TIME_FACTOR` when the timer task
*starts* (i.e. right after the busy frame that set the pause), not when t_w has elapsed.
Busy frames that are counted afterwards but do not restart the timer (their wait time is
covered by the remaining pause -> `return` in handle_routing_busy) therefore never
contribute: after a burst of 4 busy frames from several routers the extension is exactly 0.
"""

import asyncio
from unittest.mock import Mock, patch

from xknx import XKNX
from xknx.cemi import CEMIFrame, CEMILData, CEMIMessageCode
from xknx.dpt import DPTBinary
from xknx.io import Routing
from xknx.io.routing import BUSY_INCREMENT_COOLDOWN, BUSY_RANDOM_TIME_FACTOR
from xknx.knxip import KNXIPFrame, RoutingBusy
from xknx.telegram import GroupAddress, IndividualAddress, Telegram
from xknx.telegram.apci import GroupValueWrite

RANDOM_VALUE = 0.5


class VirtualClock:
    """Exact virtual loop time: jumps from timer to timer, no real-time drift."""

    def __init__(self, loop: asyncio.AbstractEventLoop) -> None:
        self.loop = loop
        self.now = 1000.0
        loop.time = lambda: self.now  # type: ignore[method-assign]

    async def _drain(self) -> None:
        await asyncio.sleep(0)
        while self.loop._ready:  # type: ignore[attr-defined]
            await asyncio.sleep(0)

    async def advance_to(self, target: float) -> None:
        while True:
            await self._drain()
            pending = [h._when for h in self.loop._scheduled if not h._cancelled]  # type: ignore[attr-defined]
            if pending and min(pending) <= target:
                self.now = max(self.now, min(pending))
                continue
            self.now = max(self.now, target)
            await self._drain()
            return


def make_cemi() -> CEMIFrame:
    return CEMIFrame(
        code=CEMIMessageCode.L_DATA_REQ,
        data=CEMILData.init_from_telegram(
            Telegram(
                destination_address=GroupAddress("1/2/3"),
                payload=GroupValueWrite(DPTBinary(1)),
            ),
            src_addr=IndividualAddress("1.1.1"),
        ),
    )


async def test_random_extension_uses_busy_frames_counted_during_pause() -> None:
    loop = asyncio.get_running_loop()
    clock = VirtualClock(loop)
    xknx = XKNX()
    confirmations = Mock()
    routing = Routing(
        xknx,
        individual_address=None,
        cemi_received_callback=confirmations,
        local_ip="192.168.1.1",
    )
    sent_at: list[float] = []
    # network boundary: asyncio DatagramTransport of the UDP transport
    routing.transport.transport = Mock(
        sendto=Mock(side_effect=lambda *_a, **_k: sent_at.append(loop.time()))
    )
    busy_at: list[tuple[float, int]] = []

    def receive_busy(wait_time_ms: int, router: str) -> None:
        busy_at.append((loop.time(), wait_time_ms))
        routing.transport.data_received_callback(
            KNXIPFrame.init_from_body(RoutingBusy(wait_time=wait_time_ms)).to_knx(),
            (router, 3671),
        )

    t0 = loop.time()
    with patch("random.random", return_value=RANDOM_VALUE):
        # 4 routers report busy, 20 ms apart (each outside the 10 ms cooldown)
        loop.call_at(t0 + 0.000, receive_busy, 200, "192.168.1.2")  # sets the pause
        loop.call_at(t0 + 0.020, receive_busy, 100, "192.168.1.3")  # covered by remaining 180 ms
        loop.call_at(t0 + 0.040, receive_busy, 100, "192.168.1.4")  # covered by remaining 160 ms
        loop.call_at(t0 + 0.060, receive_busy, 100, "192.168.1.5")  # covered by remaining 140 ms
        await clock.advance_to(t0 + 0.070)
        send_task = asyncio.create_task(routing.send_cemi(make_cemi()))
        await clock.advance_to(t0 + 0.199)
        assert not sent_at

        # independent count of N as specified: frames received while pausing,
        # more than 10 ms after the previous busy frame
        counted = sum(
            1
            for (prev, _), (cur, _) in zip(busy_at, busy_at[1:])
            if cur - prev > BUSY_INCREMENT_COOLDOWN
        )
        assert counted == 3
        assert routing._flow_control._received_busy_frames == counted  # library agrees on N

        await clock.advance_to(t0 + 1.0)
        assert send_task.done() and len(sent_at) == 1 and confirmations.call_count == 1

    pause_start, announced_ms = busy_at[0]
    extension = RANDOM_VALUE * counted * BUSY_RANDOM_TIME_FACTOR
    earliest_allowed = pause_start + announced_ms / 1000 + extension
    assert sent_at[0] >= earliest_allowed - 1e-9, (
        f"RoutingIndication sent {1000 * (sent_at[0] - pause_start):.1f} ms after the RoutingBusy "
        f"(wait_time={announced_ms} ms) that set the pause; {counted} further RoutingBusy frames were "
        f"counted during the pause (N={counted}), so with random()={RANDOM_VALUE} the specified random "
        f"extension is {RANDOM_VALUE}*{counted}*50 ms = {1000 * extension:.0f} ms and nothing may be "
        f"sent before {1000 * (earliest_allowed - pause_start):.0f} ms - the library applied an "
        f"extension of {1000 * (sent_at[0] - pause_start) - announced_ms:.1f} ms "
        "(property: no routing indication until the announced wait time plus the specified "
        "random extension has elapsed)"
    )
    routing._flow_control.cancel()
