"""
C27 hunt 2: RoutingBusy frames that arrive after the previous pause has ended are
never counted into N - for a sustained stream of busy frames (one shortly after each
resume) N stays 0 and the random wait extension (random * N * 50 ms) is always 0.
NOTE: test/io_tests/routing_test.py::TestFlowControl::test_routing_busy pins N=0 for
the first frame of a pause - see HUNT_REPORT.md.

Real classes: xknx.io.routing.Routing (+ _RoutingFlowControl), UDPTransport frame
parsing/dispatch. Mocked: the datagram socket and the clock (virtual-time loop),
random.random pinned to 0.999.
"""

import asyncio
import selectors
from unittest.mock import patch

from xknx import XKNX
from xknx.cemi import CEMIFrame, CEMILData, CEMIMessageCode
from xknx.dpt import DPTBinary
from xknx.io import routing as routing_module
from xknx.io.routing import BUSY_RANDOM_TIME_FACTOR, Routing
from xknx.knxip import KNXIPFrame, RoutingBusy
from xknx.telegram import GroupAddress, IndividualAddress, Telegram
from xknx.telegram.apci import GroupValueWrite


class _VirtualSelector(selectors.BaseSelector):
    """Selector that advances the virtual clock instead of blocking."""

    def __init__(self, loop_ref):
        self._inner = selectors.DefaultSelector()
        self._loop_ref = loop_ref

    def register(self, *a, **k):
        return self._inner.register(*a, **k)

    def unregister(self, *a, **k):
        return self._inner.unregister(*a, **k)

    def modify(self, *a, **k):
        return self._inner.modify(*a, **k)

    def get_map(self):
        return self._inner.get_map()

    def close(self):
        self._inner.close()

    def select(self, timeout=None):
        if timeout is None:
            raise RuntimeError("virtual loop: nothing scheduled")
        if timeout > 0:
            self._loop_ref[0].vtime += timeout
        return self._inner.select(0)


class VirtualLoop(asyncio.SelectorEventLoop):
    def __init__(self):
        ref = [None]
        super().__init__(_VirtualSelector(ref))
        ref[0] = self
        self.vtime = 1000.0
        self._clock_resolution = 1e-12

    def time(self):
        return self.vtime


def _cemi(i: int) -> CEMIFrame:
    telegram = Telegram(
        destination_address=GroupAddress(i + 1),
        payload=GroupValueWrite(DPTBinary(1)),
    )
    return CEMIFrame(
        code=CEMIMessageCode.L_DATA_REQ,
        data=CEMILData.init_from_telegram(
            telegram, src_addr=IndividualAddress("1.1.1")
        ),
    )


RANDOM = 0.999
WAIT_MS = 20
BUSY_PERIOD = 0.030  # a new RoutingBusy 30 ms after the previous one (pause of 20 ms is over)
N_BUSY = 6


async def _scenario():
    loop = asyncio.get_running_loop()
    wire: list[float] = []
    confirmations: list[bytes] = []

    class FakeDatagramTransport:
        def sendto(self, data, addr=None):
            wire.append(loop.time())

        def close(self):
            pass

    routing = Routing(XKNX(), None, confirmations.append, "127.0.0.1")
    routing.transport.transport = FakeDatagramTransport()
    busy_raw = KNXIPFrame.init_from_body(RoutingBusy(wait_time=WAIT_MS)).to_knx()

    resumes = []  # (busy time, first send after it, N when the busy frame was handled)
    with patch.object(routing_module.random, "random", return_value=RANDOM):
        for i in range(N_BUSY):
            t_busy = loop.time()
            routing.transport.data_received_callback(busy_raw, ("10.0.0.9", 3671))
            n_after = routing._flow_control._received_busy_frames
            await routing.send_cemi(_cemi(i))  # blocks until the pause is over
            resumes.append((t_busy, wire[-1], n_after))
            await asyncio.sleep(t_busy + BUSY_PERIOD - loop.time())
    await routing.disconnect()
    assert len(confirmations) == len(wire) == N_BUSY
    return resumes


def test_busy_stream_gets_random_extension():
    loop = VirtualLoop()
    try:
        resumes = loop.run_until_complete(_scenario())
    finally:
        loop.close()

    t0 = resumes[0][0]
    report = [
        f"busy#{i + 1} at {1000 * (tb - t0):.0f} ms -> N={n}, resumed after {1000 * (ts - tb):.3f} ms"
        for i, (tb, ts, n) in enumerate(resumes)
    ]
    # From the second frame on, every RoutingBusy was received more than 10 ms after
    # the previous RoutingBusy and 30 ms after it - well inside the moving window
    # t_slowduration = N * 100 ms. The flow control rule (KNX 03_08_05 §2.3.5) counts
    # such a frame into N, so the pause it sets has to last
    #   wait_time + random * N * 50 ms   with N >= 1.
    for i, (t_busy, t_send, _n) in enumerate(resumes[1:], start=2):
        required = WAIT_MS / 1000 + RANDOM * 1 * BUSY_RANDOM_TIME_FACTOR
        observed = t_send - t_busy
        assert observed >= required - 1e-6, (
            f"RoutingBusy #{i} of a stream (one every {BUSY_PERIOD * 1000:.0f} ms, "
            f"wait_time={WAIT_MS} ms, random()={RANDOM}): sending resumed "
            f"{observed * 1000:.3f} ms after the busy frame = the bare wait time, the random "
            f"extension was 0 because N stayed 0. The property requires wait time plus the "
            f"specified random extension random*N*50ms with N>=1 (>= {required * 1000:.1f} ms) "
            f"for a busy frame received >10 ms after the previous one.\n" + "\n".join(report)
        )


if __name__ == "__main__":
    test_busy_stream_gets_random_extension()
