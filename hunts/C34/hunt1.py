"""
C34 hunt 1 - an AddressFilter written in 2-level ("2/300") or free ("4396") notation
does not match the very address it names (and matches addresses it does not name)
while GroupAddress.address_format is LONG - the default of XKNX().

Property clause: "A registered telegram callback is called exactly once for each
processed telegram that matches its group addresses or address filters".

Run: /venv/bin/python -m pytest -q -p no:cacheprovider hunt1.py
"""

from __future__ import annotations

import asyncio
from collections.abc import Iterator

import pytest

from xknx import XKNX
from xknx.dpt import DPTBinary
from xknx.telegram import AddressFilter, GroupAddress, Telegram, TelegramDirection
from xknx.telegram.address import GroupAddressType
from xknx.telegram.apci import GroupValueWrite


@pytest.fixture(autouse=True)
def _restore_address_format() -> Iterator[None]:
    previous = GroupAddress.address_format
    yield
    GroupAddress.address_format = previous


async def _run_stream(xknx: XKNX, telegrams: list[Telegram]) -> None:
    """Push the telegrams through the real consumer task of the TelegramQueue."""
    await xknx.telegram_queue.start()
    for telegram in telegrams:
        xknx.telegrams.put_nowait(telegram)
    async with asyncio.timeout(5):
        await xknx.telegrams.join()
    await xknx.telegram_queue.stop()


def _incoming(address: GroupAddress) -> Telegram:
    return Telegram(
        destination_address=address,
        direction=TelegramDirection.INCOMING,
        payload=GroupValueWrite(DPTBinary(1)),
    )


async def test_level2_filter_misses_the_address_it_names() -> None:
    """Filter "2/300" must see the telegram sent to GroupAddress("2/300")."""
    xknx = XKNX()  # address_format defaults to LONG
    assert GroupAddress.address_format is GroupAddressType.LONG

    seen_by_filter: list[Telegram] = []
    seen_by_address_list: list[Telegram] = []
    xknx.telegram_queue.register_telegram_received_cb(
        seen_by_filter.append, address_filters=[AddressFilter("2/300")]
    )
    xknx.telegram_queue.register_telegram_received_cb(
        seen_by_address_list.append, group_addresses=[GroupAddress("2/300")]
    )

    telegram = _incoming(GroupAddress("2/300"))  # raw 4396, printed as 2/1/44
    await _run_stream(xknx, [telegram])

    # control: the telegram was processed and the address-list subscriber got it
    assert seen_by_address_list == [telegram]
    assert seen_by_filter == [telegram], (
        f"callback registered with AddressFilter('2/300') was called "
        f"{len(seen_by_filter)} times for the processed incoming telegram to "
        f"GroupAddress('2/300') (raw {telegram.destination_address.raw}); the property "
        "requires exactly one call for every processed telegram matching its address filter "
        "(a callback subscribed with group_addresses=[GroupAddress('2/300')] was called once)"
    )


async def test_free_filter_misses_the_address_it_names() -> None:
    """Filter "4396" must see the telegram sent to GroupAddress("4396") / GroupAddress(4396)."""
    xknx = XKNX()
    seen: list[Telegram] = []
    xknx.telegram_queue.register_telegram_received_cb(
        seen.append, address_filters=[AddressFilter("4396")]
    )
    telegram = _incoming(GroupAddress("4396"))
    await _run_stream(xknx, [telegram])
    assert seen == [telegram], (
        f"callback registered with AddressFilter('4396') was called {len(seen)} times for "
        "the processed incoming telegram to GroupAddress('4396'); the property requires "
        "exactly one call"
    )


async def test_filters_match_addresses_they_do_not_name() -> None:
    """Filter "2/3" (raw 4099) and filter "4" (raw 4) must not see 2/1/3 resp. 0/1/4."""
    xknx = XKNX()
    seen_level2: list[Telegram] = []
    seen_free: list[Telegram] = []
    xknx.telegram_queue.register_telegram_received_cb(
        seen_level2.append, address_filters=[AddressFilter("2/3")]
    )
    xknx.telegram_queue.register_telegram_received_cb(
        seen_free.append, address_filters=[AddressFilter("4")]
    )
    other_1 = _incoming(GroupAddress("2/1/3"))  # raw 4355 == "2/259", not "2/3"
    other_2 = _incoming(GroupAddress("0/1/4"))  # raw 260, not 4
    assert other_1.destination_address != GroupAddress("2/3")
    assert other_2.destination_address != GroupAddress("4")
    await _run_stream(xknx, [other_1, other_2])

    assert seen_level2 == [] and seen_free == [], (
        f"callback with AddressFilter('2/3') (= raw {GroupAddress('2/3').raw}) was called for "
        f"{[str(t.destination_address) for t in seen_level2]} and callback with "
        f"AddressFilter('4') (= raw 4) was called for "
        f"{[str(t.destination_address) for t in seen_free]}; the property requires a callback "
        "to be called only for telegrams that match its filters"
    )
