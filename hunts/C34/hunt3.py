"""
C34 hunt 3 (lower confidence - depends on how strictly "subscribed" is read) -
a callback that has already been unregistered is still called.

While telegram T is dispatched, callback A unregisters callback B (B was registered
after A).  unregister_telegram_received_cb(B) has returned, B is no longer in
telegram_received_cbs - yet B is called with T right afterwards, because
_run_telegram_received_cbs iterates over a snapshot taken before A ran.

Property: "Telegram callbacks see exactly the telegrams they subscribed to" - B's
subscription ended before it was invoked.

Run: /venv/bin/python -m pytest -q -p no:cacheprovider hunt3.py
"""

from __future__ import annotations

import asyncio

from xknx import XKNX
from xknx.dpt import DPTBinary
from xknx.telegram import GroupAddress, Telegram, TelegramDirection
from xknx.telegram.apci import GroupValueWrite


async def test_unregistered_callback_is_still_called() -> None:
    """B must not be called once unregister_telegram_received_cb(B) has returned."""
    xknx = XKNX()
    queue = xknx.telegram_queue
    calls_to_b_after_unregister: list[Telegram] = []
    b_subscribed = True

    def callback_b(telegram: Telegram) -> None:
        if not b_subscribed:
            calls_to_b_after_unregister.append(telegram)

    def callback_a(telegram: Telegram) -> None:
        # e.g. a telegram that makes the application tear down the owner of B
        nonlocal b_subscribed
        if b_subscribed:
            queue.unregister_telegram_received_cb(handle_b)
            b_subscribed = False

    queue.register_telegram_received_cb(callback_a)
    handle_b = queue.register_telegram_received_cb(callback_b)

    telegram = Telegram(
        destination_address=GroupAddress("1/2/3"),
        direction=TelegramDirection.INCOMING,
        payload=GroupValueWrite(DPTBinary(1)),
    )
    await queue.start()
    xknx.telegrams.put_nowait(telegram)
    async with asyncio.timeout(5):
        await xknx.telegrams.join()
    await queue.stop()

    assert handle_b not in queue.telegram_received_cbs
    assert calls_to_b_after_unregister == [], (
        f"callback B was called {len(calls_to_b_after_unregister)} time(s) with {telegram} "
        "AFTER unregister_telegram_received_cb(B) had returned (B was not in "
        "telegram_received_cbs any more); the property requires callbacks to see exactly the "
        "telegrams they are subscribed to - an unregistered callback must not be called"
    )
