"""C34 hunt 1: a filter of an incompatible level raises inside Callback.is_within_filter
and thereby hides the callback's other, matching, filters / group addresses."""

import asyncio
import logging

import pytest

from xknx import XKNX
from xknx.dpt import DPTBinary
from xknx.telegram import AddressFilter, Telegram, TelegramDirection
from xknx.telegram.address import GroupAddress, GroupAddressType
from xknx.telegram.apci import GroupValueWrite


@pytest.fixture(autouse=True)
def restore_address_format():
    saved = GroupAddress.address_format
    yield
    GroupAddress.address_format = saved


async def _run(xknx: XKNX, telegram: Telegram) -> None:
    await xknx.telegram_queue.start()
    xknx.telegrams.put_nowait(telegram)
    await asyncio.wait_for(xknx.telegrams.join(), 2)
    await xknx.telegram_queue.stop()


@pytest.mark.parametrize(
    ("address_format", "level_filter"),
    [
        (GroupAddressType.FREE, "1/2/3"),  # level-3 filter, free addresses
        (GroupAddressType.FREE, "1/3"),  # level-2 filter, free addresses
        (GroupAddressType.SHORT, "1/2/3"),  # level-3 filter, 2-level addresses
    ],
)
async def test_group_address_hidden_by_raising_filter(address_format, level_filter):
    """group_addresses=[GA 5] matches the telegram, but the filter before it raises."""
    xknx = XKNX(address_format=address_format)
    seen = []
    control = []
    xknx.telegram_queue.register_telegram_received_cb(
        seen.append,
        address_filters=[AddressFilter(level_filter)],
        group_addresses=[GroupAddress(5)],
    )
    # control registration: same group address, no filter
    xknx.telegram_queue.register_telegram_received_cb(
        control.append, group_addresses=[GroupAddress(5)]
    )
    telegram = Telegram(
        destination_address=GroupAddress(5),
        direction=TelegramDirection.INCOMING,
        payload=GroupValueWrite(DPTBinary(1)),
    )
    await _run(xknx, telegram)
    assert control == [telegram]
    assert seen == [telegram], (
        f"callback registered with group_addresses=[GroupAddress(5)] and "
        f"address_filters=[AddressFilter({level_filter!r})] was called {len(seen)} times "
        f"for an incoming telegram to GroupAddress(5) (address_format={address_format}); "
        "the property requires exactly one call for a telegram that matches its "
        "group addresses OR address filters"
    )


async def test_matching_filter_hidden_by_raising_filter(caplog):
    """Two filters: the second one matches, the first one raises -> never evaluated."""
    xknx = XKNX(address_format=GroupAddressType.FREE)
    seen = []
    xknx.telegram_queue.register_telegram_received_cb(
        seen.append,
        address_filters=[AddressFilter("1/2/3"), AddressFilter("5-6")],
    )
    telegram = Telegram(
        destination_address=GroupAddress(5),
        direction=TelegramDirection.INCOMING,
        payload=GroupValueWrite(DPTBinary(1)),
    )
    with caplog.at_level(logging.ERROR, logger="xknx.log"):
        await _run(xknx, telegram)
    assert seen == [telegram], (
        f"callback with address_filters=['1/2/3', '5-6'] was called {len(seen)} times for "
        "a telegram to free group address 5, although AddressFilter('5-6') matches it; "
        "the property requires exactly one call. Log: "
        + "; ".join(r.getMessage() for r in caplog.records)
    )
