"""C34 hunt 3: a callback that raises asyncio.CancelledError (a BaseException, e.g. from
`future.result()` of a cancelled future) is not contained: remaining callbacks and the
devices are skipped and the consumer task dies - no later telegram reaches any callback."""

import asyncio

from xknx import XKNX
from xknx.devices import Switch
from xknx.dpt import DPTBinary
from xknx.telegram import Telegram, TelegramDirection
from xknx.telegram.address import GroupAddress
from xknx.telegram.apci import GroupValueWrite


async def test_callback_raising_cancelled_error():
    xknx = XKNX()
    switch = Switch(xknx, "sw", group_address="1/2/3")
    xknx.devices.async_add(switch)

    cancelled_future = asyncio.get_running_loop().create_future()
    cancelled_future.cancel()

    first, last = [], []

    def bad_callback(telegram: Telegram) -> None:
        # an application looking up the result of one of its own (cancelled) futures
        cancelled_future.result()  # raises asyncio.CancelledError

    xknx.telegram_queue.register_telegram_received_cb(first.append)
    xknx.telegram_queue.register_telegram_received_cb(bad_callback)
    xknx.telegram_queue.register_telegram_received_cb(last.append)

    def tg(value: int) -> Telegram:
        return Telegram(
            destination_address=GroupAddress("1/2/3"),
            direction=TelegramDirection.INCOMING,
            payload=GroupValueWrite(DPTBinary(value)),
        )

    t1, t2 = tg(1), tg(0)
    await xknx.telegram_queue.start()
    xknx.telegrams.put_nowait(t1)
    xknx.telegrams.put_nowait(t2)
    for _ in range(20):
        await asyncio.sleep(0)

    consumer_done = xknx.telegram_queue._consumer_task.done()
    observed = (
        f"first callback saw {len(first)} telegrams, callback registered after the raising "
        f"one saw {len(last)}, switch.state={switch.state}, "
        f"unprocessed telegrams left in queue={xknx.telegrams.qsize()}, "
        f"consumer finished={consumer_done}"
    )
    # cleanup without hanging
    try:
        await asyncio.wait_for(xknx.telegram_queue.stop(), 1)
    except (asyncio.CancelledError, TimeoutError):
        pass

    assert first == [t1, t2] and last == [t1, t2] and switch.state is False, (
        f"{observed}; the property requires that a raising callback does not prevent the "
        "remaining callbacks or device processing, and every processed telegram reaches "
        "each matching callback exactly once"
    )
