"""C34 hunt 2: free-format / 2-level address filters are evaluated on the *display* parts
of the destination address (GroupAddress.sub = raw & 0xFF in the default LONG format),
so the same registration sees different telegrams depending on the global string
representation: it misses the address it names and is called for foreign addresses."""

import asyncio

import pytest

from xknx import XKNX
from xknx.dpt import DPTBinary
from xknx.telegram import AddressFilter, Telegram, TelegramDirection
from xknx.telegram.address import GroupAddress, GroupAddressType
from xknx.telegram.apci import GroupValueWrite


@pytest.fixture(autouse=True)
def restore_address_format():
    saved = GroupAddress.address_format
    yield
    GroupAddress.address_format = saved


async def _calls(address_format, pattern: str, raw_destination: int) -> int:
    """Return how often a callback filtered by `pattern` sees a telegram to `raw_destination`."""
    xknx = XKNX(address_format=address_format)
    seen = []
    xknx.telegram_queue.register_telegram_received_cb(
        seen.append, address_filters=[AddressFilter(pattern)]
    )
    await xknx.telegram_queue.start()
    xknx.telegrams.put_nowait(
        Telegram(
            destination_address=GroupAddress(raw_destination),
            direction=TelegramDirection.INCOMING,
            payload=GroupValueWrite(DPTBinary(1)),
        )
    )
    await asyncio.wait_for(xknx.telegrams.join(), 2)
    await xknx.telegram_queue.stop()
    return len(seen)


async def test_free_filter_misses_its_own_address_in_default_format():
    """AddressFilter("300") names group address 300 (= 0/1/44)."""
    assert await _calls(GroupAddressType.FREE, "300", 300) == 1  # reference semantics
    n = await _calls(GroupAddressType.LONG, "300", 300)
    assert n == 1, (
        f"XKNX() (default LONG representation): callback with AddressFilter('300') was "
        f"called {n} times for an incoming telegram to GroupAddress(300); with "
        "address_format=FREE the identical registration/telegram gives 1 call. The "
        "property requires exactly one call for a telegram matching the address filter - "
        "the filter is compared with raw & 0xFF (=44), so no address > 255 can ever match"
    )


async def test_free_filter_called_for_foreign_addresses_in_default_format():
    """AddressFilter("4") names group address 4 (= 0/0/4), not 1/1/4 (= 2308)."""
    assert await _calls(GroupAddressType.FREE, "4", 2308) == 0  # reference semantics
    n = await _calls(GroupAddressType.LONG, "4", 2308)
    assert n == 0, (
        f"XKNX() (default LONG representation): callback with AddressFilter('4') was called "
        f"{n} times for an incoming telegram to GroupAddress('1/1/4') (raw 2308); with "
        "address_format=FREE the identical registration/telegram gives 0 calls. The property "
        "says callbacks see exactly the telegrams they subscribed to"
    )


async def test_level2_filter_misses_its_own_address_in_default_format():
    """AddressFilter("1/300") names 2-level address 1/300 (raw 2348 = 1/1/44)."""
    assert await _calls(GroupAddressType.SHORT, "1/300", 2348) == 1  # reference semantics
    n = await _calls(GroupAddressType.LONG, "1/300", 2348)
    assert n == 1, (
        f"XKNX() (default LONG representation): callback with AddressFilter('1/300') was "
        f"called {n} times for a telegram to raw address 2348 (2-level '1/300'); with "
        "address_format=SHORT the identical registration/telegram gives 1 call"
    )
