"""
C34 hunt 2 - evaluating the filter of ONE callback raises (AddressFilter raises the
builtin ConnectionError for a 3-level pattern while the address format is SHORT/FREE),
and TelegramQueue._run_telegram_received_cbs lets it escape: every callback registered
after it is skipped for that telegram and the devices never process it.

Property clauses: "A registered telegram callback is called exactly once for each
processed telegram that matches ... (all telegrams if it gave none)" and "A callback
that raises does not prevent the remaining callbacks or device processing from running."

Run: /venv/bin/python -m pytest -q -p no:cacheprovider hunt2.py
"""

from __future__ import annotations

import asyncio
from collections.abc import Iterator

import pytest

from xknx import XKNX
from xknx.devices import Switch
from xknx.dpt import DPTBinary
from xknx.telegram import AddressFilter, GroupAddress, Telegram, TelegramDirection
from xknx.telegram.address import GroupAddressType
from xknx.telegram.apci import GroupValueWrite


@pytest.fixture(autouse=True)
def _restore_address_format() -> Iterator[None]:
    previous = GroupAddress.address_format
    yield
    GroupAddress.address_format = previous


@pytest.mark.parametrize(
    "address_format", [GroupAddressType.SHORT, GroupAddressType.FREE]
)
async def test_raising_filter_starves_other_callbacks_and_devices(
    address_format: GroupAddressType,
) -> None:
    """One subscriber with a 3-level filter must not take the telegram away from the others."""
    xknx = XKNX(address_format=address_format)
    switch = Switch(xknx, "switch", group_address=GroupAddress(2563))
    xknx.devices.async_add(switch)

    seen_before: list[Telegram] = []
    seen_filtered: list[Telegram] = []
    seen_after: list[Telegram] = []
    # 1. a match-all subscriber registered first
    xknx.telegram_queue.register_telegram_received_cb(seen_before.append)
    # 2. a subscriber whose filter was written in 3-level notation (e.g. copied from ETS)
    xknx.telegram_queue.register_telegram_received_cb(
        seen_filtered.append, address_filters=[AddressFilter("1/2/3")]
    )
    # 3. a match-all subscriber registered later (e.g. a group monitor)
    xknx.telegram_queue.register_telegram_received_cb(seen_after.append)

    telegram = Telegram(
        destination_address=GroupAddress(2563),  # == 1/2/3 in long notation
        direction=TelegramDirection.INCOMING,
        payload=GroupValueWrite(DPTBinary(1)),
    )

    await xknx.telegram_queue.start()
    xknx.telegrams.put_nowait(telegram)
    async with asyncio.timeout(5):
        await xknx.telegrams.join()
    await xknx.telegram_queue.stop()

    # the telegram was processed: the first subscriber got it
    assert seen_before == [telegram]
    assert seen_after == [telegram] and switch.state is True, (
        f"address_format={address_format.name}: the match-all callback registered after the "
        f"subscriber with AddressFilter('1/2/3') was called {len(seen_after)} times for the "
        f"processed incoming telegram to {telegram.destination_address!r} and the Switch on "
        f"that address has state {switch.state!r}; the property requires exactly one call of "
        "every matching callback (all telegrams for a callback without filters) and device "
        "processing to run, regardless of what another subscriber does"
    )
