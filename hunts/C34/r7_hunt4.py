"""C34 hunt 4: for OUTGOING telegrams the devices are processed *before* the callbacks and
outside any guard, so a device that raises hides the (already sent) telegram from every
callback that asked for outgoing telegrams. For INCOMING telegrams the order is reversed
and the same device error costs no callback."""

import asyncio
from collections.abc import Iterator
from typing import Any

from xknx import XKNX
from xknx.devices import Device
from xknx.dpt import DPTArray
from xknx.remote_value import RemoteValue, RemoteValueSwitch
from xknx.telegram import Telegram, TelegramDirection
from xknx.telegram.address import InternalGroupAddress
from xknx.telegram.apci import GroupValueWrite


class StrictDevice(Device):
    """A custom device (legal extension point) that rejects unexpected payloads."""

    def __init__(self, xknx: XKNX, name: str, group_address: str) -> None:
        super().__init__(xknx, name)
        self.rv = RemoteValueSwitch(xknx, group_address, device_name=name)

    def _iter_remote_values(self) -> Iterator[RemoteValue[Any]]:
        yield self.rv

    def process_group_write(self, telegram) -> None:
        if not self.rv.process(telegram):
            raise ValueError(f"{self.name}: unexpected payload {telegram.payload}")


async def _calls(direction: TelegramDirection) -> int:
    xknx = XKNX()
    # internal address: no network needed, telegram is "sent" successfully
    xknx.devices.async_add(StrictDevice(xknx, "strict", "i-test"))
    seen = []
    xknx.telegram_queue.register_telegram_received_cb(
        seen.append,
        group_addresses=[InternalGroupAddress("i-test")],
        match_for_outgoing=True,
    )
    await xknx.telegram_queue.start()
    xknx.telegrams.put_nowait(
        Telegram(
            destination_address=InternalGroupAddress("i-test"),
            direction=direction,
            payload=GroupValueWrite(DPTArray((1, 2))),  # not a 1-bit payload
        )
    )
    await asyncio.wait_for(xknx.telegrams.join(), 2)
    await xknx.telegram_queue.stop()
    return len(seen)


async def test_outgoing_callback_lost_when_device_raises():
    assert await _calls(TelegramDirection.INCOMING) == 1  # same error, callback still runs
    n = await _calls(TelegramDirection.OUTGOING)
    assert n == 1, (
        f"callback registered with match_for_outgoing=True for i-test was called {n} times "
        "for a processed outgoing telegram to i-test because a device raised in "
        "devices.process(); the identical incoming telegram gives 1 call. The property "
        "requires exactly one call for each processed matching telegram (outgoing ones if "
        "asked for)"
    )
