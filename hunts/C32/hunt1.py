"""
C32 hunt 1 - closing the connection while a UDP request awaits its acknowledgement.

Property clause: "closing the connection fails a pending request promptly with a
communication error" (quantified over "closing the connection at every step").

`_DeviceManagementConnection._stop()` only cancels `self._pending` - the future
`request()` awaits *after* the acknowledgement arrived. While
`UDPDeviceManagementConnection._send_request()` is still suspended in
`DeviceConfiguration.request()` (waiting for the DeviceConfigurationAck) nothing
wakes it up: the request stays pending for the rest of the 10 s acknowledgement
timeout. If the application reconnects within that window, the zombie request
finds `communication_channel` set again, repeats itself on the NEW connection
(old channel id, new counter) and finally tears the new connection down.

Run: /venv/bin/python -m pytest -q -p no:cacheprovider hunt1.py
"""

from __future__ import annotations

import asyncio
from unittest.mock import Mock, patch

import pytest

from xknx.exceptions import CommunicationError
from xknx.io import UDPDeviceManagementConnection
from xknx.io.const import DEVICE_CONFIGURATION_REQUEST_TIMEOUT
from xknx.knxip import (
    HPAI,
    ConnectRequest,
    ConnectResponse,
    DeviceConfigurationRequest,
    DisconnectRequest,
    DisconnectResponse,
    KNXIPFrame,
)
from xknx.profile.const import ResourceKNXNETIPPropertyId, ResourceObjectType

LOCAL_ADDR = ("192.168.1.1", 12345)
REMOTE_ADDR = ("192.168.1.2", 3671)
DEVICE_STATE = ResourceKNXNETIPPropertyId.PID_KNXNETIP_DEVICE_STATE


class Clock:
    """Fake the loop clock (same technique as test/conftest.py::time_travel)."""

    def __init__(self) -> None:
        self.loop = asyncio.get_running_loop()
        self.offset = 0.0
        self._base = self.loop.time
        self.loop.time = lambda: self._base() + self.offset  # type: ignore[method-assign]

    async def _exhaust(self) -> None:
        while self.loop._ready:  # type: ignore[attr-defined]
            await asyncio.sleep(0)

    async def __call__(self, seconds: float) -> None:
        await self._exhaust()
        if seconds > 0:
            self.offset += seconds
            await asyncio.sleep(0)
            await self._exhaust()


class Net:
    """The network boundary: everything the client puts on the wire is recorded."""

    def __init__(self, connection: UDPDeviceManagementConnection) -> None:
        self.connection = connection
        self.sent: list[KNXIPFrame] = []

    def send(self, knxipframe: KNXIPFrame, addr: object = None) -> None:
        self.sent.append(knxipframe)

    def deliver(self, body: object) -> None:
        self.connection.transport.handle_knxipframe(
            KNXIPFrame.init_from_body(body), HPAI(*REMOTE_ADDR)
        )

    def bodies(self, cls: type) -> list:
        return [frame.body for frame in self.sent if isinstance(frame.body, cls)]


async def _connect(
    connection: UDPDeviceManagementConnection, net: Net, clock: Clock, channel: int
) -> None:
    task = asyncio.create_task(connection.connect())
    await clock(0)
    assert isinstance(net.sent[-1].body, ConnectRequest)
    net.deliver(ConnectResponse(communication_channel=channel))
    await task


@pytest.fixture
def patched_transport():
    with (
        patch("xknx.io.transport.udp_transport.UDPTransport.connect"),
        patch(
            "xknx.io.transport.udp_transport.UDPTransport.getsockname",
            return_value=LOCAL_ADDR,
        ),
        patch("xknx.io.transport.udp_transport.UDPTransport.stop"),
    ):
        yield


def _new_connection() -> tuple[UDPDeviceManagementConnection, Net]:
    connection = UDPDeviceManagementConnection(
        gateway_ip=REMOTE_ADDR[0],
        gateway_port=REMOTE_ADDR[1],
        local_ip=LOCAL_ADDR[0],
        local_port=LOCAL_ADDR[1],
        indication_callback=Mock(),
    )
    return connection, Net(connection)


async def test_server_disconnect_while_awaiting_ack_fails_request_promptly(
    patched_transport: None,
) -> None:
    """The server closes the connection before it acknowledged the request."""
    clock = Clock()
    connection, net = _new_connection()
    with patch("xknx.io.transport.udp_transport.UDPTransport.send", net.send):
        await _connect(connection, net, clock, channel=23)

        task = asyncio.create_task(
            connection.read_property(
                ResourceObjectType.OBJECT_KNXNETIP_PARAMETER, DEVICE_STATE
            )
        )
        await clock(0)
        assert len(net.bodies(DeviceConfigurationRequest)) == 1
        # not acknowledged yet - instead the server terminates the connection
        net.deliver(DisconnectRequest(communication_channel_id=23))
        assert connection.communication_channel is None
        assert isinstance(net.sent[-1].body, DisconnectResponse)

        # one full second later the request must long have failed
        await clock(1)
        try:
            assert task.done(), (
                "observed: 1 s after the server closed the device management "
                "connection, read_property() is still pending (it waits out the "
                f"{DEVICE_CONFIGURATION_REQUEST_TIMEOUT} s acknowledgement timeout "
                "of a connection that no longer exists). The property requires "
                "that closing the connection fails a pending request promptly "
                "with a CommunicationError."
            )
            with pytest.raises(CommunicationError):
                task.result()
        finally:
            task.cancel()
            await asyncio.gather(task, return_exceptions=True)


async def test_client_disconnect_while_awaiting_ack_fails_request_promptly(
    patched_transport: None,
) -> None:
    """The application calls disconnect() while a request awaits its acknowledgement."""
    clock = Clock()
    connection, net = _new_connection()
    with patch("xknx.io.transport.udp_transport.UDPTransport.send", net.send):
        await _connect(connection, net, clock, channel=23)

        task = asyncio.create_task(
            connection.write_property(
                ResourceObjectType.OBJECT_KNXNETIP_PARAMETER, DEVICE_STATE, b"\x00"
            )
        )
        await clock(0)

        disconnect_task = asyncio.create_task(connection.disconnect())
        await clock(0)
        assert isinstance(net.sent[-1].body, DisconnectRequest)
        net.deliver(DisconnectResponse(communication_channel_id=23))
        await disconnect_task

        await clock(1)
        try:
            assert task.done(), (
                "observed: 1 s after disconnect() completed, write_property() is "
                "still pending; the property requires that closing the "
                "connection fails a pending request promptly with a "
                "CommunicationError."
            )
            with pytest.raises(CommunicationError):
                task.result()
        finally:
            task.cancel()
            await asyncio.gather(task, return_exceptions=True)


async def test_request_of_closed_connection_does_not_touch_the_next_connection(
    patched_transport: None,
) -> None:
    """History: request - server closes - application reconnects within 10 s."""
    clock = Clock()
    connection, net = _new_connection()
    with patch("xknx.io.transport.udp_transport.UDPTransport.send", net.send):
        await _connect(connection, net, clock, channel=23)

        task = asyncio.create_task(
            connection.read_property(
                ResourceObjectType.OBJECT_KNXNETIP_PARAMETER, DEVICE_STATE
            )
        )
        await clock(0)
        net.deliver(DisconnectRequest(communication_channel_id=23))
        assert connection.communication_channel is None

        # the application notices and reconnects 2 s later; new channel 24
        await clock(2)
        await _connect(connection, net, clock, channel=24)
        assert connection.communication_channel == 24
        net.sent.clear()

        # let the acknowledgement timeouts of the old request pass
        for _ in range(5):
            await clock(DEVICE_CONFIGURATION_REQUEST_TIMEOUT)
            # be a polite server: answer a DisconnectRequest if one shows up
            for body in net.bodies(DisconnectRequest):
                net.deliver(
                    DisconnectResponse(
                        communication_channel_id=body.communication_channel_id
                    )
                )
            await clock(0)

        zombie_frames = [
            (body.communication_channel_id, body.sequence_counter)
            for body in net.bodies(DeviceConfigurationRequest)
        ]
        disconnects = [
            body.communication_channel_id for body in net.bodies(DisconnectRequest)
        ]
        try:
            assert not zombie_frames and not disconnects, (
                "observed: the request that was pending when channel 23 was "
                "closed kept running on the NEW connection: it sent "
                f"DeviceConfigurationRequests (channel, counter) {zombie_frames} and "
                f"then DisconnectRequests for channel(s) {disconnects}; "
                f"communication_channel is now {connection.communication_channel}. "
                "The property requires the pending request to fail promptly with "
                "a CommunicationError when its connection is closed, and a request "
                "to be repeated at most three times on its own connection only."
            )
            assert connection.communication_channel == 24
        finally:
            task.cancel()
            await asyncio.gather(task, return_exceptions=True)
            connection._stop()
