"""
C32 hunt 6 - a request cancelled while it awaits its acknowledgement leaves its counter to the next request.

Property clause: "the counter advances once per accepted request" (task hint:
"cancellation at each await").

`UDPDeviceManagementConnection._send_request()` advances `sequence_number`
only after `DeviceConfiguration.request()` returned. When the calling task is
cancelled at that await (e.g. `asyncio.wait_for(conn.read_property(...), 3)` -
the library's own acknowledgement timeout is 10 s) the datagram is already on
the wire and may well have been accepted by the server, yet the counter stays.
The next - different - request is sent with the SAME counter; a conforming
server takes it for a repetition: it acknowledges and discards it (KNX
03.08.03 s2.3.2). The client sees its request acknowledged, advances the
counter for a request the server did not accept, and waits in vain.

NOTE: test_request_cancelled pins that such a cancellation propagates and keeps
the connection open; it does not look at the counter.

Run: /venv/bin/python -m pytest -q -p no:cacheprovider hunt6.py
"""

from __future__ import annotations

import asyncio
from unittest.mock import Mock, patch

import pytest

from xknx.cemi import CEMIFrame, CEMIMessageCode, CEMIMPropInfo, CEMIMPropReadResponse
from xknx.exceptions import CommunicationError
from xknx.io import UDPDeviceManagementConnection
from xknx.io.const import DEVICE_CONFIGURATION_REQUEST_TIMEOUT
from xknx.knxip import (
    HPAI,
    ConnectRequest,
    ConnectResponse,
    DeviceConfigurationAck,
    DeviceConfigurationRequest,
    DisconnectRequest,
    DisconnectResponse,
    KNXIPFrame,
)
from xknx.profile.const import ResourceKNXNETIPPropertyId, ResourceObjectType

LOCAL_ADDR = ("192.168.1.1", 12345)
REMOTE_ADDR = ("192.168.1.2", 3671)
CHANNEL = 23
KNXNETIP = ResourceObjectType.OBJECT_KNXNETIP_PARAMETER
DEVICE_STATE = ResourceKNXNETIPPropertyId.PID_KNXNETIP_DEVICE_STATE
PROJECT_ID = ResourceKNXNETIPPropertyId.PID_PROJECT_INSTALLATION_ID


class Clock:
    """Fake the loop clock (same technique as test/conftest.py::time_travel)."""

    def __init__(self) -> None:
        self.loop = asyncio.get_running_loop()
        self.offset = 0.0
        self._base = self.loop.time
        self.loop.time = lambda: self._base() + self.offset  # type: ignore[method-assign]

    async def _exhaust(self) -> None:
        while self.loop._ready:  # type: ignore[attr-defined]
            await asyncio.sleep(0)

    async def __call__(self, seconds: float) -> None:
        await self._exhaust()
        if seconds > 0:
            self.offset += seconds
            await asyncio.sleep(0)
            await self._exhaust()


class Server:
    """
    A spec conforming KNXnet/IP device management server behind a lossy network.

    It keeps the receive counter of KNX 03.08.03 §2.3.2: the expected counter is
    acknowledged and answered, one less is acknowledged and discarded, anything
    else is dropped. `lose_next_request` drops the next client datagram on its
    way to the server.
    """

    def __init__(self, connection: UDPDeviceManagementConnection) -> None:
        self.connection = connection
        self.wire: list[KNXIPFrame] = []  # everything the client sent
        self.accepted: list[int] = []  # counters of the requests the server accepted
        self.rx_expected = 0
        self.tx_counter = 0
        self.lose_next_request = False
        self.lose_next_ack = False
        self.hold_answers = False  # a slow server: answers are produced late
        self.held: list[int] = []

    def release_answers(self) -> None:
        """The slow server finally answers what it had accepted."""
        self.hold_answers = False
        for property_id in self.held:
            self._later(self.read_con(property_id))
        self.held.clear()

    def send(self, knxipframe: KNXIPFrame, addr: object = None) -> None:
        """Stand-in for UDPTransport.send()."""
        self.wire.append(knxipframe)
        body = knxipframe.body
        if isinstance(body, DisconnectRequest):
            self._later(DisconnectResponse(communication_channel_id=CHANNEL))
        if not isinstance(body, DeviceConfigurationRequest):
            return
        if self.lose_next_request:
            self.lose_next_request = False
            return
        if body.sequence_counter == self.rx_expected:
            self.rx_expected = self.rx_expected + 1 & 0xFF
            self.accepted.append(body.sequence_counter)
            if self.lose_next_ack:
                self.lose_next_ack = False
            else:
                self._later(self.ack(body.sequence_counter))
            request = CEMIFrame.from_knx(body.raw_cemi)
            property_id = request.data.property_info.property_id
            if self.hold_answers:
                self.held.append(property_id)
            else:
                self._later(self.read_con(property_id))
        elif body.sequence_counter == self.rx_expected - 1 & 0xFF:
            self._later(self.ack(body.sequence_counter))
        # else: out of order - dropped without an acknowledgement

    def ack(self, counter: int, channel: int = CHANNEL) -> DeviceConfigurationAck:
        return DeviceConfigurationAck(
            communication_channel_id=channel, sequence_counter=counter
        )

    def read_con(self, property_id: int) -> DeviceConfigurationRequest:
        raw_cemi = CEMIFrame(
            code=CEMIMessageCode.M_PROP_READ_CON,
            data=CEMIMPropReadResponse(
                property_info=CEMIMPropInfo(
                    object_type=KNXNETIP, property_id=property_id
                ),
                data=bytes((property_id,)),
            ),
        ).to_knx()
        request = DeviceConfigurationRequest(
            communication_channel_id=CHANNEL,
            sequence_counter=self.tx_counter,
            raw_cemi=raw_cemi,
        )
        self.tx_counter = self.tx_counter + 1 & 0xFF
        return request

    def deliver(self, body: object) -> None:
        self.connection.transport.handle_knxipframe(
            KNXIPFrame.init_from_body(body), HPAI(*REMOTE_ADDR)
        )

    def _later(self, body: object) -> None:
        asyncio.get_running_loop().call_soon(self.deliver, body)

    def requests(self) -> list[int]:
        return [
            frame.body.sequence_counter
            for frame in self.wire
            if isinstance(frame.body, DeviceConfigurationRequest)
        ]


@pytest.fixture
def patched_transport():
    with (
        patch("xknx.io.transport.udp_transport.UDPTransport.connect"),
        patch(
            "xknx.io.transport.udp_transport.UDPTransport.getsockname",
            return_value=LOCAL_ADDR,
        ),
        patch("xknx.io.transport.udp_transport.UDPTransport.stop"),
    ):
        yield


async def _setup(clock: Clock) -> tuple[UDPDeviceManagementConnection, Server]:
    connection = UDPDeviceManagementConnection(
        gateway_ip=REMOTE_ADDR[0],
        gateway_port=REMOTE_ADDR[1],
        local_ip=LOCAL_ADDR[0],
        local_port=LOCAL_ADDR[1],
        indication_callback=Mock(),
    )
    server = Server(connection)
    patcher = patch("xknx.io.transport.udp_transport.UDPTransport.send", server.send)
    patcher.start()
    task = asyncio.create_task(connection.connect())
    await clock(0)
    assert isinstance(server.wire[-1].body, ConnectRequest)
    server.deliver(ConnectResponse(communication_channel=CHANNEL))
    await task
    server.patcher = patcher  # type: ignore[attr-defined]
    return connection, server


async def _teardown(connection: UDPDeviceManagementConnection, server: Server) -> None:
    connection._stop()
    server.patcher.stop()  # type: ignore[attr-defined]


async def test_cancel_while_awaiting_ack_does_not_reuse_the_counter(
    patched_transport: None,
) -> None:
    """The acknowledgement is lost, the caller gives up after 3 s."""
    clock = Clock()
    connection, server = await _setup(clock)
    try:
        # request #0: accepted by the server, its acknowledgement gets lost and
        # the (slow) server has not answered yet when the caller gives up
        server.lose_next_ack = True
        server.hold_answers = True
        task = asyncio.create_task(
            asyncio.wait_for(connection.read_property(KNXNETIP, DEVICE_STATE), 3)
        )
        await clock(0)
        await clock(3)
        with pytest.raises(TimeoutError):
            await task
        assert server.accepted == [0]
        assert connection.communication_channel == CHANNEL
        # now the answer to the abandoned request arrives - nobody waits for it
        server.release_answers()
        await clock(0)

        # request #1 - another property
        task = asyncio.create_task(connection.read_property(KNXNETIP, PROJECT_ID))
        await clock(0)
        outcome: object
        try:
            for _ in range(6):
                if task.done():
                    break
                await clock(DEVICE_CONFIGURATION_REQUEST_TIMEOUT)
            outcome = task.result() if task.done() else "still pending"
        except CommunicationError as err:
            outcome = err

        assert server.accepted == [0, 1] and outcome == bytes((PROJECT_ID.value,)), (
            "observed: after the read of DEVICE_STATE (counter 0, accepted by the "
            "server) was cancelled while awaiting its acknowledgement, the read "
            f"of PROJECT_INSTALLATION_ID went out with counters {server.requests()[1:]}; "
            "the server took it for a repetition of counter 0, acknowledged and "
            f"discarded it (accepted: {server.accepted}); the client counter is "
            f"now {connection.sequence_number} and read_property() ended with "
            f"{outcome!r}. The property requires the counter to advance once per "
            "accepted request, so that the next request is not mistaken for a "
            "repetition."
        )
    finally:
        await _teardown(connection, server)
