"""
C32 hunt 3: a stale answer that arrives in the same event loop callback as the
request's own answer swallows that answer - the request fails with "No answer"
although the server answered it correctly.

History (TCP, the same holds for a secure session):
  1. read of property A: the server is slow - no answer within 10 s ->
     CommunicationError.
  2. read of property B is sent.
  3. the server finishes request #1 and then request #2 and writes both
     confirmations back to back: M_PropRead.con(A), M_PropRead.con(B). They
     reach the client in one TCP segment / one `data_received()` call.

Property: "A property read ... returns only an answer of the matching type for
the same object type, instance and property; stale answers are discarded".
The read of B has to discard con(A) and return the data of con(B).
"""

from __future__ import annotations

import asyncio
from unittest.mock import patch

import pytest

from xknx.cemi import CEMIFrame, CEMIMessageCode, CEMIMPropInfo, CEMIMPropReadResponse
from xknx.exceptions import CommunicationError
from xknx.io import TCPDeviceManagementConnection
from xknx.io.const import DEVICE_CONFIGURATION_REQUEST_TIMEOUT
from xknx.knxip import (
    HPAI,
    ConnectResponse,
    DeviceConfigurationRequest,
    HostProtocol,
    KNXIPFrame,
)
from xknx.knxip.connect_response import ConnectResponseData
from xknx.knxip.knxip_enum import ConnectRequestType
from xknx.profile.const import ResourceObjectType

REMOTE_ADDR = ("192.168.1.2", 3671)
CHANNEL = 23
OBJ = ResourceObjectType.OBJECT_KNXNETIP_PARAMETER
PID_A = 0x34
PID_B = 0x45


class Clock:
    """Advance the loop time (same technique as test/conftest.py)."""

    def __init__(self) -> None:
        self.loop = asyncio.get_running_loop()
        self.offset = 0.0
        self._base = self.loop.time
        self.loop.time = lambda: self._base() + self.offset  # type: ignore[method-assign]

    async def _exhaust(self) -> None:
        while self.loop._ready:  # type: ignore[attr-defined]
            await asyncio.sleep(0)

    async def __call__(self, seconds: float) -> None:
        await self._exhaust()
        if seconds > 0:
            self.offset += seconds
            await asyncio.sleep(0)
            await self._exhaust()


def read_con_frame(property_id: int, data: bytes, sequence_counter: int) -> bytes:
    """Return the bytes of a DeviceConfigurationRequest carrying a M_PropRead.con."""
    raw_cemi = CEMIFrame(
        code=CEMIMessageCode.M_PROP_READ_CON,
        data=CEMIMPropReadResponse(
            property_info=CEMIMPropInfo(object_type=OBJ, property_id=property_id),
            data=data,
        ),
    ).to_knx()
    return KNXIPFrame.init_from_body(
        DeviceConfigurationRequest(
            communication_channel_id=CHANNEL,
            sequence_counter=sequence_counter,
            raw_cemi=raw_cemi,
        )
    ).to_knx()


async def test_own_answer_behind_a_stale_one_in_one_segment() -> None:
    """The answer following a stale one in the same TCP segment is returned."""
    clock = Clock()
    connection = TCPDeviceManagementConnection(
        gateway_ip=REMOTE_ADDR[0], gateway_port=REMOTE_ADDR[1]
    )
    with (
        patch("xknx.io.transport.tcp_transport.TCPTransport.send"),
        patch("xknx.io.transport.tcp_transport.TCPTransport.connect"),
        patch("xknx.io.transport.tcp_transport.TCPTransport.stop"),
    ):
        task = asyncio.create_task(connection.connect())
        await clock(0)
        connection.transport.data_received_callback(
            KNXIPFrame.init_from_body(
                ConnectResponse(
                    communication_channel=CHANNEL,
                    data_endpoint=HPAI(protocol=HostProtocol.IPV4_TCP),
                    crd=ConnectResponseData(
                        request_type=ConnectRequestType.DEVICE_MGMT_CONNECTION
                    ),
                )
            ).to_knx()
        )
        await task

        # request #1 (property A) is not answered in time
        task1 = asyncio.create_task(connection.read_property(OBJ, PID_A))
        await clock(DEVICE_CONFIGURATION_REQUEST_TIMEOUT)
        with pytest.raises(CommunicationError):
            await task1
        assert connection.communication_channel == CHANNEL

        # request #2 (property B)
        task2 = asyncio.create_task(connection.read_property(OBJ, PID_B))
        await clock(0)
        assert not task2.done()

        # both confirmations reach the client in one segment
        connection.transport.data_received_callback(
            read_con_frame(PID_A, b"\xaa", sequence_counter=0)
            + read_con_frame(PID_B, b"\xbb", sequence_counter=1)
        )
        await clock(0)
        answered_at_once = task2.done()

        await clock(DEVICE_CONFIGURATION_REQUEST_TIMEOUT)
        assert task2.done()
        outcome: object
        try:
            outcome = task2.result()
        except CommunicationError as err:
            outcome = err

    assert outcome == b"\xbb" and answered_at_once, (
        "observed: the server sent M_PropRead.con for property 0x34 (stale, answer to a timed "
        "out request) directly followed by M_PropRead.con for property 0x45 (data bb) in one "
        f"TCP segment; the pending read of property 0x45 ended with {outcome!r} "
        f"(answered at once: {answered_at_once}) - its own answer was dropped as 'unexpected' "
        "because the stale one still occupied the pending slot; the property requires the "
        "stale answer to be discarded and the matching answer b'\\xbb' to be returned"
    )
