"""
C32 hunt 5 - the stale answer for ANOTHER ELEMENT of the same property is returned as the answer.

Property clause: "stale answers are discarded" (quantified over servers
"answering late"). NOTE - borderline: the property text spells the matching key
out as "object type, instance and property", which is exactly what
`_same_property()` compares. The answer does however carry `start_index` and
`number_of_elements` too, so this stale answer IS distinguishable from the
awaited one (unlike the retry of the very same request that the docstring of
`request()` documents as a known limitation) - and accepting it returns wrong
data silently instead of failing.

History: read element 0 of an array property (= its current number of
elements) - the server is slow, the read times out. Read element 1. The late
answer for element 0 arrives first and is returned as the value of element 1.

Run: /venv/bin/python -m pytest -q -p no:cacheprovider hunt5.py
"""

from __future__ import annotations

import asyncio
from unittest.mock import Mock, patch

import pytest

from xknx.cemi import CEMIFrame, CEMIMessageCode, CEMIMPropInfo, CEMIMPropReadResponse
from xknx.exceptions import CommunicationError
from xknx.io import UDPDeviceManagementConnection
from xknx.io.const import DEVICE_CONFIGURATION_REQUEST_TIMEOUT
from xknx.knxip import (
    HPAI,
    ConnectRequest,
    ConnectResponse,
    DeviceConfigurationAck,
    DeviceConfigurationRequest,
    DisconnectRequest,
    DisconnectResponse,
    KNXIPFrame,
)
from xknx.profile.const import ResourceKNXNETIPPropertyId, ResourceObjectType

LOCAL_ADDR = ("192.168.1.1", 12345)
REMOTE_ADDR = ("192.168.1.2", 3671)
CHANNEL = 23
KNXNETIP = ResourceObjectType.OBJECT_KNXNETIP_PARAMETER
DEVICE_STATE = ResourceKNXNETIPPropertyId.PID_KNXNETIP_DEVICE_STATE
PROJECT_ID = ResourceKNXNETIPPropertyId.PID_PROJECT_INSTALLATION_ID


class Clock:
    """Fake the loop clock (same technique as test/conftest.py::time_travel)."""

    def __init__(self) -> None:
        self.loop = asyncio.get_running_loop()
        self.offset = 0.0
        self._base = self.loop.time
        self.loop.time = lambda: self._base() + self.offset  # type: ignore[method-assign]

    async def _exhaust(self) -> None:
        while self.loop._ready:  # type: ignore[attr-defined]
            await asyncio.sleep(0)

    async def __call__(self, seconds: float) -> None:
        await self._exhaust()
        if seconds > 0:
            self.offset += seconds
            await asyncio.sleep(0)
            await self._exhaust()


class Server:
    """
    A spec conforming KNXnet/IP device management server behind a lossy network.

    It keeps the receive counter of KNX 03.08.03 §2.3.2: the expected counter is
    acknowledged and answered, one less is acknowledged and discarded, anything
    else is dropped. `lose_next_request` drops the next client datagram on its
    way to the server.
    """

    def __init__(self, connection: UDPDeviceManagementConnection) -> None:
        self.connection = connection
        self.wire: list[KNXIPFrame] = []  # everything the client sent
        self.accepted: list[int] = []  # counters of the requests the server accepted
        self.rx_expected = 0
        self.tx_counter = 0
        self.lose_next_request = False
        self.hold_answers = False  # a slow server: answers are produced late
        self.held: list[CEMIMPropInfo] = []

    @staticmethod
    def element(index: int) -> bytes:
        """Element 0 is the number of elements (4), the others are addresses."""
        return b"\x00\x04" if index == 0 else bytes((0x11, index))

    def release_answer(self) -> None:
        """The slow server finally answers the oldest request it had accepted."""
        self._later(self.read_con(self.held.pop(0)))

    def send(self, knxipframe: KNXIPFrame, addr: object = None) -> None:
        """Stand-in for UDPTransport.send()."""
        self.wire.append(knxipframe)
        body = knxipframe.body
        if isinstance(body, DisconnectRequest):
            self._later(DisconnectResponse(communication_channel_id=CHANNEL))
        if not isinstance(body, DeviceConfigurationRequest):
            return
        if self.lose_next_request:
            self.lose_next_request = False
            return
        if body.sequence_counter == self.rx_expected:
            self.rx_expected = self.rx_expected + 1 & 0xFF
            self.accepted.append(body.sequence_counter)
            self._later(self.ack(body.sequence_counter))
            info = CEMIFrame.from_knx(body.raw_cemi).data.property_info
            if self.hold_answers:
                self.held.append(info)
            else:
                self._later(self.read_con(info))
        elif body.sequence_counter == self.rx_expected - 1 & 0xFF:
            self._later(self.ack(body.sequence_counter))
        # else: out of order - dropped without an acknowledgement

    def ack(self, counter: int, channel: int = CHANNEL) -> DeviceConfigurationAck:
        return DeviceConfigurationAck(
            communication_channel_id=channel, sequence_counter=counter
        )

    def read_con(self, info: CEMIMPropInfo) -> DeviceConfigurationRequest:
        raw_cemi = CEMIFrame(
            code=CEMIMessageCode.M_PROP_READ_CON,
            data=CEMIMPropReadResponse(
                property_info=info, data=self.element(info.start_index)
            ),
        ).to_knx()
        request = DeviceConfigurationRequest(
            communication_channel_id=CHANNEL,
            sequence_counter=self.tx_counter,
            raw_cemi=raw_cemi,
        )
        self.tx_counter = self.tx_counter + 1 & 0xFF
        return request

    def deliver(self, body: object) -> None:
        self.connection.transport.handle_knxipframe(
            KNXIPFrame.init_from_body(body), HPAI(*REMOTE_ADDR)
        )

    def _later(self, body: object) -> None:
        asyncio.get_running_loop().call_soon(self.deliver, body)

    def requests(self) -> list[int]:
        return [
            frame.body.sequence_counter
            for frame in self.wire
            if isinstance(frame.body, DeviceConfigurationRequest)
        ]


@pytest.fixture
def patched_transport():
    with (
        patch("xknx.io.transport.udp_transport.UDPTransport.connect"),
        patch(
            "xknx.io.transport.udp_transport.UDPTransport.getsockname",
            return_value=LOCAL_ADDR,
        ),
        patch("xknx.io.transport.udp_transport.UDPTransport.stop"),
    ):
        yield


async def _setup(clock: Clock) -> tuple[UDPDeviceManagementConnection, Server]:
    connection = UDPDeviceManagementConnection(
        gateway_ip=REMOTE_ADDR[0],
        gateway_port=REMOTE_ADDR[1],
        local_ip=LOCAL_ADDR[0],
        local_port=LOCAL_ADDR[1],
        indication_callback=Mock(),
    )
    server = Server(connection)
    patcher = patch("xknx.io.transport.udp_transport.UDPTransport.send", server.send)
    patcher.start()
    task = asyncio.create_task(connection.connect())
    await clock(0)
    assert isinstance(server.wire[-1].body, ConnectRequest)
    server.deliver(ConnectResponse(communication_channel=CHANNEL))
    await task
    server.patcher = patcher  # type: ignore[attr-defined]
    return connection, server


async def _teardown(connection: UDPDeviceManagementConnection, server: Server) -> None:
    connection._stop()
    server.patcher.stop()  # type: ignore[attr-defined]


async def test_late_answer_for_element_0_is_not_the_value_of_element_1(
    patched_transport: None,
) -> None:
    """Array properties are read element by element - index 0 is the element count."""
    clock = Clock()
    connection, server = await _setup(clock)
    pid = ResourceKNXNETIPPropertyId.PID_ADDITIONAL_INDIVIDUAL_ADDRESSES
    try:
        # element 0 (number of elements) - acknowledged, answered too late
        server.hold_answers = True
        task = asyncio.create_task(
            connection.read_property(KNXNETIP, pid, start_index=0)
        )
        await clock(0)
        await clock(DEVICE_CONFIGURATION_REQUEST_TIMEOUT)
        with pytest.raises(CommunicationError, match="No answer"):
            await task

        # element 1 - the server is still busy; first the late answer for
        # element 0 shows up, then the one for element 1
        task = asyncio.create_task(
            connection.read_property(KNXNETIP, pid, start_index=1)
        )
        await clock(0)
        assert server.accepted == [0, 1]
        server.release_answer()  # start_index=0
        await clock(0)  # (separate datagrams, separate loop iterations)
        server.release_answer()  # start_index=1
        await clock(0)
        value = await task
        assert value == server.element(1), (
            "observed: read_property(PID_ADDITIONAL_INDIVIDUAL_ADDRESSES, "
            f"start_index=1) returned {value.hex()} - that is the late "
            "M_PropRead.con for start_index=0 (the element count 0x0004) of the "
            f"earlier, timed out read; element 1 is {server.element(1).hex()} and "
            "its answer arrived right behind. The property requires stale "
            "answers to be discarded; this one names start_index=0 and is "
            "distinguishable from the awaited start_index=1."
        )
    finally:
        await _teardown(connection, server)
