"""
C32 hunt 1: a DeviceConfigurationAck that does not belong to the outstanding
request (other sequence counter / other communication channel) is taken as its
acknowledgement.

Property clause: "over UDP an unacknowledged request is repeated at most three
times with the same counter, and the counter advances once per accepted
request" - quantified over servers "dropping or duplicating acknowledgements".
"""

import asyncio
from unittest.mock import Mock, patch

import pytest

from test.conftest import EventLoopClockAdvancer
from xknx.cemi import (
    CEMIFrame,
    CEMIMessageCode,
    CEMIMPropInfo,
    CEMIMPropReadResponse,
)
from xknx.exceptions import CommunicationError
from xknx.io import UDPDeviceManagementConnection
from xknx.io.const import DEVICE_CONFIGURATION_REQUEST_TIMEOUT
from xknx.knxip import (
    HPAI,
    ConnectResponse,
    DeviceConfigurationAck,
    DeviceConfigurationRequest,
    KNXIPFrame,
)
from xknx.profile.const import ResourceKNXNETIPPropertyId, ResourceObjectType

LOCAL_ADDR = ("192.168.1.1", 12345)
REMOTE_ADDR = ("192.168.1.2", 3671)
CHANNEL = 23
PARAM = ResourceObjectType.OBJECT_KNXNETIP_PARAMETER
PROP_A = ResourceKNXNETIPPropertyId.PID_KNXNETIP_DEVICE_STATE
PROP_B = ResourceKNXNETIPPropertyId.PID_FRIENDLY_NAME


@pytest.fixture
async def time_travel() -> EventLoopClockAdvancer:
    """Advance loop time and run callbacks."""
    return EventLoopClockAdvancer(asyncio.get_running_loop())


def prop_read_con(data: bytes, property_id: int) -> bytes:
    """Return a M_PropRead.con of the KNXnet/IP parameter object."""
    return CEMIFrame(
        code=CEMIMessageCode.M_PROP_READ_CON,
        data=CEMIMPropReadResponse(
            property_info=CEMIMPropInfo(object_type=PARAM, property_id=property_id),
            data=data,
        ),
    ).to_knx()


class Harness:
    """A UDP device management connection with the socket mocked away."""

    def __init__(self) -> None:
        self.connection = UDPDeviceManagementConnection(
            gateway_ip=REMOTE_ADDR[0],
            gateway_port=REMOTE_ADDR[1],
            local_ip=LOCAL_ADDR[0],
            local_port=LOCAL_ADDR[1],
        )

    def deliver(self, body) -> None:
        self.connection.transport.handle_knxipframe(
            KNXIPFrame.init_from_body(body), HPAI(*REMOTE_ADDR)
        )

    async def connect(self, time_travel: EventLoopClockAdvancer) -> None:
        with (
            patch("xknx.io.transport.udp_transport.UDPTransport.connect"),
            patch(
                "xknx.io.transport.udp_transport.UDPTransport.getsockname",
                return_value=LOCAL_ADDR,
            ),
        ):
            task = asyncio.create_task(self.connection.connect())
            await time_travel(0)
            self.deliver(
                ConnectResponse(communication_channel=CHANNEL, data_endpoint=HPAI())
            )
            await task

    def ack(self, sequence_counter: int, channel: int = CHANNEL) -> None:
        self.deliver(
            DeviceConfigurationAck(
                communication_channel_id=channel, sequence_counter=sequence_counter
            )
        )

    def server_sends(self, raw_cemi: bytes, sequence_counter: int) -> None:
        self.deliver(
            DeviceConfigurationRequest(
                communication_channel_id=CHANNEL,
                sequence_counter=sequence_counter,
                raw_cemi=raw_cemi,
            )
        )


def sent_requests(send_mock: Mock) -> list[DeviceConfigurationRequest]:
    return [
        call.args[0].body
        for call in send_mock.call_args_list
        if isinstance(call.args[0].body, DeviceConfigurationRequest)
    ]


@patch("xknx.io.transport.udp_transport.UDPTransport.stop")
@patch("xknx.io.transport.udp_transport.UDPTransport.send")
async def test_duplicated_ack_of_previous_request_acknowledges_next_one(
    send_mock: Mock, _stop_mock: Mock, time_travel: EventLoopClockAdvancer
) -> None:
    """
    History (every step is legal for a server / a lossy network):
      1. read A is sent with counter 0; the server's ack is slow, so after
         10 s the client repeats it with counter 0.
      2. the ack of the first transmission arrives; the answer arrives -> done.
      3. read B is sent with counter 1; the datagram is LOST on the way.
      4. the server's ack of the *repetition* from step 1 arrives: counter 0 -
         the duplicate of an acknowledgement the client already consumed.
    The request with counter 1 was never acknowledged, so it has to be
    repeated with counter 1 and the outgoing counter has to stay at 1.
    """
    harness = Harness()
    connection = harness.connection
    await harness.connect(time_travel)
    send_mock.reset_mock()

    # 1.
    task_a = asyncio.create_task(connection.read_property(PARAM, PROP_A))
    await time_travel(DEVICE_CONFIGURATION_REQUEST_TIMEOUT)
    assert [r.sequence_counter for r in sent_requests(send_mock)] == [0, 0]
    # 2.
    harness.ack(0)
    harness.server_sends(prop_read_con(b"\x01", PROP_A), sequence_counter=0)
    await time_travel(0)
    assert await task_a == b"\x01"
    assert connection.sequence_number == 1
    send_mock.reset_mock()

    # 3. - sent, but the server never sees it
    task_b = asyncio.create_task(connection.read_property(PARAM, PROP_B))
    await time_travel(0)
    assert [r.sequence_counter for r in sent_requests(send_mock)] == [1]
    # 4. the duplicated acknowledgement of counter 0
    harness.ack(0)
    await time_travel(0)

    counter_after_stale_ack = connection.sequence_number
    # give the client the chance to repeat the unacknowledged request
    await time_travel(DEVICE_CONFIGURATION_REQUEST_TIMEOUT)
    repetitions = [r.sequence_counter for r in sent_requests(send_mock)][1:]

    outcome: object
    if task_b.done():
        outcome = task_b.exception()
    else:
        outcome = "still waiting"
        task_b.cancel()

    assert counter_after_stale_ack == 1 and repetitions == [1], (
        "A DeviceConfigurationAck with sequence_counter=0 (duplicate of the ack of "
        "the previous request) arrived while the request with sequence_counter=1 "
        "waited for its acknowledgement. Observed: outgoing counter advanced to "
        f"{counter_after_stale_ack}, repetitions sent within the next 10 s: "
        f"{repetitions}, request outcome: {outcome!r}. The property requires an "
        "unacknowledged request to be repeated with the same counter (1) and the "
        "counter to advance only once the request was accepted - the server never "
        "received counter 1, so client (2) and server (1) are now out of step."
    )


@patch("xknx.io.transport.udp_transport.UDPTransport.stop")
@patch("xknx.io.transport.udp_transport.UDPTransport.send")
async def test_ack_for_other_channel_acknowledges_request(
    send_mock: Mock, _stop_mock: Mock, time_travel: EventLoopClockAdvancer
) -> None:
    """An ack addressed to another communication channel is not ours either."""
    harness = Harness()
    connection = harness.connection
    await harness.connect(time_travel)
    send_mock.reset_mock()

    task = asyncio.create_task(connection.read_property(PARAM, PROP_A))
    await time_travel(0)
    harness.ack(0, channel=CHANNEL + 1)
    await time_travel(0)
    counter = connection.sequence_number
    task.cancel()
    with pytest.raises((asyncio.CancelledError, CommunicationError)):
        await task

    assert counter == 0, (
        f"A DeviceConfigurationAck for communication channel {CHANNEL + 1} was taken "
        f"as the acknowledgement of a request on channel {CHANNEL}: outgoing counter "
        f"advanced to {counter}. The property requires the counter to advance once "
        "per request the server accepted; this request is still unacknowledged."
    )
