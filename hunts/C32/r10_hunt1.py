"""
C32 hunt 1: a DeviceConfigurationAck that does not acknowledge the outstanding
request (other sequence counter / other communication channel) is taken as its
acknowledgement.

History (UDP):
  1. request #1 (counter 0) is sent, acknowledged (ack counter 0) and answered.
  2. request #2 (counter 1) is sent - the datagram is lost, the server never sees it.
  3. a duplicate of the acknowledgement of request #1 (counter 0) arrives
     (a server acknowledges every repetition / a delayed datagram shows up).

Property: "over UDP an unacknowledged request is repeated at most three times
with the same counter, and the counter advances once per accepted request".
Request #2 has not been acknowledged by anybody, so it has to be repeated with
counter 1 after DEVICE_CONFIGURATION_REQUEST_TIMEOUT, and the counter must stay
at 1 until it is.
"""

from __future__ import annotations

import asyncio
from unittest.mock import Mock, patch

import pytest

from xknx.cemi import CEMIFrame, CEMIMessageCode, CEMIMPropInfo, CEMIMPropReadResponse
from xknx.io import UDPDeviceManagementConnection
from xknx.io.const import DEVICE_CONFIGURATION_REQUEST_TIMEOUT
from xknx.knxip import (
    HPAI,
    ConnectResponse,
    DeviceConfigurationAck,
    DeviceConfigurationRequest,
    KNXIPFrame,
)
from xknx.profile.const import ResourceObjectType

LOCAL_ADDR = ("192.168.1.1", 12345)
REMOTE_ADDR = ("192.168.1.2", 3671)
CHANNEL = 23
OBJ = ResourceObjectType.OBJECT_KNXNETIP_PARAMETER
PID_A = 0x45
PID_B = 0x34


class Clock:
    """Advance the loop time (same technique as test/conftest.py)."""

    def __init__(self) -> None:
        self.loop = asyncio.get_running_loop()
        self.offset = 0.0
        self._base = self.loop.time
        self.loop.time = lambda: self._base() + self.offset  # type: ignore[method-assign]

    async def _exhaust(self) -> None:
        while self.loop._ready:  # type: ignore[attr-defined]
            await asyncio.sleep(0)

    async def __call__(self, seconds: float) -> None:
        await self._exhaust()
        if seconds > 0:
            self.offset += seconds
            await asyncio.sleep(0)
            await self._exhaust()


def read_con(property_id: int, data: bytes) -> bytes:
    return CEMIFrame(
        code=CEMIMessageCode.M_PROP_READ_CON,
        data=CEMIMPropReadResponse(
            property_info=CEMIMPropInfo(object_type=OBJ, property_id=property_id),
            data=data,
        ),
    ).to_knx()


def deliver(connection: UDPDeviceManagementConnection, body: object) -> None:
    connection.transport.handle_knxipframe(
        KNXIPFrame.init_from_body(body), HPAI(*REMOTE_ADDR)
    )


async def connect(connection: UDPDeviceManagementConnection, clock: Clock) -> None:
    with (
        patch("xknx.io.transport.udp_transport.UDPTransport.connect"),
        patch(
            "xknx.io.transport.udp_transport.UDPTransport.getsockname",
            return_value=LOCAL_ADDR,
        ),
    ):
        task = asyncio.create_task(connection.connect())
        await clock(0)
        deliver(connection, ConnectResponse(communication_channel=CHANNEL))
        await task


def sent_requests(send_mock: Mock) -> list[DeviceConfigurationRequest]:
    return [
        call.args[0].body
        for call in send_mock.call_args_list
        if isinstance(call.args[0].body, DeviceConfigurationRequest)
    ]


async def _run(foreign_ack: DeviceConfigurationAck, what: str) -> None:
    clock = Clock()
    connection = UDPDeviceManagementConnection(
        gateway_ip=REMOTE_ADDR[0],
        gateway_port=REMOTE_ADDR[1],
        local_ip=LOCAL_ADDR[0],
        local_port=LOCAL_ADDR[1],
    )
    with (
        patch("xknx.io.transport.udp_transport.UDPTransport.send") as send_mock,
        patch("xknx.io.transport.udp_transport.UDPTransport.stop"),
    ):
        await connect(connection, clock)
        send_mock.reset_mock()

        # request #1: counter 0, acknowledged and answered
        task1 = asyncio.create_task(connection.read_property(OBJ, PID_A))
        await clock(0)
        deliver(
            connection,
            DeviceConfigurationAck(communication_channel_id=CHANNEL, sequence_counter=0),
        )
        deliver(
            connection,
            DeviceConfigurationRequest(
                communication_channel_id=CHANNEL,
                sequence_counter=0,
                raw_cemi=read_con(PID_A, b"\x01"),
            ),
        )
        await clock(0)
        assert await task1 == b"\x01"
        assert connection.sequence_number == 1

        # request #2: counter 1 - the datagram is lost, nobody acknowledges it
        send_mock.reset_mock()
        task2 = asyncio.create_task(connection.read_property(OBJ, PID_B))
        await clock(0)
        assert [r.sequence_counter for r in sent_requests(send_mock)] == [1]

        # an acknowledgement that is not the one of request #2 arrives
        deliver(connection, foreign_ack)
        await clock(0)
        counter_after_foreign_ack = connection.sequence_number

        # the acknowledgement timeout of request #2 passes
        await clock(DEVICE_CONFIGURATION_REQUEST_TIMEOUT)
        counters = [r.sequence_counter for r in sent_requests(send_mock)]

        # clean up
        task2.cancel()
        with pytest.raises((asyncio.CancelledError, Exception)):
            await task2

    assert counter_after_foreign_ack == 1 and counters == [1, 1], (
        f"observed: after {what} the unacknowledged request #2 (counter 1) was taken as "
        f"acknowledged - sequence_number advanced to {counter_after_foreign_ack} and the "
        f"DeviceConfigurationRequests sent for it within "
        f"{DEVICE_CONFIGURATION_REQUEST_TIMEOUT} s have counters {counters}; "
        "the property requires an unacknowledged request to be repeated with the same "
        "counter (expected counters [1, 1]) and the counter to advance only once the "
        "request was accepted (expected sequence_number 1)"
    )


async def test_duplicate_ack_of_previous_request() -> None:
    """A duplicated acknowledgement of request #1 does not acknowledge request #2."""
    await _run(
        DeviceConfigurationAck(communication_channel_id=CHANNEL, sequence_counter=0),
        "a duplicate DeviceConfigurationAck with counter 0 (the one of request #1)",
    )


async def test_ack_for_foreign_channel() -> None:
    """An acknowledgement for another communication channel does not acknowledge request #2."""
    await _run(
        DeviceConfigurationAck(
            communication_channel_id=CHANNEL + 1, sequence_counter=1
        ),
        f"a DeviceConfigurationAck for communication channel {CHANNEL + 1}",
    )
