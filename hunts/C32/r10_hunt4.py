"""
C32 hunt 4: a request that is cancelled while its acknowledgement is awaited
has been sent - and accepted by the server - but does not advance the counter.
The next request reuses the counter, which a conforming server takes for a
repetition: it acknowledges and discards it, so that request is never answered.

History (UDP, server follows KNX 03.08.03 §2.3.2 / 03.08.04 §2.6.1):
  1. read of property A is sent with counter 0; the server receives it,
     accepts it (its expected counter is 1 now) and sends ack + answer.
  2. before the acknowledgement reaches the client the caller gives up
     (`asyncio.timeout` / `wait_for` shorter than the round trip, or - with a
     lost acknowledgement - anything shorter than the 10 s repetition timeout).
  3. ack(0) and M_PropRead.con(A) arrive; nobody waits for them.
  4. read of property B is issued.

Property: "the counter advances once per accepted request". Request #1 was
accepted with counter 0, so request #2 has to go out with counter 1.
"""

from __future__ import annotations

import asyncio
from unittest.mock import Mock, patch

import pytest

from xknx.cemi import CEMIFrame, CEMIMessageCode, CEMIMPropInfo, CEMIMPropReadResponse
from xknx.exceptions import CommunicationError
from xknx.io import UDPDeviceManagementConnection
from xknx.io.const import DEVICE_CONFIGURATION_REQUEST_TIMEOUT
from xknx.knxip import (
    HPAI,
    ConnectResponse,
    DeviceConfigurationAck,
    DeviceConfigurationRequest,
    KNXIPFrame,
)
from xknx.profile.const import ResourceObjectType

LOCAL_ADDR = ("192.168.1.1", 12345)
REMOTE_ADDR = ("192.168.1.2", 3671)
CHANNEL = 23
OBJ = ResourceObjectType.OBJECT_KNXNETIP_PARAMETER
PID_A = 0x34
PID_B = 0x45


class Clock:
    """Advance the loop time (same technique as test/conftest.py)."""

    def __init__(self) -> None:
        self.loop = asyncio.get_running_loop()
        self.offset = 0.0
        self._base = self.loop.time
        self.loop.time = lambda: self._base() + self.offset  # type: ignore[method-assign]

    async def _exhaust(self) -> None:
        while self.loop._ready:  # type: ignore[attr-defined]
            await asyncio.sleep(0)

    async def __call__(self, seconds: float) -> None:
        await self._exhaust()
        if seconds > 0:
            self.offset += seconds
            await asyncio.sleep(0)
            await self._exhaust()


def read_con(property_id: int, data: bytes) -> bytes:
    return CEMIFrame(
        code=CEMIMessageCode.M_PROP_READ_CON,
        data=CEMIMPropReadResponse(
            property_info=CEMIMPropInfo(object_type=OBJ, property_id=property_id),
            data=data,
        ),
    ).to_knx()


def deliver(connection: UDPDeviceManagementConnection, body: object) -> None:
    connection.transport.handle_knxipframe(
        KNXIPFrame.init_from_body(body), HPAI(*REMOTE_ADDR)
    )


def sent_requests(send_mock: Mock) -> list[DeviceConfigurationRequest]:
    return [
        call.args[0].body
        for call in send_mock.call_args_list
        if isinstance(call.args[0].body, DeviceConfigurationRequest)
    ]


async def test_cancelled_but_accepted_request_consumes_its_counter() -> None:
    """The request after one cancelled in its acknowledgement wait uses the next counter."""
    clock = Clock()
    connection = UDPDeviceManagementConnection(
        gateway_ip=REMOTE_ADDR[0],
        gateway_port=REMOTE_ADDR[1],
        local_ip=LOCAL_ADDR[0],
        local_port=LOCAL_ADDR[1],
    )
    with (
        patch("xknx.io.transport.udp_transport.UDPTransport.send") as send_mock,
        patch("xknx.io.transport.udp_transport.UDPTransport.stop"),
        patch("xknx.io.transport.udp_transport.UDPTransport.connect"),
        patch(
            "xknx.io.transport.udp_transport.UDPTransport.getsockname",
            return_value=LOCAL_ADDR,
        ),
    ):
        task = asyncio.create_task(connection.connect())
        await clock(0)
        deliver(connection, ConnectResponse(communication_channel=CHANNEL))
        await task
        send_mock.reset_mock()

        # request #1 goes out with counter 0 and is accepted by the server ...
        task1 = asyncio.create_task(connection.read_property(OBJ, PID_A))
        await clock(0)
        assert [r.sequence_counter for r in sent_requests(send_mock)] == [0]
        server_expects = 1
        # ... but the caller gives up before the acknowledgement is in
        task1.cancel()
        with pytest.raises(asyncio.CancelledError):
            await task1
        # acknowledgement and answer of the server arrive, nobody waits for them
        deliver(
            connection,
            DeviceConfigurationAck(communication_channel_id=CHANNEL, sequence_counter=0),
        )
        deliver(
            connection,
            DeviceConfigurationRequest(
                communication_channel_id=CHANNEL,
                sequence_counter=0,
                raw_cemi=read_con(PID_A, b"\xaa"),
            ),
        )
        await clock(0)

        # request #2
        send_mock.reset_mock()
        task2 = asyncio.create_task(connection.read_property(OBJ, PID_B))
        await clock(0)
        counters = [r.sequence_counter for r in sent_requests(send_mock)]

        # what a conforming server does with it: counter == expected - 1 is a
        # repetition - acknowledged again and discarded; expected is processed
        outcome: object = None
        if counters == [server_expects - 1]:
            deliver(
                connection,
                DeviceConfigurationAck(
                    communication_channel_id=CHANNEL, sequence_counter=counters[0]
                ),
            )
            await clock(DEVICE_CONFIGURATION_REQUEST_TIMEOUT)
            try:
                outcome = task2.result()
            except CommunicationError as err:
                outcome = err
        else:
            task2.cancel()
            with pytest.raises(asyncio.CancelledError):
                await task2

    assert counters == [server_expects], (
        "observed: the read of property 0x34 was sent with counter 0 and accepted by the "
        "server, then cancelled while its acknowledgement was awaited; the following read of "
        f"property 0x45 was sent with counter(s) {counters} - the server, expecting "
        f"{server_expects}, acknowledges and discards that as a repetition and the read ended "
        f"with {outcome!r}; the property requires the counter to advance once per accepted "
        f"request (expected counter [{server_expects}])"
    )
