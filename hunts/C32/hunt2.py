"""
C32 hunt 2 - a duplicated / foreign DeviceConfigurationAck acknowledges the wrong request.

Property clauses: "over UDP an unacknowledged request is repeated at most three
times with the same counter, and the counter advances once per accepted request"
- quantified over servers "dropping or duplicating acknowledgements".

`DeviceConfiguration` inherits `RequestResponse._response_rec_callback()`, which
accepts ANY DeviceConfigurationAck: neither `sequence_counter` nor
`communication_channel_id` of the acknowledgement is compared with the request
that is waiting. A duplicate of the acknowledgement of request n (or an
acknowledgement for another channel) that arrives while request n+1 is waiting
therefore "acknowledges" request n+1 although the server never received it:
the counter advances, the lost datagram is never repeated and client and
server are out of step from then on.

Run: /venv/bin/python -m pytest -q -p no:cacheprovider hunt2.py
"""

from __future__ import annotations

import asyncio
from unittest.mock import Mock, patch

import pytest

from xknx.cemi import CEMIFrame, CEMIMessageCode, CEMIMPropInfo, CEMIMPropReadResponse
from xknx.exceptions import CommunicationError
from xknx.io import UDPDeviceManagementConnection
from xknx.io.const import DEVICE_CONFIGURATION_REQUEST_TIMEOUT
from xknx.knxip import (
    HPAI,
    ConnectRequest,
    ConnectResponse,
    DeviceConfigurationAck,
    DeviceConfigurationRequest,
    DisconnectRequest,
    DisconnectResponse,
    KNXIPFrame,
)
from xknx.profile.const import ResourceKNXNETIPPropertyId, ResourceObjectType

LOCAL_ADDR = ("192.168.1.1", 12345)
REMOTE_ADDR = ("192.168.1.2", 3671)
CHANNEL = 23
KNXNETIP = ResourceObjectType.OBJECT_KNXNETIP_PARAMETER
DEVICE_STATE = ResourceKNXNETIPPropertyId.PID_KNXNETIP_DEVICE_STATE
PROJECT_ID = ResourceKNXNETIPPropertyId.PID_PROJECT_INSTALLATION_ID


class Clock:
    """Fake the loop clock (same technique as test/conftest.py::time_travel)."""

    def __init__(self) -> None:
        self.loop = asyncio.get_running_loop()
        self.offset = 0.0
        self._base = self.loop.time
        self.loop.time = lambda: self._base() + self.offset  # type: ignore[method-assign]

    async def _exhaust(self) -> None:
        while self.loop._ready:  # type: ignore[attr-defined]
            await asyncio.sleep(0)

    async def __call__(self, seconds: float) -> None:
        await self._exhaust()
        if seconds > 0:
            self.offset += seconds
            await asyncio.sleep(0)
            await self._exhaust()


class Server:
    """
    A spec conforming KNXnet/IP device management server behind a lossy network.

    It keeps the receive counter of KNX 03.08.03 §2.3.2: the expected counter is
    acknowledged and answered, one less is acknowledged and discarded, anything
    else is dropped. `lose_next_request` drops the next client datagram on its
    way to the server.
    """

    def __init__(self, connection: UDPDeviceManagementConnection) -> None:
        self.connection = connection
        self.wire: list[KNXIPFrame] = []  # everything the client sent
        self.accepted: list[int] = []  # counters of the requests the server accepted
        self.rx_expected = 0
        self.tx_counter = 0
        self.lose_next_request = False

    def send(self, knxipframe: KNXIPFrame, addr: object = None) -> None:
        """Stand-in for UDPTransport.send()."""
        self.wire.append(knxipframe)
        body = knxipframe.body
        if isinstance(body, DisconnectRequest):
            self._later(DisconnectResponse(communication_channel_id=CHANNEL))
        if not isinstance(body, DeviceConfigurationRequest):
            return
        if self.lose_next_request:
            self.lose_next_request = False
            return
        if body.sequence_counter == self.rx_expected:
            self.rx_expected = self.rx_expected + 1 & 0xFF
            self.accepted.append(body.sequence_counter)
            self._later(self.ack(body.sequence_counter))
            request = CEMIFrame.from_knx(body.raw_cemi)
            self._later(self.read_con(request.data.property_info.property_id))
        elif body.sequence_counter == self.rx_expected - 1 & 0xFF:
            self._later(self.ack(body.sequence_counter))
        # else: out of order - dropped without an acknowledgement

    def ack(self, counter: int, channel: int = CHANNEL) -> DeviceConfigurationAck:
        return DeviceConfigurationAck(
            communication_channel_id=channel, sequence_counter=counter
        )

    def read_con(self, property_id: int) -> DeviceConfigurationRequest:
        raw_cemi = CEMIFrame(
            code=CEMIMessageCode.M_PROP_READ_CON,
            data=CEMIMPropReadResponse(
                property_info=CEMIMPropInfo(
                    object_type=KNXNETIP, property_id=property_id
                ),
                data=bytes((property_id,)),
            ),
        ).to_knx()
        request = DeviceConfigurationRequest(
            communication_channel_id=CHANNEL,
            sequence_counter=self.tx_counter,
            raw_cemi=raw_cemi,
        )
        self.tx_counter = self.tx_counter + 1 & 0xFF
        return request

    def deliver(self, body: object) -> None:
        self.connection.transport.handle_knxipframe(
            KNXIPFrame.init_from_body(body), HPAI(*REMOTE_ADDR)
        )

    def _later(self, body: object) -> None:
        asyncio.get_running_loop().call_soon(self.deliver, body)

    def requests(self) -> list[int]:
        return [
            frame.body.sequence_counter
            for frame in self.wire
            if isinstance(frame.body, DeviceConfigurationRequest)
        ]


@pytest.fixture
def patched_transport():
    with (
        patch("xknx.io.transport.udp_transport.UDPTransport.connect"),
        patch(
            "xknx.io.transport.udp_transport.UDPTransport.getsockname",
            return_value=LOCAL_ADDR,
        ),
        patch("xknx.io.transport.udp_transport.UDPTransport.stop"),
    ):
        yield


async def _setup(clock: Clock) -> tuple[UDPDeviceManagementConnection, Server]:
    connection = UDPDeviceManagementConnection(
        gateway_ip=REMOTE_ADDR[0],
        gateway_port=REMOTE_ADDR[1],
        local_ip=LOCAL_ADDR[0],
        local_port=LOCAL_ADDR[1],
        indication_callback=Mock(),
    )
    server = Server(connection)
    patcher = patch("xknx.io.transport.udp_transport.UDPTransport.send", server.send)
    patcher.start()
    task = asyncio.create_task(connection.connect())
    await clock(0)
    assert isinstance(server.wire[-1].body, ConnectRequest)
    server.deliver(ConnectResponse(communication_channel=CHANNEL))
    await task
    server.patcher = patcher  # type: ignore[attr-defined]
    return connection, server


async def _teardown(connection: UDPDeviceManagementConnection, server: Server) -> None:
    connection._stop()
    server.patcher.stop()  # type: ignore[attr-defined]


@pytest.mark.parametrize(
    ("stray_counter", "stray_channel", "what"),
    [
        (0, CHANNEL, "a duplicate of the acknowledgement of the previous request"),
        (1, CHANNEL + 1, "an acknowledgement addressed to another channel"),
    ],
)
async def test_stray_ack_does_not_acknowledge_the_waiting_request(
    patched_transport: None, stray_counter: int, stray_channel: int, what: str
) -> None:
    """A stray acknowledgement must not stand in for the one that was lost."""
    clock = Clock()
    connection, server = await _setup(clock)
    try:
        # request #0 - everything fine
        assert await connection.read_property(KNXNETIP, DEVICE_STATE) == bytes(
            (DEVICE_STATE.value,)
        )
        assert connection.sequence_number == 1
        assert server.accepted == [0]

        # request #1 is lost on its way to the server ...
        server.lose_next_request = True
        task = asyncio.create_task(connection.read_property(KNXNETIP, PROJECT_ID))
        await clock(0)
        assert server.requests() == [0, 1]
        # ... and the network delivers a stray acknowledgement meanwhile
        server.deliver(server.ack(stray_counter, stray_channel))
        await clock(0)

        counter_after_stray_ack = connection.sequence_number
        # the acknowledgement timeout passes: the request has to be repeated
        await clock(DEVICE_CONFIGURATION_REQUEST_TIMEOUT)
        await clock(0)
        wire_after_timeout = server.requests()
        outcome: object
        try:
            # generous: let a conforming client finish
            for _ in range(3):
                if task.done():
                    break
                await clock(DEVICE_CONFIGURATION_REQUEST_TIMEOUT)
            outcome = task.result() if task.done() else "still pending"
        except CommunicationError as err:
            outcome = err

        assert (
            counter_after_stray_ack == 1
            and wire_after_timeout == [0, 1, 1]
            and server.accepted == [0, 1]
            and outcome == bytes((PROJECT_ID.value,))
        ), (
            f"observed: {what} (channel {stray_channel}, counter {stray_counter}) "
            "was taken for the acknowledgement of the waiting request (channel "
            f"{CHANNEL}, counter 1) that the server never received: the client's "
            f"counter jumped to {counter_after_stray_ack} at once, the counters on "
            f"the wire after the acknowledgement timeout are {wire_after_timeout} "
            f"(no repetition of 1), the server accepted {server.accepted}, and "
            f"read_property() ended with {outcome!r}; the client now sends "
            f"counter {connection.sequence_number} while the server expects "
            f"{server.rx_expected}. The property requires an unacknowledged "
            "request to be repeated with the same counter and the counter to "
            "advance once per accepted request - duplicated acknowledgements "
            "included."
        )
    finally:
        await _teardown(connection, server)
