"""
C32 hunt 2: a stale answer (late answer to an earlier, timed out request for
ANOTHER property) that arrives while the acknowledgement of the current request
is awaited is taken as proof that the server accepted the current request.

History (UDP):
  1. read of property A: sent with counter 0, acknowledged, but the server is
     slow - no answer within 10 s -> CommunicationError. Counter is now 1.
  2. read of property B: sent with counter 1 - the datagram is lost, the server
     never sees it and never acknowledges it.
  3. 2 s later the server finally answers request #1: M_PropRead.con for A.
  4. the 10 s acknowledgement timeout of request #2 passes.

Property: "stale answers are discarded", "over UDP an unacknowledged request is
repeated at most three times with the same counter, and the counter advances
once per accepted request". Request #2 was neither acknowledged nor answered,
so it has to be repeated with counter 1, and the counter must not advance.
"""

from __future__ import annotations

import asyncio
from unittest.mock import Mock, patch

import pytest

from xknx.cemi import CEMIFrame, CEMIMessageCode, CEMIMPropInfo, CEMIMPropReadResponse
from xknx.exceptions import CommunicationError
from xknx.io import UDPDeviceManagementConnection
from xknx.io.const import DEVICE_CONFIGURATION_REQUEST_TIMEOUT
from xknx.knxip import (
    HPAI,
    ConnectResponse,
    DeviceConfigurationAck,
    DeviceConfigurationRequest,
    KNXIPFrame,
)
from xknx.profile.const import ResourceObjectType

LOCAL_ADDR = ("192.168.1.1", 12345)
REMOTE_ADDR = ("192.168.1.2", 3671)
CHANNEL = 23
OBJ = ResourceObjectType.OBJECT_KNXNETIP_PARAMETER
PID_A = 0x34
PID_B = 0x45


class Clock:
    """Advance the loop time (same technique as test/conftest.py)."""

    def __init__(self) -> None:
        self.loop = asyncio.get_running_loop()
        self.offset = 0.0
        self._base = self.loop.time
        self.loop.time = lambda: self._base() + self.offset  # type: ignore[method-assign]

    async def _exhaust(self) -> None:
        while self.loop._ready:  # type: ignore[attr-defined]
            await asyncio.sleep(0)

    async def __call__(self, seconds: float) -> None:
        await self._exhaust()
        if seconds > 0:
            self.offset += seconds
            await asyncio.sleep(0)
            await self._exhaust()


def read_con(property_id: int, data: bytes) -> bytes:
    return CEMIFrame(
        code=CEMIMessageCode.M_PROP_READ_CON,
        data=CEMIMPropReadResponse(
            property_info=CEMIMPropInfo(object_type=OBJ, property_id=property_id),
            data=data,
        ),
    ).to_knx()


def deliver(connection: UDPDeviceManagementConnection, body: object) -> None:
    connection.transport.handle_knxipframe(
        KNXIPFrame.init_from_body(body), HPAI(*REMOTE_ADDR)
    )


def sent_requests(send_mock: Mock) -> list[DeviceConfigurationRequest]:
    return [
        call.args[0].body
        for call in send_mock.call_args_list
        if isinstance(call.args[0].body, DeviceConfigurationRequest)
    ]


async def test_stale_answer_is_no_acknowledgement() -> None:
    """A stale answer for another property does not stand in for the acknowledgement."""
    clock = Clock()
    connection = UDPDeviceManagementConnection(
        gateway_ip=REMOTE_ADDR[0],
        gateway_port=REMOTE_ADDR[1],
        local_ip=LOCAL_ADDR[0],
        local_port=LOCAL_ADDR[1],
    )
    with (
        patch("xknx.io.transport.udp_transport.UDPTransport.send") as send_mock,
        patch("xknx.io.transport.udp_transport.UDPTransport.stop"),
        patch("xknx.io.transport.udp_transport.UDPTransport.connect"),
        patch(
            "xknx.io.transport.udp_transport.UDPTransport.getsockname",
            return_value=LOCAL_ADDR,
        ),
    ):
        task = asyncio.create_task(connection.connect())
        await clock(0)
        deliver(connection, ConnectResponse(communication_channel=CHANNEL))
        await task

        # request #1 (property A): acknowledged, answer does not come in time
        task1 = asyncio.create_task(connection.read_property(OBJ, PID_A))
        await clock(0)
        deliver(
            connection,
            DeviceConfigurationAck(communication_channel_id=CHANNEL, sequence_counter=0),
        )
        await clock(DEVICE_CONFIGURATION_REQUEST_TIMEOUT)
        with pytest.raises(CommunicationError):
            await task1
        assert connection.sequence_number == 1
        assert connection.communication_channel == CHANNEL

        # request #2 (property B): counter 1, the datagram is lost - no acknowledgement
        send_mock.reset_mock()
        task2 = asyncio.create_task(connection.read_property(OBJ, PID_B))
        await clock(0)
        assert [r.sequence_counter for r in sent_requests(send_mock)] == [1]

        # the late answer to request #1 arrives
        await clock(2)
        deliver(
            connection,
            DeviceConfigurationRequest(
                communication_channel_id=CHANNEL,
                sequence_counter=0,
                raw_cemi=read_con(PID_A, b"\xaa"),
            ),
        )
        await clock(0)

        # the acknowledgement timeout of request #2 passes
        await clock(DEVICE_CONFIGURATION_REQUEST_TIMEOUT - 2)
        counters = [r.sequence_counter for r in sent_requests(send_mock)]
        sequence_number = connection.sequence_number

        task2.cancel()
        with pytest.raises((asyncio.CancelledError, Exception)):
            await task2

    assert sequence_number == 1 and counters == [1, 1], (
        "observed: the late M_PropRead.con for property 0x34 that arrived while the "
        "acknowledgement of the read of property 0x45 (counter 1) was awaited was taken as "
        "proof that the server accepted that request - after the "
        f"{DEVICE_CONFIGURATION_REQUEST_TIMEOUT} s acknowledgement timeout the "
        f"DeviceConfigurationRequests sent for it have counters {counters} and "
        f"sequence_number is {sequence_number}; the property requires the stale answer to be "
        "discarded, the unacknowledged request to be repeated with the same counter "
        "(expected counters [1, 1]) and the counter to advance only for an accepted request "
        "(expected sequence_number 1)"
    )
