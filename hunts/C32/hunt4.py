"""
C32 hunt 4 - discarding a stale answer throws the real answer away with it.

Property clauses: "A property read or write ... returns only an answer of the
matching type for the same object type, instance and property; stale answers
are discarded" - quantified over servers "answering late, twice, for other
properties".

`_cemi_received()` hands a frame to the waiting request by completing the
one-shot future `_pending`; a new future is only installed when the request
task runs again and `matches` rejected the frame. Every frame that arrives in
between finds `_pending.done()` and is dropped as "unexpected". Over TCP a
stale answer and the real answer routinely arrive in ONE segment (the slow
server answers the timed-out request #0 and the current request #1 back to
back) and `TCPTransport.data_received_callback()` dispatches both frames
synchronously - so the stale answer is discarded *and the matching answer is
lost*: the read fails with "No answer" although the server answered it.

Run: /venv/bin/python -m pytest -q -p no:cacheprovider hunt4.py
"""

from __future__ import annotations

import asyncio
from unittest.mock import Mock, patch

import pytest

from xknx.cemi import (
    CEMIFrame,
    CEMIMessageCode,
    CEMIMPropInfo,
    CEMIMPropReadResponse,
    CEMIMPropWriteResponse,
)
from xknx.exceptions import CommunicationError
from xknx.io import TCPDeviceManagementConnection
from xknx.io.const import DEVICE_CONFIGURATION_REQUEST_TIMEOUT
from xknx.knxip import (
    HPAI,
    ConnectResponse,
    DeviceConfigurationRequest,
    HostProtocol,
    KNXIPFrame,
)
from xknx.profile.const import ResourceKNXNETIPPropertyId, ResourceObjectType

REMOTE_ADDR = ("192.168.1.2", 3671)
CHANNEL = 23
KNXNETIP = ResourceObjectType.OBJECT_KNXNETIP_PARAMETER
DEVICE_STATE = ResourceKNXNETIPPropertyId.PID_KNXNETIP_DEVICE_STATE
PROJECT_ID = ResourceKNXNETIPPropertyId.PID_PROJECT_INSTALLATION_ID


class Clock:
    """Fake the loop clock (same technique as test/conftest.py::time_travel)."""

    def __init__(self) -> None:
        self.loop = asyncio.get_running_loop()
        self.offset = 0.0
        self._base = self.loop.time
        self.loop.time = lambda: self._base() + self.offset  # type: ignore[method-assign]

    async def _exhaust(self) -> None:
        while self.loop._ready:  # type: ignore[attr-defined]
            await asyncio.sleep(0)

    async def __call__(self, seconds: float) -> None:
        await self._exhaust()
        if seconds > 0:
            self.offset += seconds
            await asyncio.sleep(0)
            await self._exhaust()


def read_con(property_id: int, data: bytes, counter: int) -> bytes:
    """Return the bytes of a DeviceConfigurationRequest carrying a M_PropRead.con."""
    return KNXIPFrame.init_from_body(
        DeviceConfigurationRequest(
            communication_channel_id=CHANNEL,
            sequence_counter=counter,
            raw_cemi=CEMIFrame(
                code=CEMIMessageCode.M_PROP_READ_CON,
                data=CEMIMPropReadResponse(
                    property_info=CEMIMPropInfo(
                        object_type=KNXNETIP, property_id=property_id
                    ),
                    data=data,
                ),
            ).to_knx(),
        )
    ).to_knx()


def write_con(property_id: int, counter: int) -> bytes:
    """Return the bytes of a DeviceConfigurationRequest carrying a M_PropWrite.con."""
    return KNXIPFrame.init_from_body(
        DeviceConfigurationRequest(
            communication_channel_id=CHANNEL,
            sequence_counter=counter,
            raw_cemi=CEMIFrame(
                code=CEMIMessageCode.M_PROP_WRITE_CON,
                data=CEMIMPropWriteResponse(
                    property_info=CEMIMPropInfo(
                        object_type=KNXNETIP, property_id=property_id
                    ),
                ),
            ).to_knx(),
        )
    ).to_knx()


async def _connect(clock: Clock) -> TCPDeviceManagementConnection:
    connection = TCPDeviceManagementConnection(
        gateway_ip=REMOTE_ADDR[0],
        gateway_port=REMOTE_ADDR[1],
        indication_callback=Mock(),
    )
    with patch("xknx.io.transport.tcp_transport.TCPTransport.connect"):
        task = asyncio.create_task(connection.connect())
        await clock(0)
        connection.transport.handle_knxipframe(
            KNXIPFrame.init_from_body(
                ConnectResponse(
                    communication_channel=CHANNEL,
                    data_endpoint=HPAI(protocol=HostProtocol.IPV4_TCP),
                )
            ),
            HPAI(*REMOTE_ADDR, protocol=HostProtocol.IPV4_TCP),
        )
        await task
    return connection


@patch("xknx.io.transport.tcp_transport.TCPTransport.send")
async def test_stale_and_real_answer_in_one_tcp_segment(send_mock: Mock) -> None:
    """The late answer to request #0 and the answer to request #1 arrive together."""
    clock = Clock()
    connection = await _connect(clock)
    try:
        # request #0: the server is slow, the client gives up after 10 s
        task = asyncio.create_task(connection.read_property(KNXNETIP, DEVICE_STATE))
        await clock(0)
        await clock(DEVICE_CONFIGURATION_REQUEST_TIMEOUT)
        with pytest.raises(CommunicationError, match="No answer"):
            await task
        assert connection.communication_channel == CHANNEL

        # request #1 for another property
        task = asyncio.create_task(connection.read_property(KNXNETIP, PROJECT_ID))
        await clock(0)
        sent = send_mock.call_args[0][0].body
        assert isinstance(sent, DeviceConfigurationRequest)
        assert sent.sequence_counter == 1

        # The server works both off and writes both answers to the socket; the
        # client's TCP stack hands them over in a single data_received() call -
        # this is the real entry point of the asyncio protocol.
        segment = read_con(DEVICE_STATE.value, b"\x00", counter=0) + read_con(
            PROJECT_ID.value, b"\xca\xfe", counter=1
        )
        connection.transport.data_received_callback(segment)
        await clock(0)

        outcome: object
        try:
            if not task.done():
                await clock(DEVICE_CONFIGURATION_REQUEST_TIMEOUT)
            outcome = task.result() if task.done() else "still pending"
        except CommunicationError as err:
            outcome = err
        assert outcome == b"\xca\xfe", (
            "observed: the server answered the read of PROJECT_INSTALLATION_ID "
            "with M_PropRead.con data=cafe, right behind the stale answer to the "
            "earlier DEVICE_STATE read (same TCP segment) - but read_property() "
            f"ended with {outcome!r}: the matching answer was dropped as "
            "'unexpected cEMI frame' because the stale one still occupied the "
            "pending future. The property requires that stale answers are "
            "discarded and the request returns the answer of the matching type "
            "for its own object type, instance and property."
        )
    finally:
        connection._stop()


@patch("xknx.io.transport.tcp_transport.TCPTransport.send")
async def test_answer_of_other_type_and_real_answer_in_one_tcp_segment(
    send_mock: Mock,
) -> None:
    """Same with a stale M_PropWrite.con ahead of the awaited M_PropRead.con."""
    clock = Clock()
    connection = await _connect(clock)
    try:
        task = asyncio.create_task(
            connection.write_property(KNXNETIP, DEVICE_STATE, b"\x00")
        )
        await clock(0)
        await clock(DEVICE_CONFIGURATION_REQUEST_TIMEOUT)
        with pytest.raises(CommunicationError, match="No answer"):
            await task

        task = asyncio.create_task(connection.read_property(KNXNETIP, DEVICE_STATE))
        await clock(0)
        segment = write_con(DEVICE_STATE.value, counter=0) + read_con(
            DEVICE_STATE.value, b"\x01", counter=1
        )
        connection.transport.data_received_callback(segment)
        await clock(0)

        outcome: object
        try:
            if not task.done():
                await clock(DEVICE_CONFIGURATION_REQUEST_TIMEOUT)
            outcome = task.result() if task.done() else "still pending"
        except CommunicationError as err:
            outcome = err
        assert outcome == b"\x01", (
            "observed: a stale M_PropWrite.con directly followed by the awaited "
            "M_PropRead.con (same property, same TCP segment) made read_property() "
            f"end with {outcome!r} - the M_PropRead.con was dropped. The property "
            "requires the request to return the answer of the matching type and "
            "stale answers (only) to be discarded."
        )
    finally:
        connection._stop()
