"""
C32 hunt 2: a request cancelled while it waits for its acknowledgement leaves
the outgoing sequence counter where it was, so the NEXT, different request goes
out under the counter of a frame the server already accepted. The server takes
it for a repetition: acknowledges it again and discards it.

Property clauses: "the counter advances once per accepted request" and "an
unacknowledged request is repeated ... with the same counter" (the same counter
denotes the same request) - quantified over cancellation at every await.
"""

import asyncio
from unittest.mock import Mock, patch

import pytest

from test.conftest import EventLoopClockAdvancer
from xknx.cemi import (
    CEMIFrame,
    CEMIMessageCode,
    CEMIMPropInfo,
    CEMIMPropReadRequest,
    CEMIMPropReadResponse,
)
from xknx.exceptions import CommunicationError
from xknx.io import UDPDeviceManagementConnection
from xknx.io.const import DEVICE_CONFIGURATION_REQUEST_TIMEOUT
from xknx.knxip import (
    HPAI,
    ConnectResponse,
    DeviceConfigurationAck,
    DeviceConfigurationRequest,
    KNXIPFrame,
)
from xknx.profile.const import ResourceKNXNETIPPropertyId, ResourceObjectType

LOCAL_ADDR = ("192.168.1.1", 12345)
REMOTE_ADDR = ("192.168.1.2", 3671)
CHANNEL = 23
PARAM = ResourceObjectType.OBJECT_KNXNETIP_PARAMETER
PROP_A = ResourceKNXNETIPPropertyId.PID_KNXNETIP_DEVICE_STATE
PROP_B = ResourceKNXNETIPPropertyId.PID_FRIENDLY_NAME


@pytest.fixture
async def time_travel() -> EventLoopClockAdvancer:
    """Advance loop time and run callbacks."""
    return EventLoopClockAdvancer(asyncio.get_running_loop())


class SpecServer:
    """
    A KNXnet/IP server following Device Management 03.08.03 §2.3.2 / Core §5.3.4:
    expected counter -> ack + process + answer; one less -> ack again, discard;
    anything else -> discard silently. Its frames reach the client only when the
    test calls `flush()`, i.e. the network delay is under test control.
    """

    def __init__(self, connection: UDPDeviceManagementConnection) -> None:
        self.connection = connection
        self.expected = 0  # counter expected from the client
        self.outgoing = 0  # counter of the server's own requests
        self.processed: list[tuple[int, int]] = []  # (counter, property_id)
        self.discarded_as_repetition: list[tuple[int, int]] = []
        self.in_flight: list[KNXIPFrame] = []
        self.seen = 0

    def poll(self, send_mock: Mock) -> None:
        """Take in what the client sent since the last poll."""
        calls = send_mock.call_args_list[self.seen :]
        self.seen = len(send_mock.call_args_list)
        for call in calls:
            body = call.args[0].body
            if isinstance(body, DeviceConfigurationRequest):
                self._request(body)

    def _request(self, request: DeviceConfigurationRequest) -> None:
        cemi = CEMIFrame.from_knx(request.raw_cemi)
        assert isinstance(cemi.data, CEMIMPropReadRequest)
        info = cemi.data.property_info
        if request.sequence_counter == self.expected:
            self.expected = self.expected + 1 & 0xFF
            self.processed.append((request.sequence_counter, info.property_id))
            self._send(DeviceConfigurationAck(CHANNEL, request.sequence_counter))
            self._send(
                DeviceConfigurationRequest(
                    communication_channel_id=CHANNEL,
                    sequence_counter=self.outgoing,
                    raw_cemi=CEMIFrame(
                        code=CEMIMessageCode.M_PROP_READ_CON,
                        data=CEMIMPropReadResponse(
                            property_info=CEMIMPropInfo(
                                object_type=info.object_type,
                                property_id=info.property_id,
                            ),
                            data=bytes([info.property_id]),
                        ),
                    ).to_knx(),
                )
            )
            self.outgoing = self.outgoing + 1 & 0xFF
        elif request.sequence_counter == (self.expected - 1 & 0xFF):
            self.discarded_as_repetition.append(
                (request.sequence_counter, info.property_id)
            )
            self._send(DeviceConfigurationAck(CHANNEL, request.sequence_counter))

    def _send(self, body) -> None:
        self.in_flight.append(KNXIPFrame.init_from_body(body))

    def flush(self) -> None:
        frames, self.in_flight = self.in_flight, []
        for frame in frames:
            self.connection.transport.handle_knxipframe(frame, HPAI(*REMOTE_ADDR))


@patch("xknx.io.transport.udp_transport.UDPTransport.stop")
@patch("xknx.io.transport.udp_transport.UDPTransport.send")
async def test_cancelled_request_does_not_hand_its_counter_to_the_next_one(
    send_mock: Mock, _stop_mock: Mock, time_travel: EventLoopClockAdvancer
) -> None:
    """
    History:
      1. read A is sent (counter 0). The server receives it, accepts it and
         acknowledges/answers - but those frames are still on their way when
      2. the caller gives up (`asyncio.wait_for(..., 2)` style cancellation).
      3. the late ack and answer of A arrive; nobody waits for them.
      4. read B (another property) is issued.
    """
    connection = UDPDeviceManagementConnection(
        gateway_ip=REMOTE_ADDR[0],
        gateway_port=REMOTE_ADDR[1],
        local_ip=LOCAL_ADDR[0],
        local_port=LOCAL_ADDR[1],
    )
    with (
        patch("xknx.io.transport.udp_transport.UDPTransport.connect"),
        patch(
            "xknx.io.transport.udp_transport.UDPTransport.getsockname",
            return_value=LOCAL_ADDR,
        ),
    ):
        connect_task = asyncio.create_task(connection.connect())
        await time_travel(0)
        connection.transport.handle_knxipframe(
            KNXIPFrame.init_from_body(
                ConnectResponse(communication_channel=CHANNEL, data_endpoint=HPAI())
            ),
            HPAI(*REMOTE_ADDR),
        )
        await connect_task
    send_mock.reset_mock()
    server = SpecServer(connection)

    # 1.
    task_a = asyncio.create_task(connection.read_property(PARAM, PROP_A))
    await time_travel(0)
    server.poll(send_mock)
    assert server.processed == [(0, PROP_A.value)]  # accepted by the server
    # 2.
    await time_travel(2)
    task_a.cancel()
    with pytest.raises(asyncio.CancelledError):
        await task_a
    # 3.
    server.flush()
    await time_travel(0)
    counter_after_cancel = connection.sequence_number

    # 4.
    task_b = asyncio.create_task(connection.read_property(PARAM, PROP_B))
    await time_travel(0)
    server.poll(send_mock)
    server.flush()
    await time_travel(DEVICE_CONFIGURATION_REQUEST_TIMEOUT)
    server.poll(send_mock)
    server.flush()
    await time_travel(0)

    outcome: object
    if task_b.done():
        outcome = task_b.exception() or task_b.result()
    else:
        outcome = "still waiting"
        task_b.cancel()

    assert connection.communication_channel == CHANNEL  # the connection is open
    assert (
        counter_after_cancel == 1
        and server.discarded_as_repetition == []
        and outcome == bytes([PROP_B.value])
    ), (
        "read A (counter 0) was accepted and acknowledged by the server, but the "
        "caller cancelled it while the ack was in flight. Observed afterwards: "
        f"outgoing counter = {counter_after_cancel} (server expects 1); the "
        f"following read B was discarded by the server as a repetition: "
        f"{server.discarded_as_repetition} (counter, property id); processed by the "
        f"server: {server.processed}; read B outcome: {outcome!r}. The property "
        "requires the counter to advance once per accepted request and one counter "
        "value to denote one request (a repetition carries the same counter) - a "
        "different request must not be sent under the counter of an accepted one."
    )
    assert not isinstance(outcome, CommunicationError)
