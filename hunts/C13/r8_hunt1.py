"""
C13 hunt 1: re-serializing a received L_Data frame clears the reserved bit of Ctrl1.

Property clause: "Re-serializing a received frame changes nothing but the derived
frame type bit and reserved application bits."

`CEMIFlags.from_knx()` drops Ctrl1 bit 6 (the reserved bit between Frame Type and
Repeat) without rejecting the frame, and `CEMIFlags.to_knx()` always emits it as 0.
So a frame that was accepted by `CEMIFrame.from_knx()` comes back out of `to_knx()`
with a control-field bit changed that is neither the Frame Type bit nor part of the
APDU.
"""

import pytest

from xknx.cemi import CEMIFrame

FRAME_TYPE_BIT = 0x80  # Ctrl1 b7 - derived from the NPDU length, allowed to change

# message code, additional info length 0, Ctrl1, Ctrl2, src, dst, NPDU length, TPDU
FRAMES = {
    "group_write_binary": "2900{ctrl1:02x}e0 1203 0901 01 0081",
    "group_write_long": "2900{ctrl1:02x}e0 1203 0901 11 0080" + "ab" * 16,
    "individual_connect": "2900{ctrl1:02x}60 1203 1105 00 80",
    "confirmation": "2e00{ctrl1:02x}e0 1203 0901 03 0080 0c3f",
}


@pytest.mark.parametrize("name", FRAMES)
@pytest.mark.parametrize("ctrl1", range(256))
def test_reserialize_changes_only_frame_type_bit(name: str, ctrl1: int) -> None:
    """Every accepted frame must re-serialize unchanged apart from the FT bit."""
    raw = bytes.fromhex(FRAMES[name].format(ctrl1=ctrl1))
    frame = CEMIFrame.from_knx(raw)  # accepted - no exception for any Ctrl1 value
    out = frame.to_knx()

    assert len(out) == len(raw)
    changed = {
        index: (raw[index] ^ out[index])
        for index in range(len(raw))
        if raw[index] != out[index]
    }
    ctrl1_index = 2
    # the Frame Type bit may be re-derived; nothing else of the control fields,
    # addresses, length or TPDU may change (these APDUs have no reserved bits set)
    other = {
        index: bits
        for index, bits in changed.items()
        if not (index == ctrl1_index and bits == FRAME_TYPE_BIT)
    }
    assert not other, (
        f"received {raw.hex()} re-serialized to {out.hex()}: octet/bit mask changed "
        f"{ {i: hex(b) for i, b in other.items()} } - the property allows only the "
        "derived Frame Type bit (Ctrl1 b7) and reserved application bits to change, "
        "but the reserved Ctrl1 bit 6 (0x40) was silently cleared"
    )


def test_two_different_received_frames_parse_equal() -> None:
    """The dropped bit also makes two different wire frames indistinguishable."""
    raw_a = bytes.fromhex("2900bce0 1203 0901 01 0081")
    raw_b = bytes.fromhex("2900fce0 1203 0901 01 0081")  # Ctrl1 bit 6 set
    frame_a = CEMIFrame.from_knx(raw_a)
    frame_b = CEMIFrame.from_knx(raw_b)
    assert frame_b.to_knx() == raw_b, (
        f"frame received as {raw_b.hex()} re-serializes to {frame_b.to_knx().hex()} "
        f"(identical to the different frame {raw_a.hex()}; parsed objects equal: "
        f"{frame_a == frame_b}) - re-serialization must change nothing but the "
        "frame type bit and reserved application bits"
    )
