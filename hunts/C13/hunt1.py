"""
C13 hunt 1: a control TPDU that carries an application payload is serialized
with the payload silently dropped.

`CEMILData.calculated_length()` refuses such a frame ("control TPDU must not
[have a payload]"), but `CEMILData.to_knx()` - the only method the send paths
(Tunnel.send_cemi, Routing.send_cemi) call - takes the `tpci.control` branch and
never looks at `self.payload`. The octets on the wire parse back to a frame with
`payload=None`: the payload does not round-trip and nothing is rejected.
"""

import asyncio
from unittest.mock import patch

import pytest

from xknx import XKNX
from xknx.cemi import CEMIFrame, CEMILData, CEMIMessageCode
from xknx.dpt import DPTArray
from xknx.exceptions import ConversionError
from xknx.io import Routing
from xknx.knxip import KNXIPFrame, RoutingIndication
from xknx.telegram import IndividualAddress, Telegram
from xknx.telegram.apci import GroupValueWrite, PropertyValueRead
from xknx.telegram.tpci import TAck, TConnect, TDisconnect, TNak


@pytest.mark.parametrize("tpci", [TConnect(), TDisconnect(), TAck(3), TNak(15)])
@pytest.mark.parametrize(
    "payload",
    [
        GroupValueWrite(DPTArray((1, 2, 3))),
        PropertyValueRead(object_index=0, property_id=11, count=1, start_index=1),
    ],
)
def test_control_tpdu_with_payload_roundtrip_or_reject(tpci, payload) -> None:
    """Serializing must either keep the payload or reject the frame."""
    telegram = Telegram(
        destination_address=IndividualAddress("1.2.3"),
        tpci=tpci,
        payload=payload,
    )
    cemi_data = CEMILData.init_from_telegram(
        telegram, src_addr=IndividualAddress("1.1.1")
    )
    frame = CEMIFrame(code=CEMIMessageCode.L_DATA_REQ, data=cemi_data)

    # the sibling method knows this frame is malformed
    with pytest.raises(TypeError):
        frame.calculated_length()

    try:
        raw = frame.to_knx()
    except ConversionError:
        return  # rejected - fine

    parsed = CEMIFrame.from_knx(raw)
    assert isinstance(parsed.data, CEMILData)
    assert parsed.data.payload == payload, (
        f"C13 violated: frame built from {telegram} serialized to {raw.hex()} "
        f"without error, but parses back to payload={parsed.data.payload!r} "
        f"(tpci={parsed.data.tpci!r}); the property requires the payload to "
        f"round-trip (or the frame to be rejected). calculated_length() raises "
        f"TypeError for the same frame, to_knx() silently drops {payload}."
    )


async def test_control_tpdu_with_payload_through_cemi_handler() -> None:
    """The same through the real send path (CEMIHandler -> Routing), UDP transport mocked."""
    xknx = XKNX()
    routing = Routing(
        xknx,
        individual_address=IndividualAddress("1.1.1"),
        cemi_received_callback=xknx.cemi_handler.handle_raw_cemi,
        local_ip="127.0.0.1",
    )
    xknx.knxip_interface._interface = routing
    xknx.current_address = IndividualAddress("1.1.1")
    payload = GroupValueWrite(DPTArray((1, 2, 3)))
    telegram = Telegram(
        destination_address=IndividualAddress("1.2.3"),
        tpci=TConnect(),
        payload=payload,
    )
    sent: list[KNXIPFrame] = []
    # network boundary: the UDP socket write
    with patch("xknx.io.transport.UDPTransport.send", side_effect=sent.append):
        try:
            await asyncio.wait_for(xknx.cemi_handler.send_telegram(telegram), 1)
        except ConversionError:
            return  # rejected - fine
    assert len(sent) == 1
    assert isinstance(sent[0].body, RoutingIndication)
    raw_cemi = sent[0].body.raw_cemi
    parsed = CEMIFrame.from_knx(raw_cemi)
    assert isinstance(parsed.data, CEMILData)
    assert parsed.data.telegram().payload == payload, (
        f"C13 violated: CEMIHandler.send_telegram({telegram}) put {raw_cemi.hex()} "
        f"on the wire and reported success, but these octets parse back to "
        f"{parsed.data.telegram()} - the payload {payload} was silently dropped; "
        f"the property requires a round-trip or a rejection."
    )
