"""
C13 hunt 3: a received L_Data frame whose length octet is 0xFF parses fine but can
not be serialized again.

0xFF is the reserved escape code of the length field (3/2/2 §2.2.5.6); the
library knows that - `MAX_NPDU_LENGTH = 254` in xknx/cemi/const.py, enforced by
`CEMILData.to_knx()`. `CEMILData.from_knx()` does not enforce it: it only checks
that the number of octets matches the length octet. So such a frame is accepted,
handed to the upper layers as a telegram, and `to_knx()` of the very frame object
the parser returned raises ConversionError.

The property requires: re-serializing a received frame changes nothing but the
derived frame type bit and reserved application bits - and APDUs longer than 254
octets are rejected. Here the two halves of the codec disagree about what a valid
frame is.
"""

from unittest.mock import patch

import pytest

from xknx import XKNX
from xknx.cemi import CEMIFrame, CEMILData
from xknx.exceptions import ConversionError, CouldNotParseCEMI, UnsupportedCEMIMessage
from xknx.telegram import Telegram


def _raw(npdu_len: int) -> bytes:
    """L_Data.ind, extended frame, 1.1.1 -> 1/2/3, GroupValueWrite with npdu_len - 1 data octets."""
    return (
        bytes.fromhex("2900" "3ce0" "1101" "0a03")
        + bytes([npdu_len])
        + bytes.fromhex("0080")
        + bytes(i & 0xFF for i in range(npdu_len - 1))
    )


def test_control_254_roundtrips() -> None:
    """Control: the largest legal frame round-trips octet for octet (passes)."""
    raw = _raw(254)
    assert CEMIFrame.from_knx(raw).to_knx() == raw


def test_received_escape_length_frame_reserializes_or_is_rejected() -> None:
    """A frame with LG=0xFF must either be refused by the parser or survive re-serialization."""
    raw = _raw(0xFF)
    try:
        frame = CEMIFrame.from_knx(raw)
    except (CouldNotParseCEMI, UnsupportedCEMIMessage):
        return  # rejected when parsing - fine
    assert isinstance(frame.data, CEMILData)
    assert frame.data.payload is not None
    try:
        again = frame.to_knx()
    except ConversionError as err:
        pytest.fail(
            f"C13 violated: received frame with length octet 0xFF "
            f"({len(raw)} octets, APDU of {frame.data.payload.calculated_length()} octets) "
            f"was accepted by CEMIFrame.from_knx(), but re-serializing the returned "
            f"frame raises {err}. The property requires re-serializing a received "
            f"frame to change nothing but the frame type bit / reserved application "
            f"bits, and APDUs above 254 octets to be rejected - from_knx() and "
            f"to_knx() disagree on the maximum."
        )
    assert again == raw


def test_escape_length_frame_reaches_the_telegram_queue() -> None:
    """The same frame through CEMIHandler: it is delivered as a regular telegram."""
    xknx = XKNX()
    received: list[Telegram] = []
    with patch.object(xknx.telegrams, "put_nowait", side_effect=received.append):
        xknx.cemi_handler.handle_raw_cemi(_raw(0xFF))
    if not received:
        return  # parser rejected the frame - fine
    telegram = received[0]
    cemi_data = CEMILData.init_from_telegram(telegram)
    try:
        cemi_data.to_knx()
    except ConversionError as err:
        pytest.fail(
            f"C13 violated: CEMIHandler delivered a telegram with a "
            f"{telegram.payload.calculated_length()} octet APDU parsed from a frame "
            f"with the reserved length 0xFF; building a link-layer frame from this "
            f"very telegram fails: {err}. The property requires such APDUs to be "
            f"rejected (not accepted in one direction only)."
        )
