"""
C13 hunt 4: received frames of eight management services parse fine but can not be
serialized again, because the APCI parser accepts every value of the count/number
octet while the APCI serializer of the same class range-checks it.

    A_FilterTable_Read / A_RouterMemory_Read       number 0 and 255
    A_FilterTable_Write / A_RouterMemory_Write     number 0 and 255
    A_FilterTable_Response / A_RouterMemory_Response  number 255
    A_MemoryExtended_Read / A_MemoryExtended_Write count 251..255

`CEMIFrame.from_knx()` returns a frame object for all of them (they are delivered to
the management layer as telegrams); `frame.to_knx()` raises ConversionError
("Number out of range." / "Count out of range.").

The property requires: re-serializing a received frame changes nothing but the
derived frame type bit and reserved application bits.
"""

import pytest

from xknx.cemi import CEMIFrame, CEMILData
from xknx.exceptions import ConversionError, CouldNotParseCEMI, UnsupportedCEMIMessage

# L_Data.ind, 1.1.1 -> 1.2.3 (individual), T_Data_Connected seq 0
HEADER = bytes.fromhex("2900" "b060" "1101" "1203")


def _frame(apci: int, asdu: bytes) -> bytes:
    tpdu = bytes([0x40 | (apci >> 8), apci & 0xFF]) + asdu
    return HEADER + bytes([len(tpdu) - 1]) + tpdu


CASES = {
    "FilterTableRead number=0": _frame(0x3C1, bytes.fromhex("00 1234")),
    "FilterTableRead number=255": _frame(0x3C1, bytes.fromhex("ff 1234")),
    "FilterTableResponse number=255": _frame(0x3C2, bytes.fromhex("ff 1234")),
    "FilterTableWrite number=0": _frame(0x3C3, bytes.fromhex("00 1234 aa")),
    "FilterTableWrite number=255": _frame(0x3C3, bytes.fromhex("ff 1234 aa")),
    "RouterMemoryRead number=0": _frame(0x3C8, bytes.fromhex("00 1234")),
    "RouterMemoryResponse number=255": _frame(0x3C9, bytes.fromhex("ff 1234")),
    "RouterMemoryWrite number=0": _frame(0x3CA, bytes.fromhex("00 1234 aa")),
    "MemoryExtendedRead count=251": _frame(0x1FD, bytes.fromhex("fb 123456")),
    "MemoryExtendedRead count=255": _frame(0x1FD, bytes.fromhex("ff 123456")),
    "MemoryExtendedWrite count=255": _frame(0x1FB, bytes.fromhex("ff 123456 aa")),
}

CONTROLS = {
    "FilterTableRead number=1": _frame(0x3C1, bytes.fromhex("01 1234")),
    "FilterTableResponse number=0": _frame(0x3C2, bytes.fromhex("00 1234")),
    "MemoryExtendedRead count=250": _frame(0x1FD, bytes.fromhex("fa 123456")),
}


def _check(name: str, raw: bytes) -> None:
    try:
        frame = CEMIFrame.from_knx(raw)
    except (CouldNotParseCEMI, UnsupportedCEMIMessage):
        return  # rejected when parsing - fine
    assert isinstance(frame.data, CEMILData)
    try:
        again = frame.to_knx()
    except ConversionError as err:
        pytest.fail(
            f"C13 violated: received frame {raw.hex()} ({name}) was accepted by "
            f"CEMIFrame.from_knx() as {frame.data.payload}, but re-serializing the "
            f"returned frame raises {err}. The property requires re-serializing a "
            f"received frame to change nothing but the frame type bit and reserved "
            f"application bits."
        )
    assert again == raw, (
        f"C13 violated: {name}: {raw.hex()} re-serialized to {again.hex()}"
    )


@pytest.mark.parametrize("name", list(CASES))
def test_received_management_frame_reserializes(name: str) -> None:
    """Parser and serializer must agree on the value range of the count octet."""
    _check(name, CASES[name])


@pytest.mark.parametrize("name", list(CONTROLS))
def test_controls_roundtrip(name: str) -> None:
    """Control: in-range values round-trip octet for octet (passes)."""
    _check(name, CONTROLS[name])
