"""
C13 hunt 2: `CEMILData.to_knx()` serializes a transport PDU that the chosen
destination kind / the 4 bit sequence number field can not carry.

The parser (`CEMILData.from_knx` -> `TPCI.resolve`) ties the TPCI to the
destination: group addressed frames can only be T_Data_Group / T_Data_Broadcast
(destination 0) / T_Data_Tag_Group, everything else is individually addressed,
and a sequence number has 4 bit. The serializer checks none of that. So a frame
built from a telegram is put on the wire without error and then

  a) can not be parsed by the library itself (UnsupportedCEMIMessage), or
  b) parses back to a *different* transport PDU.

The property requires: serializes to octets that parse back to the same
addresses, transport PDU and payload - out-of-range values are rejected
(as they are for the hop count and the APDU length).
"""

import pytest

from xknx.cemi import CEMIFrame, CEMILData, CEMIMessageCode
from xknx.dpt import DPTBinary
from xknx.exceptions import ConversionError, XKNXException
from xknx.telegram import GroupAddress, IndividualAddress, Telegram
from xknx.telegram.apci import GroupValueWrite
from xknx.telegram.tpci import (
    TAck,
    TConnect,
    TDataBroadcast,
    TDataConnected,
    TDataGroup,
    TDataIndividual,
    TDataTagGroup,
    TDisconnect,
    TNak,
)

GA = GroupAddress("1/2/3")
GA0 = GroupAddress(0)
IA = IndividualAddress("1.2.3")
PAYLOAD = GroupValueWrite(DPTBinary(1))


def _roundtrip(dst, tpci, payload) -> None:
    telegram = Telegram(destination_address=dst, tpci=tpci, payload=payload)
    frame = CEMIFrame(
        code=CEMIMessageCode.L_DATA_REQ,
        data=CEMILData.init_from_telegram(
            telegram, src_addr=IndividualAddress("1.1.1")
        ),
    )
    try:
        raw = frame.to_knx()
    except ConversionError:
        return  # rejected when serializing - fine

    try:
        parsed = CEMIFrame.from_knx(raw)
    except XKNXException as err:
        pytest.fail(
            f"C13 violated: frame built from tpci={tpci!r} dst={dst!r} serialized "
            f"without error to {raw.hex()}, but the library's own parser refuses "
            f"these octets: {err}. The property requires every serialized frame to "
            f"parse back to the same addresses / transport PDU / payload (or to be "
            f"rejected when serializing)."
        )
    assert isinstance(parsed.data, CEMILData)
    assert (
        type(parsed.data.tpci) is type(tpci)
        and parsed.data.tpci == tpci
        and parsed.data.dst_addr == dst
        and parsed.data.payload == payload
    ), (
        f"C13 violated: frame built from tpci={tpci!r} dst={dst!r} serialized "
        f"without error to {raw.hex()}, but parses back to "
        f"tpci={parsed.data.tpci!r} dst={parsed.data.dst_addr!r} "
        f"payload={parsed.data.payload}. The property requires the same transport "
        f"PDU to come back (or the frame to be rejected when serializing)."
    )


@pytest.mark.parametrize(
    "dst,tpci,payload",
    [
        # a) emitted, but unparsable by the library itself
        (GA, TConnect(), None),
        (GA, TDisconnect(), None),
        (GA, TAck(3), None),
        (GA, TNak(3), None),
        (GA, TDataConnected(5), PAYLOAD),
        (GA0, TDataConnected(5), PAYLOAD),
        (IA, TDataTagGroup(), PAYLOAD),
        # b) emitted, parses back to another transport PDU
        (IA, TDataGroup(), PAYLOAD),
        (IA, TDataBroadcast(), PAYLOAD),
        (GA, TDataIndividual(), PAYLOAD),
        (GA, TDataBroadcast(), PAYLOAD),
        (GA0, TDataGroup(), PAYLOAD),
        # b) sequence number does not fit into 4 bit - silently wrapped
        (IA, TDataConnected(16), PAYLOAD),
        (IA, TDataConnected(-1), PAYLOAD),
        (IA, TAck(16), None),
        (IA, TNak(17), None),
    ],
)
def test_tpdu_destination_consistency(dst, tpci, payload) -> None:
    """A TPDU the frame can not carry must be rejected, not mangled."""
    _roundtrip(dst, tpci, payload)


@pytest.mark.parametrize(
    "dst,tpci,payload",
    [
        (GA, TDataGroup(), PAYLOAD),
        (GA0, TDataBroadcast(), PAYLOAD),
        (GA, TDataTagGroup(), PAYLOAD),
        (GA0, TDataTagGroup(), PAYLOAD),
        (IA, TDataIndividual(), PAYLOAD),
        (IA, TDataConnected(0), PAYLOAD),
        (IA, TDataConnected(15), PAYLOAD),
        (IA, TConnect(), None),
        (IA, TDisconnect(), None),
        (IA, TAck(15), None),
        (IA, TNak(0), None),
    ],
)
def test_consistent_combinations_roundtrip(dst, tpci, payload) -> None:
    """Control group: the consistent combinations do round-trip (passes)."""
    _roundtrip(dst, tpci, payload)
