"""C37 hunt 2: a device removed while a telegram is dispatched still processes that telegram.

Devices.devices_by_group_address() hands out a snapshot of the index; Devices.process() never
re-checks registration. When the device_updated callback of device A removes device B
(both use the telegrams group address, B registered behind A), B.process() is still called
although B is not registered anymore - and, having lost its tasks in async_remove(), it
starts a new reset task in the task registry that nobody will ever remove.
"""

from unittest.mock import AsyncMock, Mock, patch

from xknx import XKNX
from xknx.devices import BinarySensor, Switch
from xknx.dpt import DPTBinary
from xknx.telegram import GroupAddress, Telegram
from xknx.telegram.apci import GroupValueWrite

GA = "1/2/3"


def _xknx() -> XKNX:
    interface = Mock()
    interface.start = AsyncMock()
    interface.stop = AsyncMock()
    interface.send_cemi = AsyncMock()
    with patch("xknx.xknx.knx_interface_factory", return_value=interface):
        return XKNX()


async def test_removed_device_is_still_processed() -> None:
    xknx = _xknx()
    xknx.started.set()  # as after xknx.start(), without touching the network
    first = Switch(xknx, "first", group_address=GA)
    second = BinarySensor(xknx, "second", group_address_state=GA, reset_after=60)
    xknx.devices.async_add(first)
    xknx.devices.async_add(second)

    processed: list[tuple[str, bool]] = []  # (device name, registered when processed)
    for device in (first, second):
        original = device.process

        def process(telegram, _device=device, _original=original):
            processed.append((_device.name, _device in xknx.devices))
            _original(telegram)

        device.process = process

    def remove_second(device) -> None:
        """E.g. an integration unloading an entity as reaction to a state change."""
        if second in xknx.devices:
            xknx.devices.async_remove(second)

    first.register_device_updated_cb(remove_second)

    tasks_before = len(xknx.task_registry.tasks)
    xknx.devices.process(
        Telegram(
            destination_address=GroupAddress(GA), payload=GroupValueWrite(DPTBinary(1))
        )
    )
    assert second not in xknx.devices
    leaked = len(xknx.task_registry.tasks) - tasks_before
    try:
        unregistered = [name for name, registered in processed if not registered]
        assert not unregistered, (
            f"observed: {unregistered} processed the telegram although not registered "
            f"at that time (dispatch log {processed}, {leaked} task(s) started for the removed "
            "device); the property requires that a telegram is processed by exactly the "
            "registered devices"
        )
    finally:
        xknx.task_registry.stop()
