"""
C37 hunt 3 (lower severity - needs a user defined Device subclass):
one device raising in process() ends the dispatch for all devices registered after it.

Devices.process() calls device.process() in a bare loop.  An XKNXException coming
out of one device (here: the documented `CouldNotParseTelegram` that the real
RemoteValue.process() raises for a GroupValueRead) propagates to the TelegramQueue,
which only logs it - the remaining registered devices of that group address never
see the telegram.  All built-in device types were fuzzed and do not raise, so the
trigger is a custom `Device` subclass (public ABC) - callbacks of the same queue
(`_run_telegram_received_cbs`) and of devices (`Device.after_update`) are isolated
against exactly this.

Property C37: "a group telegram is processed by exactly the registered devices that
use its group address, each once, in registration order".

Run:  /venv/bin/python -m pytest -q -p no:cacheprovider hunt3.py
"""

from __future__ import annotations

from collections.abc import Iterator
import os
import sys
from unittest.mock import AsyncMock, patch

sys.path.insert(0, os.path.dirname(os.path.abspath(__file__)))

import xknx as _xknx  # noqa: E402

assert _xknx.__file__.startswith(os.path.dirname(os.path.abspath(__file__))), (
    f"testing the wrong tree: {_xknx.__file__}"
)

from xknx import XKNX  # noqa: E402
from xknx.devices import Device, ExposeSensor  # noqa: E402
from xknx.remote_value import RemoteValueSwitch  # noqa: E402
from xknx.telegram import GroupAddress, Telegram, TelegramDirection  # noqa: E402
from xknx.telegram.apci import GroupValueRead, GroupValueResponse  # noqa: E402

GA = GroupAddress("1/1/1")


class Monitor(Device):
    """Minimal custom device: hands every telegram to its RemoteValue."""

    def __init__(self, xknx: XKNX, name: str) -> None:
        super().__init__(xknx, name)
        self.remote_value = RemoteValueSwitch(
            xknx, group_address_state="1/1/1", device_name=name, sync_state=False
        )

    def _iter_remote_values(self) -> Iterator[RemoteValueSwitch]:
        yield self.remote_value

    def process(self, telegram: Telegram) -> None:
        # RemoteValue.process() raises CouldNotParseTelegram for a GroupValueRead
        self.remote_value.process(telegram)  # type: ignore[arg-type]


async def _read_responses(order: str) -> int:
    """Send an incoming GroupValueRead through the running TelegramQueue."""
    xknx = XKNX()
    monitor = Monitor(xknx, "monitor")
    expose = ExposeSensor(
        xknx, "expose", group_address="1/1/1", value_type="binary", respond_to_read=True
    )
    expose.initialize_value(True)
    devices = [monitor, expose] if order == "monitor first" else [expose, monitor]
    for device in devices:
        xknx.devices.async_add(device)
    assert list(xknx.devices.devices_by_group_address(GA)) == devices

    responses: list[Telegram] = []
    xknx.telegram_queue.register_telegram_received_cb(
        lambda t: responses.append(t)
        if isinstance(t.payload, GroupValueResponse)
        else None,
        match_for_outgoing=True,
    )
    # mock only the network boundary
    with patch("xknx.cemi.CEMIHandler.send_telegram", new_callable=AsyncMock):
        await xknx.telegram_queue.start()
        xknx.telegrams.put_nowait(
            Telegram(
                destination_address=GA,
                payload=GroupValueRead(),
                direction=TelegramDirection.INCOMING,
            )
        )
        await xknx.telegrams.join()
        await xknx.telegram_queue.stop()
    return len(responses)


async def test_raising_device_hides_telegram_from_devices_registered_after_it() -> None:
    """monitor (raises on GroupValueRead) + expose sensor answering reads."""
    # control: same devices, the raising one registered last -> the read is answered
    assert await _read_responses("expose first") == 1

    answered = await _read_responses("monitor first")
    assert answered == 1, (
        f"OBSERVED: {answered} GroupValueResponse for the GroupValueRead on {GA} (1 when "
        "the registration order is swapped) - ExposeSensor 'expose' is registered for "
        "that address with respond_to_read=True and a value, but never processed the "
        "read: the device registered before it raised CouldNotParseTelegram and "
        "Devices.process() stopped iterating (the TelegramQueue just logs 'Unexpected "
        "xknx error'). REQUIRED (C37): the telegram is processed by every registered "
        "device using the address, each once."
    )
