"""C37 hunt 1: a device raising in process() hides the telegram from all later registered devices.

History: ExposeSensor(periodic_send) and Sensor are registered (in this order) on the same
group address; expose.set() queues an outgoing telegram; xknx.stop() is called.
stop() removes the device tasks first and only then drains the telegram queue, so
ExposeSensor.process() raises RuntimeError("Task must be registered before start().").
Devices.process() does not isolate devices from each other: the Sensor registered behind the
ExposeSensor never sees the telegram.
"""

import asyncio
from unittest.mock import AsyncMock, Mock, patch

import pytest

from xknx import XKNX
from xknx.core import XknxConnectionState
from xknx.devices import ExposeSensor, Sensor
from xknx.dpt import DPTArray
from xknx.telegram import GroupAddress, Telegram, TelegramDirection
from xknx.telegram.apci import GroupValueWrite

GA = "1/2/3"


def _xknx() -> XKNX:
    interface = Mock()
    interface.start = AsyncMock()
    interface.stop = AsyncMock()
    interface.send_cemi = AsyncMock()
    with patch("xknx.xknx.knx_interface_factory", return_value=interface):
        xknx = XKNX()

    async def send_cemi(cemi):  # network boundary: the bus confirms every frame
        xknx.cemi_handler._l_data_confirmation_event.set()

    interface.send_cemi.side_effect = send_cemi
    return xknx


def _record(devices):
    calls = []
    for device in devices:
        original = device.process

        def process(telegram, _device=device, _original=original):
            calls.append(_device.name)
            _original(telegram)

        device.process = process
    return calls


def _naive(xknx, group_address):
    return [d.name for d in xknx.devices if d.has_group_address(group_address)]


async def test_stop_with_queued_telegram() -> None:
    """Realistic history: set a value, then stop xknx (e.g. leaving `async with XKNX()`)."""
    xknx = _xknx()
    expose = ExposeSensor(
        xknx, "expose", group_address=GA, value_type="temperature", periodic_send=60
    )
    sensor = Sensor(xknx, "sensor", group_address_state=GA, value_type="temperature")
    xknx.devices.async_add(expose)
    xknx.devices.async_add(sensor)
    calls = _record([expose, sensor])

    await xknx.start()
    xknx.connection_manager.connection_state_changed(XknxConnectionState.CONNECTED)
    await asyncio.sleep(0)

    await expose.set(21.5)
    await xknx.stop()

    expected = _naive(xknx, GroupAddress(GA))
    assert expected == ["expose", "sensor"]
    assert calls == expected, (
        f"observed: telegram to {GA} was processed by {calls}; the property requires every "
        f"registered device using the address, each once, in registration order: {expected}"
    )
    assert sensor.resolve_state() == 21.5


async def test_process_before_start() -> None:
    """Same root cause without start(): devices added to a not yet started xknx."""
    xknx = _xknx()
    expose = ExposeSensor(
        xknx, "expose", group_address=GA, value_type="temperature", periodic_send=60
    )
    sensor = Sensor(xknx, "sensor", group_address_state=GA, value_type="temperature")
    xknx.devices.async_add(expose)
    xknx.devices.async_add(sensor)
    calls = _record([expose, sensor])
    telegram = Telegram(
        destination_address=GroupAddress(GA),
        payload=GroupValueWrite(DPTArray((0x0C, 0x1A))),
        direction=TelegramDirection.OUTGOING,
    )
    error = None
    try:
        xknx.devices.process(telegram)
    except Exception as exc:  # pylint: disable=broad-except
        error = exc
    expected = _naive(xknx, GroupAddress(GA))
    assert calls == expected, (
        f"observed: Devices.process() raised {error!r} and dispatched to {calls} only; the "
        f"property requires dispatch to all of {expected}, each once, in registration order"
    )
