"""
C37 hunt 1: the registry iterates its live per-address list while dispatching.

A device_updated_cb (the normal, documented hook that runs synchronously inside
Device.process) that removes / re-adds a device re-enters Devices.async_remove /
async_add while Devices.process() is still iterating the very same list object.
CPython list iteration is index based, so the iteration then skips a device that
is registered the whole time (or visits one twice).

Property C37: "a group telegram is processed by exactly the registered devices that
use its group address, each once, in registration order".

Run:  /venv/bin/python -m pytest -q -p no:cacheprovider hunt1.py
"""

from __future__ import annotations

import os
import sys

sys.path.insert(0, os.path.dirname(os.path.abspath(__file__)))

import xknx as _xknx  # noqa: E402

assert _xknx.__file__.startswith(os.path.dirname(os.path.abspath(__file__))), (
    f"testing the wrong tree: {_xknx.__file__}"
)

from xknx import XKNX  # noqa: E402
from xknx.devices import Switch  # noqa: E402
from xknx.dpt import DPTBinary  # noqa: E402
from xknx.telegram import GroupAddress, Telegram, TelegramDirection  # noqa: E402
from xknx.telegram.apci import GroupValueWrite  # noqa: E402

GA = GroupAddress("1/1/1")


def _write(value: int) -> Telegram:
    return Telegram(
        destination_address=GA,
        payload=GroupValueWrite(DPTBinary(value)),
        direction=TelegramDirection.INCOMING,
    )


def _setup() -> tuple[XKNX, Switch, Switch, Switch, list[str]]:
    xknx = XKNX()
    processed: list[str] = []
    devices = []
    for name in ("A", "B", "C"):
        switch = Switch(xknx, name, group_address="1/1/1")
        # record every telegram the registry hands to the device
        original = switch.process

        def spy(telegram: Telegram, _name: str = name, _orig=original) -> None:
            processed.append(_name)
            _orig(telegram)

        switch.process = spy  # type: ignore[method-assign]
        xknx.devices.async_add(switch)
        devices.append(switch)
    return xknx, devices[0], devices[1], devices[2], processed


async def test_device_removing_itself_in_its_callback_hides_telegram_from_next_device() -> (
    None
):
    """A one-shot device unregisters itself from its device_updated_cb."""
    xknx, dev_a, dev_b, dev_c, processed = _setup()

    def one_shot(device: Switch) -> None:
        xknx.devices.async_remove(device)

    dev_a.register_device_updated_cb(one_shot)

    # go through the real consumer path of the telegram queue
    await xknx.telegram_queue.process_telegram_incoming(_write(1))

    assert list(xknx.devices) == [dev_b, dev_c]  # B and C were registered all the time
    assert processed == ["A", "B", "C"] and dev_b.state is True, (
        f"OBSERVED: telegram to {GA} was processed by {processed}; B.state={dev_b.state!r}, "
        f"C.state={dev_c.state!r} - device B (registered before, during and after the "
        "dispatch) never saw the telegram because A removed itself from the list that "
        "Devices.process() is iterating. REQUIRED (C37): every registered device using "
        "the group address processes the telegram exactly once -> ['A', 'B', 'C']."
    )


async def test_callback_removing_an_earlier_device_hides_telegram_from_later_device() -> (
    None
):
    """B's callback removes the already processed device A -> C is skipped."""
    xknx, dev_a, dev_b, dev_c, processed = _setup()

    dev_b.register_device_updated_cb(lambda _dev: xknx.devices.async_remove(dev_a))

    await xknx.telegram_queue.process_telegram_incoming(_write(1))

    assert list(xknx.devices) == [dev_b, dev_c]
    assert processed == ["A", "B", "C"] and dev_c.state is True, (
        f"OBSERVED: telegram to {GA} was processed by {processed}; C.state={dev_c.state!r} "
        "- C is registered and uses the address but was skipped, because removing A "
        "shifted the list under the running iterator. REQUIRED (C37): ['A', 'B', 'C']."
    )


async def test_callback_re_registering_device_processes_telegram_twice() -> None:
    """A's callback moves A to the end of the registration order (remove + add)."""
    xknx, dev_a, dev_b, dev_c, processed = _setup()

    def re_register(device: Switch) -> None:
        if device in xknx.devices and processed.count("A") == 1:
            xknx.devices.async_remove(device)
            xknx.devices.async_add(device)

    dev_a.register_device_updated_cb(re_register)

    await xknx.telegram_queue.process_telegram_incoming(_write(1))

    assert sorted(processed) == ["A", "B", "C"], (
        f"OBSERVED: one telegram to {GA} was processed by {processed} - not 'each "
        "registered device once': B is skipped and/or A gets the same telegram twice, "
        "because the list iterated by Devices.process() was mutated by the re-entrant "
        "async_remove()/async_add(). REQUIRED (C37): each of A, B, C exactly once."
    )


def test_removing_devices_while_iterating_lookup_result_skips_devices() -> None:
    """The public lookup hands out a live view of the internal index list."""
    xknx, dev_a, dev_b, dev_c, _processed = _setup()

    for device in xknx.devices.devices_by_group_address(GA):
        xknx.devices.async_remove(device)

    assert list(xknx.devices) == [], (
        f"OBSERVED: 'remove every device of {GA}' left {[d.name for d in xknx.devices]} "
        "registered - devices_by_group_address() iterates the live index list, so a "
        "removal during the iteration skips the following device. REQUIRED (C37): the "
        "lookup yields exactly the registered devices using the address, each once."
    )
