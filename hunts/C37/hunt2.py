"""
C37 hunt 2: the group address index of the registry goes stale for Climate.mode.

Devices keeps `__index: dict[address, list[Device]]`, filled once in async_add() from
`device.group_addresses()` (comment: "a devices group addresses are fixed when its
RemoteValues are created, so this can not go stale").  That is not true for Climate:
`Climate.group_addresses()` / `Climate.has_group_address()` include the addresses of
the public, freely assignable attribute `Climate.mode` (a ClimateMode), and
`Climate.process_group_write()` forwards telegrams to `self.mode`.

History: add Climate, then attach / replace / detach its ClimateMode.
 * telegrams to the new mode's addresses are never dispatched to the Climate,
 * async_remove() of the registered Climate raises KeyError half way and leaves list
   and index inconsistent,
 * after detaching the mode, a *removed* Climate keeps receiving telegrams forever.

Property C37: "a group telegram is processed by exactly the registered devices that
use its group address ... checked against a naive scan of the registered devices".

Run:  /venv/bin/python -m pytest -q -p no:cacheprovider hunt2.py
"""

from __future__ import annotations

import os
import sys

sys.path.insert(0, os.path.dirname(os.path.abspath(__file__)))

import xknx as _xknx  # noqa: E402

assert _xknx.__file__.startswith(os.path.dirname(os.path.abspath(__file__))), (
    f"testing the wrong tree: {_xknx.__file__}"
)

from xknx import XKNX  # noqa: E402
from xknx.devices import Climate, ClimateMode, Device  # noqa: E402
from xknx.dpt import DPTArray  # noqa: E402
from xknx.dpt.dpt_20 import HVACOperationMode  # noqa: E402
from xknx.telegram import GroupAddress, Telegram, TelegramDirection  # noqa: E402
from xknx.telegram.apci import GroupValueWrite  # noqa: E402

GA_TEMP = GroupAddress("2/1/1")
GA_OP_MODE = GroupAddress("2/1/2")
GA_CTRL_MODE = GroupAddress("2/1/3")
ALL = (GA_TEMP, GA_OP_MODE, GA_CTRL_MODE)


def _naive(xknx: XKNX, address: GroupAddress) -> list[Device]:
    """The oracle of the property: scan the registered devices."""
    return [dev for dev in xknx.devices if dev.has_group_address(address)]


def _mode(xknx: XKNX) -> ClimateMode:
    return ClimateMode(
        xknx,
        "mode",
        group_address_operation_mode="2/1/2",
        group_address_controller_mode="2/1/3",
    )


def _operation_mode_telegram() -> Telegram:
    return Telegram(
        destination_address=GA_OP_MODE,
        payload=GroupValueWrite(DPTArray(0x01)),  # DPT 20.102: 1 = comfort
        direction=TelegramDirection.INCOMING,
    )


async def test_mode_attached_after_registration_never_gets_its_telegrams() -> None:
    """add(climate); climate.mode = ClimateMode(...); telegram to the mode address."""
    xknx = XKNX()
    climate = Climate(xknx, "climate", group_address_temperature="2/1/1")
    xknx.devices.async_add(climate)
    climate.mode = _mode(xknx)

    assert climate.has_group_address(GA_OP_MODE)  # the device uses the address

    await xknx.telegram_queue.process_telegram_incoming(_operation_mode_telegram())

    indexed = list(xknx.devices.devices_by_group_address(GA_OP_MODE))
    assert indexed == _naive(xknx, GA_OP_MODE) and (
        climate.mode.operation_mode is HVACOperationMode.COMFORT
    ), (
        f"OBSERVED: registry dispatches {GA_OP_MODE} to {indexed}, operation_mode stays "
        f"{climate.mode.operation_mode!r}; the naive scan of the registered devices says "
        f"{[d.name for d in _naive(xknx, GA_OP_MODE)]} use that address "
        "(Climate.has_group_address() is True, Climate.process_group_write() forwards to "
        "self.mode). REQUIRED (C37): the telegram is processed by exactly the registered "
        "devices that use its group address."
    )


def test_registered_climate_can_not_be_removed_and_registry_is_torn() -> None:
    """add(climate); attach mode; remove(climate) -> KeyError, half removed."""
    xknx = XKNX()
    climate = Climate(xknx, "climate", group_address_temperature="2/1/1")
    xknx.devices.async_add(climate)
    climate.mode = _mode(xknx)

    error: Exception | None = None
    try:
        xknx.devices.async_remove(climate)
    except Exception as err:  # pylint: disable=broad-except
        error = err

    registered = list(xknx.devices)
    index = {str(ga): list(xknx.devices.devices_by_group_address(ga)) for ga in ALL}
    naive = {str(ga): _naive(xknx, ga) for ga in ALL}
    assert error is None and index == naive, (
        f"OBSERVED: async_remove() of a registered device raised {error!r}; afterwards "
        f"registered devices = {[d.name for d in registered]}, index = "
        f"{ {k: [d.name for d in v] for k, v in index.items()} }, naive scan = "
        f"{ {k: [d.name for d in v] for k, v in naive.items()} } (the device was dropped "
        "from the device list before the index cleanup blew up, so depending on set "
        "order it is still indexed). REQUIRED (C37): removing a registered device "
        "succeeds; only removing an unregistered one raises (ValueError) - and then "
        "nothing changes; dispatch always equals the naive scan."
    )


async def test_removed_climate_still_gets_telegrams_after_mode_was_detached() -> None:
    """add(climate with mode); climate.mode = None; remove(climate); telegram."""
    xknx = XKNX()
    climate = Climate(
        xknx, "climate", group_address_temperature="2/1/1", mode=_mode(xknx)
    )
    xknx.devices.async_add(climate)
    climate.mode = None  # e.g. the application drops the mode support
    xknx.devices.async_remove(climate)  # succeeds silently
    assert climate not in xknx.devices
    assert len(xknx.devices) == 0

    processed: list[Telegram] = []
    original = climate.process

    def spy(telegram: Telegram) -> None:
        processed.append(telegram)
        original(telegram)

    climate.process = spy  # type: ignore[method-assign]

    await xknx.telegram_queue.process_telegram_incoming(_operation_mode_telegram())

    indexed = list(xknx.devices.devices_by_group_address(GA_OP_MODE))
    assert not processed and not indexed, (
        f"OBSERVED: the registry is empty (len={len(xknx.devices)}), but a telegram to "
        f"{GA_OP_MODE} was still handed to the removed device "
        f"{[d.name for d in indexed]} ({len(processed)} process() call(s)) - "
        "async_remove() only un-indexes the addresses the device reports *now*, the "
        "entries made at async_add() time leak. REQUIRED (C37): a telegram is processed "
        "by exactly the *registered* devices; a removed device gets nothing."
    )
