"""C37 hunt 3: the group address index goes stale and a failed removal corrupts the registry.

Devices keeps an index {group address -> devices} built once in async_add() from
device.group_addresses(). `Climate.mode` is a plain public attribute that is part of
Climate.group_addresses() / Climate.has_group_address(); assigning it after the Climate was
added makes index and devices disagree:
 1. telegrams to the new mode's address are not dispatched to the registered Climate,
 2. after detaching the mode, async_remove(climate) leaves the Climate in the index of the
    old mode's address - the unregistered device keeps receiving telegrams forever
    (with a replaced instead of a detached mode async_remove() additionally raises KeyError
    after having already dropped the device from the device list).
"""

from unittest.mock import AsyncMock, Mock, patch

from xknx import XKNX
from xknx.devices import Climate, ClimateMode
from xknx.dpt import DPTArray
from xknx.telegram import GroupAddress, Telegram
from xknx.telegram.apci import GroupValueWrite

GA_TEMP = GroupAddress("1/1/1")
GA_MODE = GroupAddress("1/1/2")


def _xknx() -> XKNX:
    interface = Mock()
    interface.start = AsyncMock()
    interface.stop = AsyncMock()
    interface.send_cemi = AsyncMock()
    with patch("xknx.xknx.knx_interface_factory", return_value=interface):
        return XKNX()


def _setup():
    xknx = _xknx()
    climate = Climate(xknx, "climate", group_address_temperature=GA_TEMP)
    xknx.devices.async_add(climate)
    # legal public API: attach the mode device after construction
    climate.mode = ClimateMode(xknx, "mode", group_address_operation_mode=GA_MODE)
    calls = []
    original = climate.process

    def process(telegram):
        calls.append(str(telegram.destination_address))
        original(telegram)

    climate.process = process
    return xknx, climate, calls


def _naive(xknx, group_address):
    return [d.name for d in xknx.devices if d.has_group_address(group_address)]


def test_registered_device_is_not_dispatched() -> None:
    xknx, climate, calls = _setup()
    xknx.devices.process(
        Telegram(destination_address=GA_MODE, payload=GroupValueWrite(DPTArray(1)))
    )
    expected = _naive(xknx, GA_MODE)
    assert expected == ["climate"]
    assert calls == ["1/1/2"], (
        f"observed: telegram to {GA_MODE} dispatched to {len(calls)} device(s); a naive scan "
        f"of the registered devices finds {expected} using this address - the property "
        "requires it to be processed exactly once by it"
    )


def test_removed_device_stays_in_dispatch() -> None:
    """Detach the mode of a registered Climate, then remove the Climate."""
    xknx = _xknx()
    mode = ClimateMode(xknx, "mode", group_address_operation_mode=GA_MODE)
    climate = Climate(xknx, "climate", group_address_temperature=GA_TEMP, mode=mode)
    xknx.devices.async_add(climate)
    calls = []
    original = climate.process

    def process(telegram):
        calls.append(str(telegram.destination_address))
        original(telegram)

    climate.process = process

    climate.mode = None
    xknx.devices.async_remove(climate)  # succeeds
    assert climate not in xknx.devices
    assert len(xknx.devices) == 0

    xknx.devices.process(
        Telegram(destination_address=GA_MODE, payload=GroupValueWrite(DPTArray(1)))
    )
    assert not calls, (
        f"observed: no device is registered, but the telegram to {GA_MODE} was dispatched to "
        f"the removed Climate {len(calls)} time(s) (stale index entry: "
        f"{list(xknx.devices.devices_by_group_address(GA_MODE))}); the property requires "
        "dispatch to exactly the registered devices"
    )
