"""
C44 hunt 2: an IndividualAddressResponse that was received inside the 3 s window is
thrown away when the event loop handles it in the same iteration in which the window's
timer expires - NM_IndividualAddress_Write then believes that exactly one device is in
programming mode and broadcasts the address to two devices.

Real library above the KNX/IP interface (XKNX, CEMIHandler, Management, BroadcastContext,
procedures); `xknx.knxip_interface` is a simulated bus feeding raw cEMI frames into
`CEMIHandler.handle_raw_cemi`; the loop clock is virtual.  A "blocking call" of another
component is modelled the way it looks to the event loop: the clock moves on by 200 ms
while no callback runs.

Run:  /venv/bin/python -m pytest -q -p no:cacheprovider hunt2.py
"""

from __future__ import annotations

import asyncio
from dataclasses import dataclass
import logging

import pytest

from xknx import XKNX
from xknx.cemi import CEMIFrame, CEMILData, CEMIMessageCode
from xknx.exceptions import ManagementConnectionError
from xknx.management.procedures import (
    nm_individual_address_read,
    nm_individual_address_write,
)
from xknx.telegram import GroupAddress, IndividualAddress, Telegram, apci, tpci

logging.getLogger("xknx").setLevel(logging.CRITICAL)

OWN = IndividualAddress("1.1.250")
TARGET = IndividualAddress("1.1.4")


class VirtualClock:
    """Deterministic loop clock: timers fire by advancing `now`, never by waiting."""

    def __init__(self, loop: asyncio.AbstractEventLoop) -> None:
        self.loop = loop
        self.now = 1000.0
        loop.time = lambda: self.now  # type: ignore[method-assign]

    def block_loop_for(self, seconds: float) -> None:
        """A callback that does not return for `seconds` (blocking I/O, heavy computation)."""
        self.now += seconds

    async def run_until_done(self, task: asyncio.Future) -> None:
        for _ in range(2000):
            for _ in range(100):
                await asyncio.sleep(0)
                if not self.loop._ready:  # type: ignore[attr-defined]
                    break
            if task.done():
                return
            pending = [h for h in self.loop._scheduled if not h._cancelled]  # type: ignore[attr-defined]
            if pending:
                self.now = max(self.now, min(h.when() for h in pending))
        raise AssertionError("procedure did not finish")


@dataclass
class Device:
    """A KNX device on the simulated bus (accepts connections, answers DD0 reads)."""

    name: str
    address: IndividualAddress
    programming_mode: bool
    response_delay: float  # bus latency of its A_IndividualAddress_Response
    connected: bool = False
    tx_seq: int = 0
    restarted: int = 0


class SimulatedBus:
    """Stands in for the KNX/IP interface: L_Data.con at once, device replies as L_Data.ind."""

    def __init__(self, xknx: XKNX, devices: list[Device]) -> None:
        self.xknx = xknx
        self.devices = devices
        self.address_writes: list[str] = []
        self.received_responses: list[str] = []
        self.t0 = 0.0

    async def send_cemi(self, cemi: CEMIFrame) -> None:
        assert isinstance(cemi.data, CEMILData)
        loop = asyncio.get_running_loop()
        confirmation = CEMIFrame(code=CEMIMessageCode.L_DATA_CON, data=cemi.data)
        loop.call_soon(self.xknx.cemi_handler.handle_raw_cemi, confirmation.to_knx())
        for delay, reply in self.react(cemi.data.telegram()):
            raw = CEMIFrame(
                code=CEMIMessageCode.L_DATA_IND, data=CEMILData.init_from_telegram(reply)
            ).to_knx()
            loop.call_later(delay, self.receive, reply, raw, loop.time() + delay)

    def receive(self, reply: Telegram, raw: bytes, on_the_wire: float) -> None:
        if isinstance(reply.payload, apci.IndividualAddressResponse):
            self.received_responses.append(
                f"{reply.source_address} (on the wire at t+{on_the_wire - self.t0:.2f}s, handed "
                f"to CEMIHandler before the 3 s timer callback ran)"
            )
        self.xknx.cemi_handler.handle_raw_cemi(raw)

    def react(self, telegram: Telegram) -> list[tuple[float, Telegram]]:
        replies: list[tuple[float, Telegram]] = []
        if isinstance(telegram.tpci, tpci.TDataBroadcast):
            if isinstance(telegram.payload, apci.IndividualAddressRead):
                self.t0 = asyncio.get_running_loop().time()
                for dev in self.devices:
                    if dev.programming_mode:
                        replies.append(
                            (
                                dev.response_delay,
                                Telegram(
                                    source_address=dev.address,
                                    destination_address=GroupAddress("0/0/0"),
                                    tpci=tpci.TDataBroadcast(),
                                    payload=apci.IndividualAddressResponse(),
                                ),
                            )
                        )
            elif isinstance(telegram.payload, apci.IndividualAddressWrite):
                in_pgm = [d for d in self.devices if d.programming_mode]
                self.address_writes.append(
                    f"IndividualAddressWrite({telegram.payload.address}) while "
                    f"{[d.name for d in in_pgm]} are in programming mode"
                )
                for dev in in_pgm:
                    dev.address = telegram.payload.address
            return replies
        for dev in self.devices:
            if dev.address != telegram.destination_address:
                continue
            if isinstance(telegram.tpci, tpci.TConnect):
                dev.connected, dev.tx_seq = True, 0
            elif isinstance(telegram.tpci, tpci.TDisconnect):
                dev.connected = False
            elif isinstance(telegram.tpci, tpci.TDataConnected) and dev.connected:
                replies.append(
                    (
                        0.02,
                        Telegram(
                            source_address=dev.address,
                            destination_address=OWN,
                            tpci=tpci.TAck(telegram.tpci.sequence_number),
                        ),
                    )
                )
                if isinstance(telegram.payload, apci.DeviceDescriptorRead):
                    replies.append(
                        (
                            0.04,
                            Telegram(
                                source_address=dev.address,
                                destination_address=OWN,
                                tpci=tpci.TDataConnected(dev.tx_seq),
                                payload=apci.DeviceDescriptorResponse(descriptor=0, value=0x07B0),
                            ),
                        )
                    )
                    dev.tx_seq = (dev.tx_seq + 1) & 0xF
                elif isinstance(telegram.payload, apci.Restart):
                    dev.restarted += 1
                    dev.programming_mode = False
                    dev.connected = False
        return replies


def make_bus(second_delay: float) -> tuple[XKNX, SimulatedBus]:
    xknx = XKNX()
    xknx.current_address = OWN
    bus = SimulatedBus(
        xknx,
        [
            Device("dev_a", IndividualAddress("15.15.255"), True, response_delay=0.02),
            # second device in programming mode, reached through a congested coupler
            Device("dev_b", IndividualAddress("2.3.7"), True, response_delay=second_delay),
        ],
    )
    xknx.knxip_interface = bus  # type: ignore[assignment]
    return xknx, bus


async def test_control_two_devices_in_programming_mode_are_detected() -> None:
    """Sanity check: same bus and same 2.9 s latency, but the loop is never busy."""
    xknx, bus = make_bus(second_delay=2.9)
    clock = VirtualClock(asyncio.get_running_loop())
    task = asyncio.ensure_future(nm_individual_address_write(xknx, TARGET))
    await clock.run_until_done(task)
    assert isinstance(task.exception(), ManagementConnectionError)
    assert "More than one" in str(task.exception())
    assert bus.address_writes == []


async def test_response_inside_window_is_lost_when_loop_is_busy_at_the_deadline() -> None:
    """nm_individual_address_read drops a response that reached xknx 100 ms before the deadline."""
    xknx, bus = make_bus(second_delay=2.9)
    loop = asyncio.get_running_loop()
    clock = VirtualClock(loop)
    task = asyncio.ensure_future(nm_individual_address_read(xknx))
    await asyncio.sleep(0)  # IndividualAddressRead is on the bus, window is open
    # 2.85 s into the window something unrelated blocks the loop for 200 ms
    loop.call_later(2.85, clock.block_loop_for, 0.2)
    await clock.run_until_done(task)
    assert len(task.result()) == 2, (
        f"xknx received IndividualAddressResponses {bus.received_responses} - both inside "
        f"the 3 s window, both processed by Management before the window's timer - but nm_individual_address_read returned only {task.result()}; "
        f"the response queued in BroadcastContext.queue when the timeout fired was discarded"
    )


async def test_address_write_programs_two_devices_when_loop_is_busy_at_the_deadline() -> None:
    """C44: write only when exactly one device is in programming mode."""
    xknx, bus = make_bus(second_delay=2.9)
    loop = asyncio.get_running_loop()
    clock = VirtualClock(loop)
    task = asyncio.ensure_future(nm_individual_address_write(xknx, TARGET))

    # wait (in virtual time) until the address check is over and the
    # IndividualAddressRead broadcast went out, then arm the 200 ms blocking call
    for _ in range(2000):
        await asyncio.sleep(0)
        if bus.t0:
            break
        if not loop._ready:  # type: ignore[attr-defined]
            pending = [h for h in loop._scheduled if not h._cancelled]  # type: ignore[attr-defined]
            clock.now = max(clock.now, min(h.when() for h in pending))
    assert bus.t0, "IndividualAddressRead never sent"
    loop.call_later(2.85, clock.block_loop_for, 0.2)

    await clock.run_until_done(task)
    outcome = task.exception() or "returned normally"
    holders = [d.name for d in bus.devices if d.address == TARGET]
    assert bus.address_writes == [], (
        f"property C44 requires a write only when exactly one device is in programming "
        f"mode; xknx received the responses {bus.received_responses} (two devices, both "
        f"inside the 3 s window), yet it sent {bus.address_writes}; devices now holding "
        f"{TARGET}: {holders}; nm_individual_address_write {outcome!r}"
    )


if __name__ == "__main__":
    raise SystemExit(pytest.main(["-q", "-p", "no:cacheprovider", __file__]))
