"""C44 hunt 1: a device that acknowledges on the target address is treated as absent.

Bus: device A at 1.1.4 (not in programming mode) accepts the transport connection and
T_ACKs the A_DeviceDescriptor_Read but never sends the A_DeviceDescriptor_Response;
device B at 15.15.255 is in programming mode. nm_individual_address_write(1.1.4)
must not write (1.1.4 is demonstrably in use - the T_ACK came from 1.1.4).
"""

import asyncio
import sys

sys.path.insert(0, "/tmp/hunt_C44/hunt_work")

from simbus import Bus, Device, make_xknx, run  # noqa: E402

from xknx.management.procedures.network import nm_individual_address_write  # noqa: E402
from xknx.telegram import IndividualAddress, tpci  # noqa: E402

TARGET = IndividualAddress("1.1.4")


def test_ack_only_device_on_target_address_is_overwritten() -> None:
    """The address check must treat a T_ACK from the target address as 'occupied'."""
    out: dict = {}

    async def main() -> None:
        xknx = make_xknx()
        dev_a = Device(TARGET, prog=False, on_connect="accept", on_data="ack_only", name="A")
        dev_b = Device(IndividualAddress("15.15.255"), prog=True, name="B")
        bus = Bus(xknx, [dev_a, dev_b])
        xknx.knxip_interface.send_cemi = bus.send_cemi
        acks_from_target = []
        orig = xknx.management.process

        def spy(telegram):  # record what the library was shown
            if isinstance(telegram.tpci, tpci.TAck) and telegram.source_address == TARGET:
                acks_from_target.append(telegram)
            orig(telegram)

        xknx.management.process = spy
        try:
            await nm_individual_address_write(xknx, TARGET)
            out["exc"] = None
        except Exception as exc:  # noqa: BLE001
            out["exc"] = exc
        await asyncio.sleep(1)
        out.update(bus=bus, a=dev_a, b=dev_b, acks=len(acks_from_target))

    run(main)
    bus = out["bus"]
    assert out["acks"] >= 1, "simulation error: library never saw the T_ACK of 1.1.4"
    assert not bus.writes, (
        f"observed: A_IndividualAddress_Write({TARGET}) was broadcast although a device at "
        f"{TARGET} acknowledged the library's own telegram ({out['acks']} T_ACK seen); bus at "
        f"write time {bus.writes[0][1]}, afterwards A={out['a'].address} B={out['b'].address} "
        f"(two devices on one address), restarted={bus.restart_events}, result={out['exc']!r}. "
        "The property requires a write only when no other device already uses the address."
    )
