"""
C44 hunt 3: the address check reports "free" although the device at that address
ANSWERED the A_DeviceDescriptor_Read - only its two T_ACK frames did not make it.
NM_IndividualAddress_Write then hands the occupied address to the device in
programming mode.

KNX 03.05.02 §2.3 step 1 / §2.19: an A_DeviceDescriptor_Response (or A_Disconnect) from
the address means "occupied"; only silence means "free".  xknx received the response
(and even acknowledged it with a T_ACK of its own), but P2PConnection.send_data raises
ManagementConnectionTimeout("No ACK received for repeated telegram") before request()
looks at the response, and nm_individual_address_check_conn maps every
ManagementConnectionTimeout to "no device".

Real library above the KNX/IP interface; `xknx.knxip_interface` is a simulated bus feeding
raw cEMI frames into `CEMIHandler.handle_raw_cemi`; the loop clock is virtual.

Run:  /venv/bin/python -m pytest -q -p no:cacheprovider hunt3.py
"""

from __future__ import annotations

import asyncio
from dataclasses import dataclass
import logging

import pytest

from xknx import XKNX
from xknx.cemi import CEMIFrame, CEMILData, CEMIMessageCode
from xknx.management.procedures import (
    nm_individual_address_check,
    nm_individual_address_write,
)
from xknx.telegram import GroupAddress, IndividualAddress, Telegram, apci, tpci

logging.getLogger("xknx").setLevel(logging.CRITICAL)
logging.getLogger("asyncio").setLevel(logging.CRITICAL)

OWN = IndividualAddress("1.1.250")
TARGET = IndividualAddress("1.1.4")
FACTORY = IndividualAddress("15.15.255")


class VirtualClock:
    """Deterministic loop clock: timers fire by advancing `now`, never by waiting."""

    def __init__(self, loop: asyncio.AbstractEventLoop) -> None:
        self.loop = loop
        self.now = 1000.0
        loop.time = lambda: self.now  # type: ignore[method-assign]

    async def run_until_done(self, task: asyncio.Future) -> None:
        for _ in range(2000):
            for _ in range(100):
                await asyncio.sleep(0)
                if not self.loop._ready:  # type: ignore[attr-defined]
                    break
            if task.done():
                return
            pending = [h for h in self.loop._scheduled if not h._cancelled]  # type: ignore[attr-defined]
            if pending:
                self.now = max(self.now, min(h.when() for h in pending))
        raise AssertionError("procedure did not finish")


@dataclass
class Device:
    """A KNX device on the simulated bus; behaves per KNX transport layer style 1."""

    name: str
    address: IndividualAddress
    programming_mode: bool
    t_ack_reaches_xknx: bool  # False: its T_ACK frames are lost on the way
    connected: bool = False
    rx_seq: int = 0
    tx_seq: int = 0
    restarted: int = 0


class SimulatedBus:
    """Stands in for the KNX/IP interface: L_Data.con at once, device replies as L_Data.ind."""

    def __init__(self, xknx: XKNX, devices: list[Device]) -> None:
        self.xknx = xknx
        self.devices = devices
        self.address_writes: list[str] = []
        self.delivered: list[str] = []
        self.sent_by_xknx: list[str] = []
        self.t0: float | None = None

    async def send_cemi(self, cemi: CEMIFrame) -> None:
        assert isinstance(cemi.data, CEMILData)
        loop = asyncio.get_running_loop()
        if self.t0 is None:
            self.t0 = loop.time()
        telegram = cemi.data.telegram()
        self.sent_by_xknx.append(
            f"t+{loop.time() - self.t0:.2f}s {telegram.destination_address} "
            f"{telegram.tpci!r} {telegram.payload or ''}"
        )
        confirmation = CEMIFrame(code=CEMIMessageCode.L_DATA_CON, data=cemi.data)
        loop.call_soon(self.xknx.cemi_handler.handle_raw_cemi, confirmation.to_knx())
        for delay, reply in self.react(telegram):
            raw = CEMIFrame(
                code=CEMIMessageCode.L_DATA_IND, data=CEMILData.init_from_telegram(reply)
            ).to_knx()
            loop.call_later(delay, self.receive, reply, raw)

    def receive(self, reply: Telegram, raw: bytes) -> None:
        assert self.t0 is not None
        self.delivered.append(
            f"t+{asyncio.get_running_loop().time() - self.t0:.2f}s from "
            f"{reply.source_address}: {reply.tpci!r} {reply.payload or ''}"
        )
        self.xknx.cemi_handler.handle_raw_cemi(raw)

    def react(self, telegram: Telegram) -> list[tuple[float, Telegram]]:
        replies: list[tuple[float, Telegram]] = []
        if isinstance(telegram.tpci, tpci.TDataBroadcast):
            if isinstance(telegram.payload, apci.IndividualAddressRead):
                for dev in self.devices:
                    if dev.programming_mode:
                        replies.append(
                            (
                                0.02,
                                Telegram(
                                    source_address=dev.address,
                                    destination_address=GroupAddress("0/0/0"),
                                    tpci=tpci.TDataBroadcast(),
                                    payload=apci.IndividualAddressResponse(),
                                ),
                            )
                        )
            elif isinstance(telegram.payload, apci.IndividualAddressWrite):
                new = telegram.payload.address
                users = [
                    d.name for d in self.devices if d.address == new and not d.programming_mode
                ]
                self.address_writes.append(
                    f"IndividualAddressWrite({new}) although {users or 'nobody'} already "
                    f"use(s) that address"
                )
                for dev in self.devices:
                    if dev.programming_mode:
                        dev.address = new
            return replies
        for dev in self.devices:
            if dev.address != telegram.destination_address:
                continue
            if isinstance(telegram.tpci, tpci.TConnect):
                dev.connected, dev.rx_seq, dev.tx_seq = True, 0, 0
            elif isinstance(telegram.tpci, tpci.TDisconnect):
                dev.connected = False
            elif isinstance(telegram.tpci, tpci.TDataConnected) and dev.connected:
                seq = telegram.tpci.sequence_number
                repetition = seq == ((dev.rx_seq - 1) & 0xF)
                if seq != dev.rx_seq and not repetition:
                    continue
                if dev.t_ack_reaches_xknx:
                    replies.append(
                        (
                            0.02,
                            Telegram(
                                source_address=dev.address,
                                destination_address=OWN,
                                tpci=tpci.TAck(seq),
                            ),
                        )
                    )
                if repetition:
                    continue  # acknowledged again, not executed again
                dev.rx_seq = (dev.rx_seq + 1) & 0xF
                if isinstance(telegram.payload, apci.DeviceDescriptorRead):
                    replies.append(
                        (
                            0.04,
                            Telegram(
                                source_address=dev.address,
                                destination_address=OWN,
                                tpci=tpci.TDataConnected(dev.tx_seq),
                                payload=apci.DeviceDescriptorResponse(descriptor=0, value=0x07B0),
                            ),
                        )
                    )
                    dev.tx_seq = (dev.tx_seq + 1) & 0xF
                elif isinstance(telegram.payload, apci.Restart):
                    dev.restarted += 1
                    dev.programming_mode = False
                    dev.connected = False
        return replies


def make_bus(occupant_acks_arrive: bool) -> tuple[XKNX, SimulatedBus]:
    xknx = XKNX()
    xknx.current_address = OWN
    bus = SimulatedBus(
        xknx,
        [
            Device("occupant", TARGET, False, t_ack_reaches_xknx=occupant_acks_arrive),
            Device("newcomer", FACTORY, True, t_ack_reaches_xknx=True),
        ],
    )
    xknx.knxip_interface = bus  # type: ignore[assignment]
    return xknx, bus


async def test_control_with_t_ack_the_occupied_address_is_not_written() -> None:
    """Sanity check of the simulation: same bus, T_ACKs arrive."""
    xknx, bus = make_bus(occupant_acks_arrive=True)
    clock = VirtualClock(asyncio.get_running_loop())
    task = asyncio.ensure_future(nm_individual_address_write(xknx, TARGET))
    await clock.run_until_done(task)
    assert "A device was found with 1.1.4" in str(task.exception())
    assert bus.address_writes == []


async def test_address_check_ignores_received_descriptor_response() -> None:
    """The device answered - the address is occupied."""
    xknx, bus = make_bus(occupant_acks_arrive=False)
    clock = VirtualClock(asyncio.get_running_loop())
    task = asyncio.ensure_future(nm_individual_address_check(xknx, TARGET))
    await clock.run_until_done(task)
    assert task.result() is True, (
        f"xknx received {bus.delivered} from {TARGET} (and acknowledged it: "
        f"{[s for s in bus.sent_by_xknx if 'TAck' in s]}), i.e. the address is occupied, "
        f"but nm_individual_address_check returned {task.result()}"
    )


async def test_address_write_creates_conflict_although_the_owner_answered() -> None:
    """C44: no IndividualAddressWrite while another device already uses the address."""
    xknx, bus = make_bus(occupant_acks_arrive=False)
    clock = VirtualClock(asyncio.get_running_loop())
    task = asyncio.ensure_future(nm_individual_address_write(xknx, TARGET))
    await clock.run_until_done(task)
    outcome = task.exception() or "returned normally"
    before_write = []
    for entry in bus.delivered:
        if "IndividualAddressResponse" in entry:
            break
        before_write.append(entry)
    holders = [d.name for d in bus.devices if d.address == TARGET]
    assert bus.address_writes == [], (
        f"property C44 requires that the address is written only when no other device "
        f"already uses it; during the address check xknx received {before_write} - the "
        f"owner of {TARGET} answered the descriptor read - yet the procedure sent "
        f"{bus.address_writes}; devices now holding {TARGET}: {holders}; "
        f"nm_individual_address_write {outcome!r}"
    )


if __name__ == "__main__":
    raise SystemExit(pytest.main(["-q", "-p", "no:cacheprovider", __file__]))
