"""Simulated KNX bus below the real CEMIHandler (mock only at knxip_interface.send_cemi)."""
from __future__ import annotations

import asyncio
from dataclasses import dataclass, field
from unittest.mock import AsyncMock, Mock, patch

from xknx import XKNX
from xknx.cemi import CEMIFrame, CEMILData, CEMIMessageCode
from xknx.telegram import GroupAddress, IndividualAddress, Telegram, apci, tpci


class VirtualLoop(asyncio.SelectorEventLoop):
    """Event loop whose clock jumps to the next timer when idle."""

    def __init__(self) -> None:
        super().__init__()
        self._vt = 0.0
        orig = self._selector.select

        def select(timeout=None):
            if timeout and timeout > 0:
                self._vt += timeout
            return orig(0)

        self._selector.select = select

    def time(self) -> float:
        return self._vt



@dataclass
class Device:
    address: IndividualAddress
    prog: bool = False
    on_connect: str = "accept"  # accept | refuse | silent
    on_data: str = "respond"  # respond | ack_only | silent
    name: str = ""
    peer: IndividualAddress | None = None
    seq: int = 0
    restarts: int = 0
    log: list = field(default_factory=list)


class Bus:
    LATENCY = 0.01

    def __init__(self, xknx: XKNX, devices: list[Device]) -> None:
        self.xknx = xknx
        self.devices = devices
        self.sent: list[Telegram] = []
        self.writes: list[tuple[IndividualAddress, list[tuple[str, str, bool]]]] = []
        self.restart_events: list[tuple[str, str]] = []

    # ---- from xknx to bus
    async def send_cemi(self, cemi: CEMIFrame) -> None:
        loop = asyncio.get_running_loop()
        data = cemi.data
        assert isinstance(data, CEMILData)
        telegram = data.telegram()
        self.sent.append(telegram)
        # confirmation
        con = CEMIFrame(code=CEMIMessageCode.L_DATA_CON, data=data)
        loop.call_soon(self.xknx.cemi_handler.handle_cemi_frame, con)
        loop.call_later(self.LATENCY, self.deliver, telegram)

    def to_xknx(self, telegram: Telegram) -> None:
        data = CEMILData.init_from_telegram(telegram)
        frame = CEMIFrame(code=CEMIMessageCode.L_DATA_IND, data=data)
        raw = frame.to_knx()
        asyncio.get_running_loop().call_later(
            self.LATENCY, self.xknx.cemi_handler.handle_raw_cemi, bytes(raw)
        )

    def snapshot(self):
        return [(d.name, str(d.address), d.prog) for d in self.devices]

    def deliver(self, t: Telegram) -> None:
        own = t.source_address
        if isinstance(t.tpci, tpci.TDataBroadcast):
            if isinstance(t.payload, apci.IndividualAddressRead):
                for d in self.devices:
                    if d.prog:
                        self.to_xknx(
                            Telegram(
                                destination_address=GroupAddress(0),
                                source_address=d.address,
                                tpci=tpci.TDataBroadcast(),
                                payload=apci.IndividualAddressResponse(),
                            )
                        )
            elif isinstance(t.payload, apci.IndividualAddressWrite):
                self.writes.append((t.payload.address, self.snapshot()))
                for d in self.devices:
                    if d.prog:
                        d.address = t.payload.address
            return
        for d in self.devices:
            if d.address != t.destination_address:
                continue
            if isinstance(t.tpci, tpci.TConnect):
                if d.on_connect == "accept":
                    d.peer = own
                    d.seq = 0
                elif d.on_connect == "refuse":
                    self.to_xknx(
                        Telegram(
                            destination_address=own,
                            source_address=d.address,
                            tpci=tpci.TDisconnect(),
                        )
                    )
            elif isinstance(t.tpci, tpci.TDisconnect):
                d.peer = None
            elif isinstance(t.tpci, tpci.TDataConnected):
                if d.peer != own or d.on_data == "silent":
                    continue
                if d.on_data != "respond_no_ack":
                    self.to_xknx(
                        Telegram(
                            destination_address=own,
                            source_address=d.address,
                            tpci=tpci.TAck(t.tpci.sequence_number),
                        )
                    )
                if isinstance(t.payload, apci.Restart):
                    d.restarts += 1
                    d.prog = False
                    d.peer = None
                    self.restart_events.append((d.name, str(d.address)))
                elif (
                    isinstance(t.payload, apci.DeviceDescriptorRead)
                    and d.on_data in ("respond", "respond_no_ack")
                    and t.tpci.sequence_number == d.seq
                ):
                    self.to_xknx(
                        Telegram(
                            destination_address=own,
                            source_address=d.address,
                            tpci=tpci.TDataConnected(d.seq),
                            payload=apci.DeviceDescriptorResponse(
                                descriptor=0, value=0x07B0
                            ),
                        )
                    )
                    d.seq = (d.seq + 1) & 0xF


def make_xknx(own: str = "1.1.250") -> XKNX:
    def knx_ip_interface_mock() -> Mock:
        mock = Mock()
        mock.start = AsyncMock()
        mock.stop = AsyncMock()
        mock.send_cemi = AsyncMock()
        return mock

    with patch("xknx.xknx.knx_interface_factory", return_value=knx_ip_interface_mock()):
        xknx = XKNX()
    xknx.knxip_interface = knx_ip_interface_mock()
    xknx.current_address = IndividualAddress(own)
    return xknx


def run(coro_factory):
    loop = VirtualLoop()
    asyncio.set_event_loop(loop)
    try:
        return loop.run_until_complete(coro_factory())
    finally:
        loop.close()
        asyncio.set_event_loop(None)
