import itertools, sys, logging
sys.path.insert(0, "/tmp/hunt_C44"); sys.path.insert(0, "/tmp/hunt_C44/hunt_work")
from simbus import *
from xknx.management.procedures.network import nm_individual_address_write
logging.disable(logging.CRITICAL)
TARGET = IndividualAddress("1.1.4")
ADDRS = ["1.1.4", "1.1.5", "15.15.255"]
BEH = [("accept","respond"),("accept","ack_only"),("accept","silent"),("refuse","respond"),("silent","respond")]

def one(specs):
    result = {}
    async def main():
        xknx = make_xknx()
        devs = [Device(IndividualAddress(a), prog=p, on_connect=c, on_data=dd, name=f"d{i}") for i,(a,p,(c,dd)) in enumerate(specs)]
        bus = Bus(xknx, devs)
        xknx.knxip_interface.send_cemi = bus.send_cemi
        try:
            await nm_individual_address_write(xknx, TARGET)
            result["exc"] = None
        except Exception as e:
            result["exc"] = repr(e)
        await asyncio.sleep(1)
        result["bus"] = bus
        result["conns"] = dict(xknx.management._connections)
    run(main)
    return result

def main_loop():
    viol = 0; n = 0
    for k in range(0, int(sys.argv[1]) if len(sys.argv) > 1 else 4):
        for specs in itertools.product(itertools.product(ADDRS,[False,True],BEH), repeat=k):
            if list(specs) != sorted(specs): continue
            n += 1
            r = one(specs)
            bus = r["bus"]
            msgs = []
            for addr, snap in bus.writes:
                progs = [s for s in snap if s[2]]
                if len(progs) != 1: msgs.append(f"write with {len(progs)} prog devices")
                beh = {f'd{i}': sp[2] for i, sp in enumerate(specs)}
                others = [s for s in snap if s[1]==str(addr) and not (progs and s[0]==progs[0][0]) and beh[s[0]] in (('accept','respond'),('accept','ack_only'),('refuse','respond'))]
                if others: msgs.append(f"write though {others} already use {addr}")
            for name, a in bus.restart_events:
                if a != str(TARGET): msgs.append(f"restart of {name} at {a}")
            if r["conns"]: msgs.append("leftover connections")
            if msgs:
                viol += 1
                if viol < 60: print(specs, r["exc"], msgs)
    print(n, "cases", viol, "violations")

if __name__ == "__main__":
    main_loop()
