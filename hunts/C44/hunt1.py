"""
C44 hunt 1: a connection refusal that arrives while Management.connect() still awaits
the confirmation of its own T_Connect is dropped - the occupied address is judged free
and NM_IndividualAddress_Write broadcasts it to the device in programming mode.

Everything above the KNX/IP interface is the real library: XKNX, CEMIHandler (with its
L_Data.con wait), Management, P2PConnection and the procedures.  Only
`xknx.knxip_interface.send_cemi` is replaced by a simulated bus that hands raw cEMI
frames back through `CEMIHandler.handle_raw_cemi`, and the event loop clock is virtual.

Run:  /venv/bin/python -m pytest -q -p no:cacheprovider hunt1.py
"""

from __future__ import annotations

import asyncio
from dataclasses import dataclass
import logging

import pytest

from xknx import XKNX
from xknx.cemi import CEMIFrame, CEMILData, CEMIMessageCode
from xknx.management.procedures import (
    nm_individual_address_check,
    nm_individual_address_write,
)
from xknx.telegram import GroupAddress, IndividualAddress, Telegram, apci, tpci

logging.getLogger("xknx").setLevel(logging.CRITICAL)

OWN = IndividualAddress("1.1.250")
TARGET = IndividualAddress("1.1.4")
FACTORY = IndividualAddress("15.15.255")


class VirtualClock:
    """Deterministic loop clock: timers fire by advancing `now`, never by waiting."""

    def __init__(self, loop: asyncio.AbstractEventLoop) -> None:
        self.loop = loop
        self.now = 1000.0
        loop.time = lambda: self.now  # type: ignore[method-assign]

    async def run_until_done(self, task: asyncio.Task) -> None:
        for _ in range(2000):
            for _ in range(100):
                await asyncio.sleep(0)
                if not self.loop._ready:  # type: ignore[attr-defined]
                    break
            if task.done():
                return
            pending = [h for h in self.loop._scheduled if not h._cancelled]  # type: ignore[attr-defined]
            if pending:
                self.now = max(self.now, min(h.when() for h in pending))
        raise AssertionError("procedure did not finish")


@dataclass
class Device:
    """A KNX device on the simulated bus."""

    name: str
    address: IndividualAddress
    programming_mode: bool
    accepts_connections: bool  # False: answers T_Connect with T_Disconnect
    connected: bool = False
    tx_seq: int = 0
    restarted: int = 0


class SimulatedBus:
    """
    Stands in for the KNX/IP interface.

    Every L_Data.req is confirmed with L_Data.con; device reactions follow as L_Data.ind.
    `replies_with_confirmation=True` models a KNX/IP server whose L_Data.con and the
    device's reply reach xknx in the same transport read (one TCP segment holding both
    KNX/IP frames - TCPTransport.data_received_callback handles them back to back; or two
    frames queued by the `threaded` interface before the main loop runs) - i.e. the reply
    is processed before the coroutine waiting for the confirmation is resumed.
    `False` delivers the reply one bus frame time (20 ms) later.
    """

    def __init__(
        self, xknx: XKNX, devices: list[Device], replies_with_confirmation: bool
    ) -> None:
        self.xknx = xknx
        self.devices = devices
        self.replies_with_confirmation = replies_with_confirmation
        self.address_writes: list[str] = []
        self.log: list[str] = []

    # -- the only mocked library boundary -------------------------------------------
    async def send_cemi(self, cemi: CEMIFrame) -> None:
        assert isinstance(cemi.data, CEMILData)
        loop = asyncio.get_running_loop()
        confirmation = CEMIFrame(code=CEMIMessageCode.L_DATA_CON, data=cemi.data)
        replies = [
            CEMIFrame(
                code=CEMIMessageCode.L_DATA_IND,
                data=CEMILData.init_from_telegram(reply),
            ).to_knx()
            for reply in self.react(cemi.data.telegram())
        ]
        if self.replies_with_confirmation:
            loop.call_soon(self.receive, [confirmation.to_knx(), *replies])
        else:
            loop.call_soon(self.receive, [confirmation.to_knx()])
            if replies:
                loop.call_later(0.02, self.receive, replies)

    def receive(self, raw_frames: list[bytes]) -> None:
        for raw in raw_frames:
            self.xknx.cemi_handler.handle_raw_cemi(raw)

    # -- device behaviour -----------------------------------------------------------
    def react(self, telegram: Telegram) -> list[Telegram]:
        self.log.append(f"-> {telegram.destination_address} {telegram.tpci!r} {telegram.payload}")
        replies: list[Telegram] = []
        if isinstance(telegram.tpci, tpci.TDataBroadcast):
            if isinstance(telegram.payload, apci.IndividualAddressRead):
                for dev in self.devices:
                    if dev.programming_mode:
                        replies.append(
                            Telegram(
                                source_address=dev.address,
                                destination_address=GroupAddress("0/0/0"),
                                tpci=tpci.TDataBroadcast(),
                                payload=apci.IndividualAddressResponse(),
                            )
                        )
            elif isinstance(telegram.payload, apci.IndividualAddressWrite):
                new = telegram.payload.address
                in_pgm = [d for d in self.devices if d.programming_mode]
                users = [
                    d for d in self.devices if d.address == new and not d.programming_mode
                ]
                self.address_writes.append(
                    f"IndividualAddressWrite({new}) with {len(in_pgm)} device(s) in "
                    f"programming mode, address already used by "
                    f"{[d.name for d in users] or 'nobody'}"
                )
                for dev in in_pgm:
                    dev.address = new
            return replies
        for dev in self.devices:
            if dev.address != telegram.destination_address:
                continue
            if isinstance(telegram.tpci, tpci.TConnect):
                if dev.accepts_connections:
                    dev.connected, dev.tx_seq = True, 0
                else:
                    replies.append(self._ctrl(dev, tpci.TDisconnect()))
            elif isinstance(telegram.tpci, tpci.TDisconnect):
                dev.connected = False
            elif isinstance(telegram.tpci, tpci.TDataConnected) and dev.connected:
                replies.append(self._ctrl(dev, tpci.TAck(telegram.tpci.sequence_number)))
                if isinstance(telegram.payload, apci.DeviceDescriptorRead):
                    replies.append(
                        Telegram(
                            source_address=dev.address,
                            destination_address=OWN,
                            tpci=tpci.TDataConnected(dev.tx_seq),
                            payload=apci.DeviceDescriptorResponse(descriptor=0, value=0x07B0),
                        )
                    )
                    dev.tx_seq = (dev.tx_seq + 1) & 0xF
                elif isinstance(telegram.payload, apci.Restart):
                    dev.restarted += 1
                    dev.programming_mode = False
                    dev.connected = False
            # T_Data_Connected on a closed connection: ignored (KNX TL style 1, action A00)
        return replies

    @staticmethod
    def _ctrl(dev: Device, control: tpci.TPCI) -> Telegram:
        return Telegram(source_address=dev.address, destination_address=OWN, tpci=control)


def make_bus(replies_with_confirmation: bool) -> tuple[XKNX, SimulatedBus, Device, Device]:
    xknx = XKNX()
    xknx.current_address = OWN
    occupant = Device("occupant", TARGET, programming_mode=False, accepts_connections=False)
    newcomer = Device("newcomer", FACTORY, programming_mode=True, accepts_connections=True)
    bus = SimulatedBus(xknx, [occupant, newcomer], replies_with_confirmation)
    # KNXIPInterface uses __slots__ - swap the whole interface for the simulated bus
    xknx.knxip_interface = bus  # type: ignore[assignment]
    return xknx, bus, occupant, newcomer


async def test_control_refusal_one_frame_time_later_is_honoured() -> None:
    """Sanity check of the simulation: same bus, reply 20 ms after the confirmation."""
    xknx, bus, occupant, newcomer = make_bus(replies_with_confirmation=False)
    clock = VirtualClock(asyncio.get_running_loop())
    task = asyncio.ensure_future(nm_individual_address_write(xknx, TARGET))
    await clock.run_until_done(task)
    assert "A device was found with 1.1.4" in str(task.exception())
    assert bus.address_writes == []
    assert newcomer.address == FACTORY


async def test_address_check_loses_refusal_arriving_with_the_confirmation() -> None:
    """nm_individual_address_check must report an address whose owner refused the connection."""
    xknx, bus, occupant, newcomer = make_bus(replies_with_confirmation=True)
    clock = VirtualClock(asyncio.get_running_loop())
    task = asyncio.ensure_future(nm_individual_address_check(xknx, TARGET))
    await clock.run_until_done(task)
    assert task.result() is True, (
        f"device 'occupant' at {TARGET} answered the T_Connect with T_Disconnect (address "
        f"occupied per KNX 03.05.02 §2.3 step 1), but nm_individual_address_check returned "
        f"{task.result()} - the T_Disconnect was received before Management.connect() had "
        f"registered the connection and was dropped as 'unhandled'. Bus log: {bus.log}"
    )


async def test_address_write_creates_conflict_when_refusal_arrives_with_the_confirmation() -> None:
    """C44: no IndividualAddressWrite while another device already uses the address."""
    xknx, bus, occupant, newcomer = make_bus(replies_with_confirmation=True)
    clock = VirtualClock(asyncio.get_running_loop())
    task = asyncio.ensure_future(nm_individual_address_write(xknx, TARGET))
    await clock.run_until_done(task)
    outcome = task.exception() or "returned normally"
    holders = [d.name for d in bus.devices if d.address == TARGET]
    assert bus.address_writes == [] and holders == ["occupant"], (
        f"property C44 requires that the address is written only when no other device "
        f"already uses it; device 'occupant' owns {TARGET} and refused the connection "
        f"attempt, yet the procedure sent {bus.address_writes}; devices now holding "
        f"{TARGET}: {holders}; nm_individual_address_write {outcome!r}"
    )


if __name__ == "__main__":
    raise SystemExit(pytest.main(["-q", "-p", "no:cacheprovider", __file__]))
