"""
C06 hunt 1 - A_Link_Write: the `delete` / `sending` flags are shifted into the flags
octet without being normalised or range checked.

`LinkWrite.to_knx()` builds the flags octet as `(self.delete << 1) | self.sending`.
Any truthy value that is not exactly 1 - e.g. the result of the very common
`delete=flags & 0b10` idiom, which is the int 2 - is not refused, it is moved into a
neighbouring bit: `delete=2` lands in a reserved bit (delete is lost), `sending=2`
lands in the `delete` bit (an "add" request becomes a "delete" request on the wire).
"""

from __future__ import annotations

import sys

import pytest

sys.path.insert(0, "/tmp/hunt_C06")

from xknx.telegram.address import GroupAddress
from xknx.telegram.apci import APCI, LinkWrite


def _encode_or_refuse(payload: APCI) -> bytes | None:
    """Return the encoded PDU or None if the encoder refused the object."""
    try:
        return bytes(payload.to_knx())
    except Exception:  # pylint: disable=broad-except
        return None  # refusing is fine for C06


@pytest.mark.parametrize(
    ("delete", "sending"),
    [
        # the add / delete decision is silently inverted
        (False, 0b10),  # "add, not sending" is encoded as "delete"
        (0b10, False),  # "delete" is encoded as "add" + a reserved bit
        (0b10, True),  # "delete" is encoded as "add as sending address"
        # what a caller gets from masking a flags octet: flags & 0b10, flags & 0b01
        (0b11 & 0b10, 0b11 & 0b01),
        (4, False),
        (False, 4),
        (True, 2),
        (0x40, 0x80),
    ],
)
def test_link_write_flags_are_refused_or_round_trip(delete: int, sending: int) -> None:
    """C06: encoding refuses the object or the PDU decodes to an equal object."""
    payload = LinkWrite(
        group_object_number=5,
        group_address=GroupAddress("1/2/3"),
        delete=delete,  # type: ignore[arg-type]
        sending=sending,  # type: ignore[arg-type]
    )
    raw = _encode_or_refuse(payload)
    if raw is None:
        return
    decoded = APCI.from_knx(raw)
    assert isinstance(decoded, LinkWrite)
    assert (bool(decoded.delete), bool(decoded.sending)) == (
        bool(delete),
        bool(sending),
    ), (
        f"LinkWrite(delete={delete!r}, sending={sending!r}) was encoded without being "
        f"refused as {raw.hex()} (flags octet {raw[3]:#010b}) and decodes to "
        f"delete={decoded.delete}, sending={decoded.sending}: the flag was moved into a "
        "neighbouring / reserved bit. C06 requires the encoder to refuse the object or to "
        "produce a PDU that decodes back to an equal object - a field is never wrapped "
        "into a neighbouring field."
    )
    assert raw[3] & 0b11111100 == 0, (
        f"LinkWrite(delete={delete!r}, sending={sending!r}) set reserved bits in the "
        f"flags octet: {raw[3]:#010b}"
    )
