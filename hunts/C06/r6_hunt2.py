"""
C06 hunt 2 - A_GroupValue_Write / A_GroupValue_Response: a 6 bit value that does not
fit is silently truncated by `encode_cmd_and_payload()`.

All other services with data in the low six bits of the APCI (ADCRead, MemoryRead,
DeviceDescriptorRead, ...) range check the field in `to_knx()`.
GroupValueWrite / GroupValueResponse do not - they pass `self.value.value` straight to
`encode_cmd_and_payload()`, which does `encoded_payload & DPTBinary.APCI_BITMASK`.
The only guard is the constructor of DPTBinary; `DPTBinary.value` is a plain writable
slot, so a DPTBinary whose value was assigned after construction is truncated (0x41 -> 1),
wrapped (-1 -> 0x3F) or zeroed (0x140 -> 0) on the wire instead of being refused.
"""

from __future__ import annotations

import sys

import pytest

sys.path.insert(0, "/tmp/hunt_C06")

from xknx.dpt import DPTBinary
from xknx.telegram.apci import APCI, GroupValueResponse, GroupValueWrite


@pytest.mark.parametrize("service", [GroupValueWrite, GroupValueResponse])
@pytest.mark.parametrize("value", [0x40, 0x41, 0x7F, 0x140, 0xFF, 2**32, -1, -64])
def test_group_value_binary_is_refused_or_round_trips(
    service: type[GroupValueWrite | GroupValueResponse], value: int
) -> None:
    """C06: encoding refuses the object or the PDU decodes to an equal object."""
    binary = DPTBinary(0)
    binary.value = value  # one bit beyond the 6 bit wire field / negative
    payload = service(binary)
    try:
        raw = bytes(payload.to_knx())
    except Exception:  # pylint: disable=broad-except
        return  # refusing is fine for C06
    decoded = APCI.from_knx(raw)
    assert decoded == payload, (
        f"{service.__name__} with a 6 bit value of {value:#x} was encoded without being "
        f"refused as {raw.hex()} and decodes to {decoded} - the value was silently "
        f"truncated to {raw[1] & 0x3F:#x}. C06 requires the encoder to refuse a value "
        "that does not fit its wire field instead of truncating it."
    )
