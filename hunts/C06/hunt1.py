"""
C06 hunt 1: A_ADC_Response with a channel whose 6 bits turn the APCI into another service.

ADCResponse.to_knx() accepts every channel 0..63 and ORs it into the low 6 bits of
APCI 0x1C0. The codes 0x1C8-0x1CA, 0x1CC-0x1D6 and 0x1FB-0x1FE are dedicated
services (A_SystemNetworkParameter_*, A_PropertyExtValue_*, A_PropertyExtDescription_*,
A_FunctionPropertyExt*, A_MemoryExtended_*), and APCI.from_knx() dispatches on them
first. So for channel in {8,9,10,12..22,59..62} the channel field is wrapped into the
service code: the PDU that is produced is not an A_ADC_Response any more.
"""

from __future__ import annotations

import pytest

from xknx.cemi import CEMIFrame, CEMILData, CEMIMessageCode
from xknx.telegram import IndividualAddress, Telegram
from xknx.telegram.apci import APCI, ADCResponse
from xknx.telegram.tpci import TDataConnected


def _roundtrip_or_refuse(obj: APCI) -> None:
    """C06: encoding refuses the object or the PDU decodes back to an equal object."""
    try:
        raw = obj.to_knx()
    except Exception:  # noqa: BLE001 - any refusal is fine
        return
    try:
        back = APCI.from_knx(bytes(raw))
    except Exception as err:  # noqa: BLE001
        pytest.fail(
            f"{obj!r} was encoded without complaint to APDU {bytes(raw).hex()}, but that "
            f"PDU does not decode back: {err!r}. C06 requires encoding to either refuse "
            "the object or produce a PDU that decodes back to an equal object."
        )
    assert back == obj, (
        f"{obj!r} was encoded to APDU {bytes(raw).hex()} which decodes to {back!r}. "
        "C06 requires the decoded object to be equal to the encoded one."
    )


@pytest.mark.parametrize("channel", range(-1, 66))
def test_adc_response_channel_sweep(channel: int) -> None:
    """Sweep the 6 bit channel field across its wire width, one beyond and negative."""
    _roundtrip_or_refuse(ADCResponse(channel=channel, count=1, value=0x0123))


def test_adc_response_in_cemi_frame() -> None:
    """Same through the real frame encoder / decoder used on send and receive."""
    payload = ADCResponse(channel=8, count=4, value=1000)
    telegram = Telegram(
        destination_address=IndividualAddress("1.1.5"),
        source_address=IndividualAddress("1.1.1"),
        tpci=TDataConnected(sequence_number=2),
        payload=payload,
    )
    frame = CEMIFrame(
        code=CEMIMessageCode.L_DATA_REQ,
        data=CEMILData.init_from_telegram(telegram),
    )
    try:
        raw = frame.to_knx()  # unchanged tree: accepted - nothing is refused
    except Exception:  # noqa: BLE001 - a refusal satisfies C06
        return
    try:
        received = CEMIFrame.from_knx(raw)
    except Exception as err:  # noqa: BLE001
        pytest.fail(
            f"Frame carrying {payload!r} was serialized to {raw.hex()} - APCI octets "
            f"{raw[-5:-3].hex()} are A_SystemNetworkParameter_Read (0x1C8), not "
            f"A_ADC_Response - and the library's own parser rejects it: {err!r}. "
            "C06 requires encoding to refuse the object or to round-trip it."
        )
    assert isinstance(received.data, CEMILData)
    assert received.data.payload == payload, (
        f"sent {payload!r}, frame {raw.hex()} decodes to {received.data.payload!r}; "
        "C06 requires an equal object"
    )
