"""
C06 hunt 3 - A_Sec (SecureAPDU): the Security Control Field is assembled from unchecked
shifts, so a field beyond its wire width lands in the neighbouring field, and reserved
values produce a PDU that can not be decoded again.

`SecureAPDU.to_knx()` validates the lengths of sequence number and MAC, then calls
`SecurityControlField.to_knx()`:
    raw |= self.tool_access << 7; raw |= self.algorithm << 4
    raw |= self.system_broadcast << 3; raw |= self.service
`algorithm` and `service` are 3 bit integer (IntEnum) fields. One bit beyond (8) is not
refused: algorithm=8 sets `tool_access`, service=8 sets `system_broadcast`,
system_broadcast=2 sets the low bit of `algorithm`. In-width but reserved values
(algorithm 2..7, service 1, 4..7) are encoded and then rejected by the decoder.
"""

from __future__ import annotations

import sys

import pytest

sys.path.insert(0, "/tmp/hunt_C06")

from xknx.secure.data_secure_asdu import (
    SecureData,
    SecurityAlgorithmIdentifier,
    SecurityALService,
    SecurityControlField,
)
from xknx.telegram.apci import APCI, SecureAPDU

ENC = SecurityAlgorithmIdentifier.CCM_ENCRYPTION
DATA = SecurityALService.S_A_DATA


@pytest.mark.parametrize(
    ("tool_access", "algorithm", "system_broadcast", "service"),
    [
        (False, 8, False, DATA),  # algorithm one bit beyond -> tool_access
        (False, 9, False, DATA),  # -> tool_access + CCM_ENCRYPTION
        (False, ENC, False, 8),  # service one bit beyond -> system_broadcast
        (False, ENC, False, 0x10),  # service -> algorithm
        (False, SecurityAlgorithmIdentifier.CCM_AUTHENTICATION, 2, DATA),  # -> algorithm
        (False, 2, False, DATA),  # reserved algorithm - encoded, not decodable
        (False, ENC, False, 1),  # reserved service - encoded, not decodable
    ],
)
def test_secure_apdu_scf_is_refused_or_round_trips(
    tool_access: bool, algorithm: int, system_broadcast: int, service: int
) -> None:
    """C06: encoding refuses the object or the PDU decodes to an equal object."""
    payload = SecureAPDU(
        scf=SecurityControlField(
            tool_access=tool_access,
            algorithm=algorithm,  # type: ignore[arg-type]
            system_broadcast=system_broadcast,  # type: ignore[arg-type]
            service=service,  # type: ignore[arg-type]
        ),
        secured_data=SecureData(
            sequence_number_bytes=bytes.fromhex("000000000123"),
            secured_apdu=bytes.fromhex("0081"),
            message_authentication_code=bytes.fromhex("deadbeef"),
        ),
    )
    try:
        raw = bytes(payload.to_knx())
    except Exception:  # pylint: disable=broad-except
        return  # refusing is fine for C06
    try:
        decoded = APCI.from_knx(raw)
    except Exception as err:  # pylint: disable=broad-except
        pytest.fail(
            f"SecureAPDU with SCF(tool_access={tool_access}, algorithm={algorithm!r}, "
            f"system_broadcast={system_broadcast}, service={service!r}) was encoded "
            f"without being refused as {raw.hex()} (SCF octet {raw[2]:#010b}) but the "
            f"PDU can not be decoded: {err!r}. C06 requires the encoder to refuse the "
            "object or to produce a PDU that decodes back to an equal object."
        )
    assert decoded == payload, (
        f"SecureAPDU with SCF(tool_access={tool_access}, algorithm={algorithm!r}, "
        f"system_broadcast={system_broadcast}, service={service!r}) was encoded without "
        f"being refused as {raw.hex()} (SCF octet {raw[2]:#010b}) and decodes to "
        f"{decoded.scf}: the value was wrapped into a neighbouring field. C06 requires "
        "the encoder to refuse a value that does not fit its wire field."
    )
