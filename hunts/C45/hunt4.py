"""
C45 hunt 4 - decode_dpt_payload() / read_group_value() return NaN / +-Infinity.

A 4-byte float (DPT 14.x) payload may be an IEEE-754 special value: [0x7F,0xC0,0,0] is
NaN, [0x7F,0x80,0,0] is +inf, [0xFF,0x80,0,0] is -inf (devices do send NaN for "sensor
not available").  DPT4ByteFloat.from_knx passes them through and tools._jsonify() lets
every float pass unchanged, so the tool result carries a float that has no JSON form:
json.dumps writes the non-JSON tokens NaN / Infinity (strict encoders raise, strict
parsers such as JSON.parse refuse the whole tool result).  For NaN the decoded value does
not even compare equal to itself, so "decode(encode(v)) == v" cannot hold for the value
the tool handed out.

Run:  /venv/bin/python -m pytest -q -p no:cacheprovider hunt4.py
"""

from __future__ import annotations

import asyncio
import dataclasses
import json
import os
import sys
from unittest.mock import patch

sys.path.insert(0, os.path.dirname(os.path.abspath(__file__)))

import pytest

from xknx import XKNX
from xknx.dpt import DPTArray
from xknx.mcp import (
    DecodeDptPayloadInput,
    EncodeDptPayloadInput,
    GroupValueReadInput,
    decode_dpt_payload,
    encode_dpt_payload,
    read_group_value,
)
from xknx.telegram import GroupAddress, Telegram, TelegramDirection, apci

SPECIALS = [
    ("nan", [0x7F, 0xC0, 0x00, 0x00]),
    ("+inf", [0x7F, 0x80, 0x00, 0x00]),
    ("-inf", [0xFF, 0x80, 0x00, 0x00]),
]


def _reject_constant(name: str) -> float:
    raise ValueError(f"{name} is not a JSON value")


def _strict_json_roundtrip(result: object) -> dict:
    """Serialise with the standard encoder, parse like a strict JSON parser."""
    text = json.dumps(dataclasses.asdict(result))
    return json.loads(text, parse_constant=_reject_constant)


@pytest.mark.parametrize(("name", "payload"), SPECIALS, ids=[s[0] for s in SPECIALS])
def test_decode_dpt_payload_result_is_json_native(name: str, payload: list[int]) -> None:
    """decode_dpt_payload of an IEEE special value gives a JSON-native result."""
    result = asyncio.run(
        decode_dpt_payload(DecodeDptPayloadInput(payload=payload, value_type="14.056"))
    )
    try:
        _strict_json_roundtrip(result)
        json.dumps(dataclasses.asdict(result), allow_nan=False)
    except ValueError as err:
        pytest.fail(
            f"decode_dpt_payload(payload={payload}, '14.056') returned value="
            f"{result.value!r} ({name}); serialising the result gives "
            f"{json.dumps(dataclasses.asdict(result))!r} which is not JSON ({err}). "
            "The property requires every tool result to be JSON-native."
        )


@pytest.mark.parametrize(("name", "payload"), SPECIALS, ids=[s[0] for s in SPECIALS])
def test_read_group_value_result_is_json_native(name: str, payload: list[int]) -> None:
    """read_group_value of a device answering with a special value: same."""

    async def run() -> object:
        xknx = XKNX()
        with patch("xknx.core.value_reader.ValueReader.read") as read_mock:
            read_mock.return_value = Telegram(
                destination_address=GroupAddress("1/2/3"),
                direction=TelegramDirection.INCOMING,
                payload=apci.GroupValueResponse(DPTArray(tuple(payload))),
            )
            return await read_group_value(
                xknx, GroupValueReadInput(group_address="1/2/3", value_type="power")
            )

    result = asyncio.run(run())
    assert result.responded
    try:
        json.dumps(dataclasses.asdict(result), allow_nan=False)
    except ValueError as err:
        pytest.fail(
            f"read_group_value(value_type='power') of response payload {payload} returned "
            f"value={result.value!r} ({name}): {err}. The property requires a JSON-native "
            "result."
        )


def test_decoded_value_survives_encode_decode() -> None:
    """decode -> JSON -> encode -> decode returns the value the tool handed out."""

    async def run(payload: list[int]) -> tuple[object, object]:
        first = await decode_dpt_payload(
            DecodeDptPayloadInput(payload=payload, value_type="14.056")
        )
        # what a (lenient, Python) JSON client gets
        value = json.loads(json.dumps(dataclasses.asdict(first)))["value"]
        encoded = await encode_dpt_payload(
            EncodeDptPayloadInput(value=value, value_type="14.056")
        )
        second = await decode_dpt_payload(
            DecodeDptPayloadInput(payload=encoded.payload, value_type="14.056")
        )
        return value, second.value

    value, again = asyncio.run(run([0x7F, 0xC0, 0x00, 0x00]))
    assert again == value, (
        f"decode_dpt_payload handed out value={value!r}; encoding that value and decoding "
        f"the payload returns {again!r}, which does not compare equal to it (NaN != NaN). "
        "The property requires decode(encode(v)) == v for every v in the JSON decode "
        "image, so a decoded value must have an (equal-comparable) JSON-native form."
    )


if __name__ == "__main__":
    sys.exit(pytest.main(["-q", "-p", "no:cacheprovider", __file__]))
