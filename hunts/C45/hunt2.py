"""
C45 hunt 2 - DPT 7.003 / 7.004 (time period, resolution 10 ms / 100 ms): encode floors
to the resolution instead of choosing the nearest representable value.

encode_dpt_payload(value=99, "7.004") yields payload [0, 0]; decoding it gives 0 although
100 is representable and nearer.  encode(199) -> 100 (nearest: 200); 7.003: 19 -> 10
(nearest: 20).  The signed siblings 8.003 / 8.004 round correctly (199 -> 200).

Run:  /venv/bin/python -m pytest -q -p no:cacheprovider hunt2.py
"""

from __future__ import annotations

import asyncio
import os
import random
import sys

sys.path.insert(0, os.path.dirname(os.path.abspath(__file__)))

import pytest

from xknx import XKNX
from xknx.mcp import (
    DecodeDptPayloadInput,
    EncodeDptPayloadInput,
    GroupValueWriteInput,
    decode_dpt_payload,
    describe_dpt,
    encode_dpt_payload,
    send_group_value_write,
)


async def _roundtrip(value: int, value_type: str) -> int:
    encoded = await encode_dpt_payload(
        EncodeDptPayloadInput(value=value, value_type=value_type)
    )
    decoded = await decode_dpt_payload(
        DecodeDptPayloadInput(payload=encoded.payload, value_type=value_type)
    )
    return decoded.value


@pytest.mark.parametrize(
    ("value_type", "value"),
    [
        ("7.004", 99),  # -> 0, nearest 100
        ("7.004", 199),  # -> 100, nearest 200
        ("time_period_100msec", 1990),  # -> 1900, nearest 2000
        ("7.003", 19),  # -> 10, nearest 20
        ("time_period_10msec", 655349),  # -> 655340, nearest 655350 (= value_max)
    ],
)
def test_encode_picks_nearest_representable(value_type: str, value: int) -> None:
    """An in-range integer is encoded to the nearest multiple of the resolution."""
    summary = asyncio.run(describe_dpt(value_type)).dpt
    assert summary.value_min <= value <= summary.value_max
    resolution = summary.resolution
    got = asyncio.run(_roundtrip(value, value_type))
    assert abs(got - value) <= resolution / 2, (
        f"DPT {summary.dpt} (resolution {resolution:g} {summary.unit}): "
        f"decode(encode({value})) returned {got}, which is {abs(got - value)} away; "
        f"the nearest representable value is {round(value / resolution) * resolution:g}. "
        "The property requires decode(encode(v)) to be v or its nearest representable form."
    )


def test_random_in_range_integers() -> None:
    """Random in-range integers, both time period types; 8.003/8.004 as the control."""
    rnd = random.Random(45)
    failures: dict[str, list[tuple[int, int]]] = {}
    for value_type in ("7.003", "7.004", "8.003", "8.004"):
        summary = asyncio.run(describe_dpt(value_type)).dpt
        for _ in range(300):
            value = rnd.randint(int(summary.value_min), int(summary.value_max))
            got = asyncio.run(_roundtrip(value, value_type))
            if abs(got - value) > summary.resolution / 2:
                failures.setdefault(value_type, []).append((value, got))
    assert not failures, (
        "decode(encode(v)) is not the nearest representable value for (v, got): "
        + "; ".join(f"{k}: {len(v)}/300 e.g. {v[:3]}" for k, v in failures.items())
        + ". The property requires the nearest representable form."
    )


def test_send_group_value_write_floors_too() -> None:
    """The bus write tool queues the floored value as well."""

    async def run() -> int:
        xknx = XKNX()
        await send_group_value_write(
            xknx,
            GroupValueWriteInput(
                group_address="1/2/3", value=99, value_type="time_period_100msec"
            ),
        )
        telegram = xknx.telegrams.get_nowait()
        decoded = await decode_dpt_payload(
            DecodeDptPayloadInput(
                payload=list(telegram.payload.value.value),
                value_type="time_period_100msec",
            )
        )
        return decoded.value

    got = asyncio.run(run())
    assert got == 100, (
        f"send_group_value_write(value=99, 'time_period_100msec') queued a payload that "
        f"decodes to {got} ms; the nearest representable value is 100 ms."
    )


if __name__ == "__main__":
    sys.exit(pytest.main(["-q", "-p", "no:cacheprovider", __file__]))
