"""C45 hunt 1: list_dpts paging does not progress for limit=0 / negative offset."""
import asyncio

import pytest

from xknx.mcp import DptFilter, list_dpts


async def _walk(limit: int, offset: int, max_pages: int = 50) -> tuple[list[str], int, int]:
    got: list[str] = []
    off: int | None = offset
    pages = 0
    total = 0
    while off is not None and pages < max_pages:
        page = await list_dpts(DptFilter(main=9, limit=limit, offset=off))
        total = page.total_count
        got += [d.dpt for d in page.dpts]
        if page.next_offset is not None:
            assert page.next_offset > off or page.dpts, (
                f"list_dpts(limit={limit}, offset={off}) returned an empty page with "
                f"limit_reached={page.limit_reached} and next_offset={page.next_offset} "
                f"(== the offset just used): following next_offset never advances, so "
                f"paging never returns the {total} matching types; the property requires "
                "page-by-page listing to return every type exactly once"
            )
        off = page.next_offset
        pages += 1
    return got, total, pages


@pytest.mark.parametrize(("limit", "offset"), [(0, 0), (5, -3)])
def test_paging_terminates_and_is_complete(limit: int, offset: int) -> None:
    got, total, pages = asyncio.run(_walk(limit, offset))
    assert len(got) == len(set(got))
    assert pages < 50
