"""
C45 hunt 3 - list_dpts() / describe_dpt() results carry float("-inf") / float("inf").

All 84 DPT 14 types (the generic "14" and its 83 subtypes - 4-byte float: power,
voltage, current, ...) declare value_min = -inf / value_max = +inf.  _numeric_bounds() copies them into
DptSummary.value_min / value_max, so the *default* call `await list_dpts()` already
returns a result that is not JSON-native: json.dumps(dataclasses.asdict(result)) emits
the tokens `-Infinity` / `Infinity`, which are not JSON (RFC 8259) - a strict encoder
(allow_nan=False) raises and a strict parser (e.g. JavaScript JSON.parse, or Python's with
parse_constant rejecting) refuses the text.

Run:  /venv/bin/python -m pytest -q -p no:cacheprovider hunt3.py
"""

from __future__ import annotations

import asyncio
import dataclasses
import json
import math
import os
import sys

sys.path.insert(0, os.path.dirname(os.path.abspath(__file__)))

import pytest

from xknx.mcp import DptFilter, describe_dpt, list_dpts


def _reject_constant(name: str) -> float:
    raise ValueError(f"{name} is not a JSON value")


def _non_finite_paths(obj: object, path: str = "$") -> list[str]:
    """Return the JSON paths of all non-finite floats in a dict/list tree."""
    if isinstance(obj, float) and not math.isfinite(obj):
        return [f"{path}={obj}"]
    if isinstance(obj, dict):
        return [p for k, v in obj.items() for p in _non_finite_paths(v, f"{path}.{k}")]
    if isinstance(obj, list):
        return [
            p for i, v in enumerate(obj) for p in _non_finite_paths(v, f"{path}[{i}]")
        ]
    return []


def test_default_list_dpts_is_strict_json() -> None:
    """The default (unfiltered, first page) listing serialises to valid JSON."""
    result = asyncio.run(list_dpts())
    as_dict = dataclasses.asdict(result)
    bad = _non_finite_paths(as_dict)
    text = json.dumps(as_dict)  # standard encoder, default settings: does not raise ...
    try:
        json.loads(text, parse_constant=_reject_constant)  # ... but emits non-JSON
        strict_ok = True
    except ValueError:
        strict_ok = False
    assert not bad and strict_ok, (
        f"list_dpts() returned {len(bad)} non-finite floats, e.g. {bad[:4]}; the standard "
        f"encoder writes them as {'-Infinity' if '-Infinity' in text else 'Infinity'} "
        "tokens which are not JSON. The property requires every tool result to be "
        "JSON-native (finite numbers, strings, booleans, null, lists, dicts)."
    )


@pytest.mark.parametrize("identifier", ["14.056", "power", "14", "4byte_float"])
def test_describe_dpt_is_strict_json(identifier: str) -> None:
    """describe_dpt of a 4-byte float type serialises with a strict JSON encoder."""
    result = asyncio.run(describe_dpt(identifier))
    assert result.found
    as_dict = dataclasses.asdict(result)
    try:
        json.dumps(as_dict, allow_nan=False)
    except ValueError as err:
        pytest.fail(
            f"describe_dpt({identifier!r}) -> value_min={result.dpt.value_min}, "
            f"value_max={result.dpt.value_max}: json.dumps(allow_nan=False) raised "
            f"{err!r}. The property requires a JSON-native result; an unbounded range "
            "has to be reported as null, not as an IEEE infinity."
        )


def test_every_page_is_strict_json() -> None:
    """Paging through the whole catalogue: count the summaries that are not JSON."""
    offset: int | None = 0
    bad: list[str] = []
    seen = 0
    while offset is not None:
        page = asyncio.run(list_dpts(DptFilter(limit=50, offset=offset)))
        for summary in page.dpts:
            seen += 1
            if _non_finite_paths(dataclasses.asdict(summary)):
                bad.append(summary.dpt)
        offset = page.next_offset
    assert not bad, (
        f"{len(bad)} of {seen} listed DPT summaries contain +-Infinity "
        f"({bad[0]} .. {bad[-1]}); the property requires JSON-native results."
    )


if __name__ == "__main__":
    sys.exit(pytest.main(["-q", "-p", "no:cacheprovider", __file__]))
