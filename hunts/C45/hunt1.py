"""
C45 hunt 1 - DPT 19.001 (datetime): encode silently drops a partially given time / date.

describe_dpt("19.001") publishes a schema in which every field is optional
(required=False).  A dict such as
    {"year": 2026, "month": 9, "day": 22, "hour": 12, "minutes": 30}
is therefore a valid JSON-native value.  encode_dpt_payload() accepts it without
error, but sets the "no time" flag, and decode_dpt_payload() of the produced payload
returns hour=None, minutes=None: the value the caller wrote is gone, neither returned
nor replaced by its nearest representable form (12:30:00), nor refused.

Run:  /venv/bin/python -m pytest -q -p no:cacheprovider hunt1.py
"""

from __future__ import annotations

import asyncio
import os
import sys

sys.path.insert(0, os.path.dirname(os.path.abspath(__file__)))

import pytest

from xknx import XKNX
from xknx.exceptions import ConversionError
from xknx.mcp import (
    DecodeDptPayloadInput,
    EncodeDptPayloadInput,
    GroupValueWriteInput,
    decode_dpt_payload,
    describe_dpt,
    encode_dpt_payload,
    send_group_value_write,
)

PARTIAL_VALUES = [
    # a full date and a time without seconds
    {"year": 2026, "month": 9, "day": 22, "hour": 12, "minutes": 30},
    # only seconds
    {"seconds": 5},
    # a month without a day next to a complete time
    {"hour": 12, "minutes": 30, "seconds": 0, "month": 9},
    # a day without a month
    {"year": 2026, "day": 22},
]


async def _roundtrip(value: dict) -> dict | None:
    """Return decode(encode(value)), or None if the encoder refused the value."""
    try:
        encoded = await encode_dpt_payload(
            EncodeDptPayloadInput(value=value, value_type="19.001")
        )
    except ConversionError:
        return None
    decoded = await decode_dpt_payload(
        DecodeDptPayloadInput(payload=encoded.payload, value_type="19.001")
    )
    assert isinstance(decoded.value, dict)
    return decoded.value


@pytest.mark.parametrize("value", PARTIAL_VALUES)
def test_encode_decode_keeps_or_refuses_partial_datetime(value: dict) -> None:
    """decode(encode(v)) returns every field of v, or encode refuses v."""
    schema = asyncio.run(describe_dpt("19.001")).dpt.schema
    optional = {field["name"] for field in schema if not field["required"]}
    # the value only uses fields the published schema declares optional
    assert set(value) <= optional

    decoded = asyncio.run(_roundtrip(value))
    if decoded is None:
        return  # refused with ConversionError: acceptable, nothing was lost silently
    lost = {k: (v, decoded[k]) for k, v in value.items() if decoded[k] != v}
    assert not lost, (
        f"encode_dpt_payload accepted {value} for DPT 19.001 but decoding its payload "
        f"returned {decoded}: fields (written, read back) {lost} were silently dropped. "
        "The property requires decode(encode(v)) to return v or its nearest "
        "representable form (or the encoder to refuse v with ConversionError)."
    )


def test_send_group_value_write_partial_time_is_not_silently_emptied() -> None:
    """The same through the bus write tool: the queued telegram carries no time."""
    value = {"year": 2026, "month": 9, "day": 22, "hour": 12, "minutes": 30}

    async def run() -> dict | None:
        xknx = XKNX()
        try:
            await send_group_value_write(
                xknx,
                GroupValueWriteInput(
                    group_address="1/2/3", value=value, value_type="datetime"
                ),
            )
        except ConversionError:
            assert xknx.telegrams.qsize() == 0
            return None
        telegram = xknx.telegrams.get_nowait()
        decoded = await decode_dpt_payload(
            DecodeDptPayloadInput(
                payload=list(telegram.payload.value.value), value_type="datetime"
            )
        )
        return decoded.value

    decoded = asyncio.run(run())
    if decoded is None:
        return
    assert (decoded["hour"], decoded["minutes"]) == (12, 30), (
        f"send_group_value_write({value}) queued a telegram that decodes to {decoded}: "
        "the written time 12:30 is flagged invalid on the bus although the tool reported "
        "queued=True. The property requires the written value (or its nearest "
        "representable form) to be what the payload decodes to."
    )


if __name__ == "__main__":
    sys.exit(pytest.main(["-q", "-p", "no:cacheprovider", __file__]))
