"""
C24 hunt 1 - a TunnellingAck with a *different sequence counter* confirms the pending frame.

Property clause: "A send succeeds only after an acknowledgement with the same channel id,
the same sequence counter and no error status has arrived" / "only one request awaits
acknowledgement at a time".

The real UDPTunnel / UDPTransport / Tunnelling classes are used; only the socket
(UDPTransport.connect / send / getsockname) is replaced by a simulated gateway and the event
loop clock is advanced by hand. Datagrams of the gateway enter through
UDPTransport.data_received_callback() as raw bytes.

Run: /venv/bin/python -m pytest -q -p no:cacheprovider hunt1.py
"""

from __future__ import annotations

import asyncio
from unittest.mock import Mock, patch

from xknx import XKNX
from xknx.cemi import CEMIFrame, CEMILData, CEMIMessageCode
from xknx.dpt import DPTArray
from xknx.io import UDPTunnel
from xknx.io.transport import UDPTransport
from xknx.knxip import (
    HPAI,
    ConnectRequest,
    ConnectResponse,
    ConnectResponseData,
    DisconnectRequest,
    DisconnectResponse,
    KNXIPFrame,
    TunnellingAck,
    TunnellingRequest,
)
from xknx.telegram import GroupAddress, IndividualAddress, Telegram
from xknx.telegram.apci import GroupValueWrite

GATEWAY = ("192.168.1.2", 3671)


class Clock:
    """Advance the event loop clock by hand (same idea as test/conftest.py time_travel)."""

    def __init__(self) -> None:
        self.loop = asyncio.get_running_loop()
        self.offset = 0.0
        self._base = self.loop.time
        self.loop.time = self.time  # type: ignore[method-assign]

    def time(self) -> float:
        return self._base() + self.offset

    async def _drain(self) -> None:
        while self.loop._ready:  # type: ignore[attr-defined]
            await asyncio.sleep(0)

    async def __call__(self, seconds: float) -> None:
        await self._drain()
        if seconds > 0:
            self.offset += seconds
            await asyncio.sleep(0)
            await self._drain()


class SimGateway:
    """The far end of the UDP socket."""

    def __init__(self) -> None:
        self.tunnel: UDPTunnel | None = None
        self.next_channel = 7
        self.tunnelling_requests: list[TunnellingRequest] = []
        # called for every TunnellingRequest that reaches the gateway
        self.on_tunnelling_request = lambda req: None

    # --- gateway -> client -------------------------------------------------
    def deliver(self, body) -> None:  # noqa: ANN001
        """A datagram of the gateway arrives at the client socket."""
        assert self.tunnel is not None
        raw = KNXIPFrame.init_from_body(body).to_knx()
        self.tunnel.transport.data_received_callback(raw, GATEWAY)

    def ack(self, channel: int, seq: int) -> None:
        self.deliver(TunnellingAck(communication_channel_id=channel, sequence_counter=seq))

    # --- client -> gateway -------------------------------------------------
    def client_sent(self, frame: KNXIPFrame) -> None:
        loop = asyncio.get_running_loop()
        body = frame.body
        if isinstance(body, ConnectRequest):
            channel = self.next_channel
            self.next_channel += 1
            loop.call_soon(
                self.deliver,
                ConnectResponse(
                    communication_channel=channel,
                    data_endpoint=HPAI(*GATEWAY),
                    crd=ConnectResponseData(individual_address=IndividualAddress("1.1.250")),
                ),
            )
        elif isinstance(body, DisconnectRequest):
            loop.call_soon(
                self.deliver,
                DisconnectResponse(communication_channel_id=body.communication_channel_id),
            )
        elif isinstance(body, TunnellingRequest):
            self.tunnelling_requests.append(body)
            self.on_tunnelling_request(body)


def make_cemi(value: int) -> CEMIFrame:
    return CEMIFrame(
        code=CEMIMessageCode.L_DATA_REQ,
        data=CEMILData.init_from_telegram(
            Telegram(
                destination_address=GroupAddress("1/2/3"),
                payload=GroupValueWrite(DPTArray((value,))),
            ),
            src_addr=IndividualAddress("1.1.250"),
        ),
    )


class Harness:
    """Real UDPTunnel on a simulated socket."""

    def __init__(self, auto_reconnect: bool = False) -> None:
        self.gateway = SimGateway()
        gateway = self.gateway

        async def fake_connect(transport: UDPTransport) -> None:
            transport.transport = Mock()

        def fake_send(transport: UDPTransport, frame: KNXIPFrame, addr=None) -> None:  # noqa: ANN001
            gateway.client_sent(frame)

        self._patches = [
            patch.object(UDPTransport, "connect", new=fake_connect),
            patch.object(UDPTransport, "send", new=fake_send),
            patch.object(UDPTransport, "getsockname", new=lambda _self: ("192.168.1.1", 12345)),
        ]
        for _patch in self._patches:
            _patch.start()
        self.tunnel = UDPTunnel(
            XKNX(),
            gateway_ip=GATEWAY[0],
            gateway_port=GATEWAY[1],
            local_ip="192.168.1.1",
            local_port=12345,
            cemi_received_callback=Mock(),
            auto_reconnect=auto_reconnect,
            auto_reconnect_wait=1,
        )
        self.gateway.tunnel = self.tunnel
        self.tasks: list[asyncio.Task[None]] = []

    def send(self, cemi: CEMIFrame) -> asyncio.Task[None]:
        task = asyncio.create_task(self.tunnel.send_cemi(cemi))
        self.tasks.append(task)
        return task

    async def close(self) -> None:
        for task in self.tasks:
            task.cancel()
        self.tunnel.stop_heartbeat()
        self.tunnel._stop_reconnect()
        await asyncio.gather(*self.tasks, return_exceptions=True)
        for _patch in self._patches:
            _patch.stop()


def succeeded(task: asyncio.Task[None]) -> bool:
    return task.done() and not task.cancelled() and task.exception() is None


async def test_duplicated_ack_of_previous_frame_confirms_next_frame() -> None:
    """Fault sequence: frame B is lost, the ACK of frame A is duplicated by the network."""
    clock = Clock()
    harness = Harness()
    tunnel, gateway = harness.tunnel, harness.gateway
    try:
        await tunnel.connect()
        channel = tunnel.communication_channel
        assert channel == 7

        # frame A: sequence counter 0, acknowledged by its own ACK
        task_a = harness.send(make_cemi(1))
        await clock(0)
        assert gateway.tunnelling_requests[-1].sequence_counter == 0
        gateway.ack(channel, 0)
        await clock(0)
        assert succeeded(task_a)

        # frame B: sequence counter 1 - lost on its way, the gateway never acknowledges it.
        task_b = harness.send(make_cemi(2))
        await clock(0)
        request_b = gateway.tunnelling_requests[-1]
        assert request_b.sequence_counter == 1
        assert not task_b.done()
        # UDP duplicates the ACK of frame A (sequence counter 0)
        gateway.ack(channel, 0)
        await clock(0)

        acks_for_b = 0  # the simulated gateway never sent TunnellingAck(seq=1)
        assert not succeeded(task_b), (
            "send_cemi() of frame B (channel 7, sequence_counter=1) returned successfully after "
            "only a duplicated TunnellingAck with sequence_counter=0 arrived "
            f"(ACKs with sequence_counter=1 sent by the gateway: {acks_for_b}; frame B was sent "
            f"{sum(r.sequence_counter == 1 for r in gateway.tunnelling_requests)}x, never repeated). "
            "C24 requires: a send succeeds only after an acknowledgement with the same channel id, "
            "the SAME SEQUENCE COUNTER and no error status has arrived."
        )
    finally:
        await harness.close()


async def test_ack_delayed_beyond_timeout_confirms_following_frame() -> None:
    """
    Fault sequence: the ACKs of the gateway take 1.2 s, 1.0 s, 1.2 s, ... (>= TUNNELLING_REQUEST_TIMEOUT).

    Nothing is lost. The gateway acknowledges every copy it receives (the repetition of a
    frame is acknowledged again, as the specification requires).
    """
    clock = Clock()
    harness = Harness()
    tunnel, gateway = harness.tunnel, harness.gateway
    loop = asyncio.get_running_loop()
    ack_arrivals: list[tuple[float, int]] = []
    start = loop.time()

    delays = [1.2, 1.0, 1.2, 1.2, 1.2, 1.2]

    def ack_later(req: TunnellingRequest) -> None:
        def _arrive() -> None:
            ack_arrivals.append((round(loop.time() - start, 1), req.sequence_counter))
            gateway.ack(req.communication_channel_id, req.sequence_counter)

        loop.call_later(delays.pop(0), _arrive)

    try:
        await tunnel.connect()
        gateway.on_tunnelling_request = ack_later
        start = loop.time()

        task_a = harness.send(make_cemi(1))  # t=0.0 A(seq 0) sent
        task_b = harness.send(make_cemi(2))  # queued behind A
        task_c = harness.send(make_cemi(3))  # queued behind B
        await clock(1.0)  # t=1.0 A timed out -> repeated with seq 0
        assert [r.sequence_counter for r in gateway.tunnelling_requests] == [0, 0]
        await clock(0.2)  # t=1.2 ACK(0) of first copy arrives -> A ok, B(seq 1) sent
        assert succeeded(task_a)
        assert [r.sequence_counter for r in gateway.tunnelling_requests] == [0, 0, 1]
        assert not task_b.done()
        await clock(0.8)  # t=2.0 ACK(0) of the repeated copy of A arrives. ACK(1) is due at t=2.4
        assert ack_arrivals == [(1.2, 0), (2.0, 0)]

        sent = [r.sequence_counter for r in gateway.tunnelling_requests]
        assert not succeeded(task_b) and sent == [0, 0, 1], (
            "at t=2.0s only TunnellingAcks with sequence_counter=0 have arrived "
            f"(arrivals (time, seq): {ack_arrivals}), yet send_cemi() of frame B "
            f"(sequence_counter=1) succeeded={succeeded(task_b)} and the frames sent so far are "
            f"{sent}: frame C (sequence_counter=2) was sent while the acknowledgement of frame B "
            "is still outstanding. C24 requires: a send succeeds only after an ACK with the same "
            "sequence counter; only one request awaits acknowledgement at a time."
        )
        del task_c
    finally:
        await harness.close()
