"""
C24 hunt 2 - the sequence counter of a NEW connection does not start at 0.

Property clause: "Each new cEMI frame sent over a tunnel carries the next
sequence counter (modulo 256), and the counter restarts at 0 on every new
connection".

A send_cemi() that is still in flight on the OLD connection while the tunnel is
re-established (server DisconnectRequest / heartbeat / invalid-sequence reconnect)
runs its `finally: self._increase_sequence_number()` AFTER `_tunnel_established()`
has reset the counter - the fresh connection's counter becomes 1 although no frame
with counter 0 was ever sent on it.

The real UDPTunnel / Tunnelling / RequestResponse / UDPTransport (incl. frame
parsing) are driven by a simulated gateway; only the socket (UDPTransport.connect /
send / stop / getsockname) and the loop clock are replaced.

Run: /venv/bin/python -m pytest -q -p no:cacheprovider hunt2.py
"""

from __future__ import annotations

import asyncio
from collections.abc import Callable
from unittest.mock import Mock, patch

import pytest

from xknx import XKNX
from xknx.cemi import CEMIFrame, CEMILData, CEMIMessageCode
from xknx.dpt import DPTArray
from xknx.io import UDPTunnel
from xknx.io.transport.udp_transport import UDPTransport
from xknx.knxip import (
    HPAI,
    ConnectRequest,
    ConnectResponse,
    ConnectResponseData,
    DisconnectRequest,
    DisconnectResponse,
    ErrorCode,
    KNXIPFrame,
    TunnellingAck,
    TunnellingRequest,
)
from xknx.telegram import GroupAddress, IndividualAddress, Telegram
from xknx.telegram.apci import GroupValueWrite

GATEWAY = ("192.168.1.2", 3671)
LOCAL = ("192.168.1.1", 12345)


class Clock:
    """Virtual loop clock (same technique as test/conftest.py::EventLoopClockAdvancer)."""

    def __init__(self) -> None:
        self.loop = asyncio.get_running_loop()
        self.offset = 0.0
        self._base = self.loop.time
        self.loop.time = self.time  # type: ignore[method-assign]

    def time(self) -> float:
        return self._base() + self.offset

    async def _drain(self) -> None:
        while self.loop._ready:  # type: ignore[attr-defined]
            await asyncio.sleep(0)

    async def advance(self, seconds: float) -> None:
        await self._drain()
        if seconds > 0:
            self.offset += seconds
            await asyncio.sleep(0)
            await self._drain()


class SimGateway:
    """
    A KNXnet/IP tunnelling server at the network boundary.

    `on_tunnelling_request(n, request)` is called for the n-th (0-based)
    TunnellingRequest datagram the client puts on the wire and returns a list
    of `(delay_seconds, TunnellingAck)` to deliver - [] means the datagram
    (or its ACK) is lost.
    """

    def __init__(self, tunnel: UDPTunnel) -> None:
        self.tunnel = tunnel
        self.next_channel = 1
        self.wire: list[KNXIPFrame] = []  # everything the client sent
        self.tunnelling_requests: list[TunnellingRequest] = []
        self.on_tunnelling_request: Callable[
            [int, TunnellingRequest], list[tuple[float, TunnellingAck]]
        ] = lambda n, req: [
            (0.0, TunnellingAck(req.communication_channel_id, req.sequence_counter))
        ]

    # -- socket replacements -------------------------------------------------
    async def connect(self) -> None:
        self.tunnel.transport.transport = Mock()

    def stop(self) -> None:
        self.tunnel.transport.transport = None

    def send(self, knxipframe: KNXIPFrame, addr: tuple[str, int] | None = None) -> None:
        if self.tunnel.transport.transport is None:
            from xknx.exceptions import CommunicationError

            raise CommunicationError("Transport not connected")
        # through the real serializer and parser, like a datagram
        frame, _ = KNXIPFrame.from_knx(knxipframe.to_knx())
        self.wire.append(frame)
        body = frame.body
        if isinstance(body, ConnectRequest):
            channel = self.next_channel
            self.next_channel += 1
            self.deliver(
                0.0,
                ConnectResponse(
                    communication_channel=channel,
                    data_endpoint=HPAI(*GATEWAY),
                    crd=ConnectResponseData(
                        individual_address=IndividualAddress("1.1.250")
                    ),
                ),
            )
        elif isinstance(body, DisconnectRequest):
            self.deliver(
                0.0,
                DisconnectResponse(communication_channel_id=body.communication_channel_id),
            )
        elif isinstance(body, TunnellingRequest):
            n = len(self.tunnelling_requests)
            self.tunnelling_requests.append(body)
            for delay, ack in self.on_tunnelling_request(n, body):
                self.deliver(delay, ack)

    # -- gateway -> client -----------------------------------------------------
    def deliver(self, delay: float, body: object) -> None:
        raw = KNXIPFrame.init_from_body(body).to_knx()  # type: ignore[arg-type]
        asyncio.get_running_loop().call_later(
            delay, self.tunnel.transport.data_received_callback, raw, GATEWAY
        )


def make_cemi(value: int) -> CEMIFrame:
    return CEMIFrame(
        code=CEMIMessageCode.L_DATA_REQ,
        data=CEMILData.init_from_telegram(
            Telegram(
                destination_address=GroupAddress(value + 1),
                payload=GroupValueWrite(DPTArray((value,))),
            ),
            src_addr=IndividualAddress("1.1.250"),
        ),
    )


@pytest.fixture
async def env():
    clock = Clock()
    xknx = XKNX()
    tunnel = UDPTunnel(
        xknx,
        gateway_ip=GATEWAY[0],
        gateway_port=GATEWAY[1],
        local_ip=LOCAL[0],
        local_port=0,
        cemi_received_callback=Mock(),
        auto_reconnect=True,
        auto_reconnect_wait=3,
        route_back=False,
    )
    gateway = SimGateway(tunnel)
    with (
        patch.object(UDPTransport, "connect", lambda self: gateway.connect()),
        patch.object(UDPTransport, "stop", lambda self: gateway.stop()),
        patch.object(
            UDPTransport, "send", lambda self, frame, addr=None: gateway.send(frame, addr)
        ),
        patch.object(UDPTransport, "getsockname", lambda self: LOCAL),
    ):
        connect = asyncio.create_task(tunnel.connect())
        await clock.advance(0)
        await connect
        assert tunnel.communication_channel == 1
        assert tunnel.sequence_number == 0
        yield tunnel, gateway, clock
        tunnel.stop_heartbeat()
        tunnel._stop_reconnect()
        await clock.advance(0)



def first_frame_of_channel(gateway: SimGateway, channel: int) -> TunnellingRequest:
    return next(
        r for r in gateway.tunnelling_requests if r.communication_channel_id == channel
    )


async def _three_good_frames(tunnel: UDPTunnel, clock: Clock) -> None:
    for i in range(3):
        task = asyncio.create_task(tunnel.send_cemi(make_cemi(i)))
        await clock.advance(0)
        await task
    assert tunnel.sequence_number == 3


def _server_disconnect(gateway: SimGateway, delay: float, channel: int) -> None:
    gateway.deliver(
        delay,
        DisconnectRequest(
            communication_channel_id=channel, control_endpoint=HPAI(*GATEWAY)
        ),
    )


async def test_late_ack_after_reconnect_shifts_the_new_counter(env) -> None:
    """
    Delayed ACK + server initiated reconnect.

    t=0.0  frame A (channel 1, seq 3) sent, its ACK is delayed by 0.5 s (well within the timeout)
    t=0.1  the gateway sends DisconnectRequest(channel 1); the client answers, reconnects at once:
           ConnectRequest -> ConnectResponse(channel 2) -> sequence_number = 0
    t=0.5  ACK(channel 1, seq 3) arrives -> A returns -> finally: sequence_number = 1
    then   frame B is the first frame of connection 2
    """
    tunnel, gateway, clock = env
    await _three_good_frames(tunnel, clock)

    def script(n: int, req: TunnellingRequest) -> list[tuple[float, TunnellingAck]]:
        ack = TunnellingAck(req.communication_channel_id, req.sequence_counter)
        if n == 3:  # frame A
            _server_disconnect(gateway, 0.1, req.communication_channel_id)
            return [(0.5, ack)]
        return [(0.0, ack)]

    gateway.on_tunnelling_request = script

    send_a = asyncio.create_task(tunnel.send_cemi(make_cemi(10)))
    await clock.advance(0)
    await clock.advance(0.1)  # DisconnectRequest -> reconnect
    await clock.advance(0)
    assert tunnel.communication_channel == 2, tunnel.communication_channel
    assert tunnel.sequence_number == 0
    assert not send_a.done()
    await clock.advance(0.4)  # the delayed ACK of A
    assert send_a.done() and send_a.exception() is None

    send_b = asyncio.create_task(tunnel.send_cemi(make_cemi(11)))
    await clock.advance(0)
    await clock.advance(0)
    first = first_frame_of_channel(gateway, 2)
    on_wire = [
        (r.communication_channel_id, r.sequence_counter)
        for r in gateway.tunnelling_requests
    ]
    if not send_b.done():
        send_b.cancel()
    assert first.sequence_counter == 0, (
        f"The first TunnellingRequest on the new connection (channel 2) carries sequence "
        f"counter {first.sequence_counter}; (channel, counter) on the wire: {on_wire}. "
        "The property requires the counter to restart at 0 on every new connection - the "
        "in-flight send of the old connection incremented the freshly reset counter."
    )


async def test_cancelled_send_after_reconnect_shifts_the_new_counter(env) -> None:
    """
    Cancellation at the `await` for the ACK, after the tunnel was re-established.

    t=0.0  frame A (channel 1, seq 3) sent - datagram lost
    t=0.1  DisconnectRequest(channel 1) from the gateway -> reconnect -> channel 2, sequence_number = 0
    t=0.5  the caller gives up on A (asyncio.timeout(0.5) / task.cancel()) -> finally: sequence_number = 1
    then   frame B is the first frame of connection 2
    """
    tunnel, gateway, clock = env
    await _three_good_frames(tunnel, clock)

    def script(n: int, req: TunnellingRequest) -> list[tuple[float, TunnellingAck]]:
        if n == 3:  # frame A - lost
            _server_disconnect(gateway, 0.1, req.communication_channel_id)
            return []
        return [(0.0, TunnellingAck(req.communication_channel_id, req.sequence_counter))]

    gateway.on_tunnelling_request = script

    async def send_a_with_timeout() -> None:
        async with asyncio.timeout(0.5):
            await tunnel.send_cemi(make_cemi(10))

    send_a = asyncio.create_task(send_a_with_timeout())
    await clock.advance(0)
    await clock.advance(0.1)
    await clock.advance(0)
    assert tunnel.communication_channel == 2
    assert tunnel.sequence_number == 0
    await clock.advance(0.4)
    assert send_a.done() and isinstance(send_a.exception(), TimeoutError)
    # nothing was sent on channel 2 so far
    assert all(r.communication_channel_id == 1 for r in gateway.tunnelling_requests)

    send_b = asyncio.create_task(tunnel.send_cemi(make_cemi(11)))
    await clock.advance(0)
    await clock.advance(0)
    first = first_frame_of_channel(gateway, 2)
    on_wire = [
        (r.communication_channel_id, r.sequence_counter)
        for r in gateway.tunnelling_requests
    ]
    if not send_b.done():
        send_b.cancel()
    assert first.sequence_counter == 0, (
        f"The first TunnellingRequest on the new connection (channel 2) carries sequence "
        f"counter {first.sequence_counter}; (channel, counter) on the wire: {on_wire}. "
        "The property requires the counter to restart at 0 on every new connection - the "
        "cancelled send of the old connection incremented the freshly reset counter."
    )


async def test_consequence_with_a_spec_conforming_gateway(env) -> None:
    """
    What the shifted counter costs against a gateway that follows Tunnelling 2.6.1.

    The gateway only acknowledges the expected counter (or expected - 1) of the
    current connection. After the schedule of the first test the next frame B should
    go through with one datagram; instead it is sent twice unacknowledged and the
    healthy, just established tunnel is torn down and established a third time.
    """
    tunnel, gateway, clock = env
    await _three_good_frames(tunnel, clock)
    expected: dict[int, int] = {1: 3}

    def script(n: int, req: TunnellingRequest) -> list[tuple[float, TunnellingAck]]:
        ch, seq = req.communication_channel_id, req.sequence_counter
        ack = TunnellingAck(ch, seq)
        if n == 3:  # frame A
            _server_disconnect(gateway, 0.1, ch)
            return [(0.5, ack)]
        exp = expected.setdefault(ch, 0)
        if seq == exp:
            expected[ch] = exp + 1 & 0xFF
            return [(0.0, ack)]
        if seq == exp - 1 & 0xFF:
            return [(0.0, ack)]
        return []  # out of order: discard without ACK

    gateway.on_tunnelling_request = script
    send_a = asyncio.create_task(tunnel.send_cemi(make_cemi(10)))
    await clock.advance(0)
    await clock.advance(0.1)
    await clock.advance(0.4)
    assert send_a.done() and send_a.exception() is None
    connects_before = sum(isinstance(f.body, ConnectRequest) for f in gateway.wire)

    send_b = asyncio.create_task(tunnel.send_cemi(make_cemi(11)))
    for _ in range(30):
        await clock.advance(0.1)
    if not send_b.done():
        send_b.cancel()
    frames_b = [
        (r.communication_channel_id, r.sequence_counter)
        for r in gateway.tunnelling_requests[4:]
    ]
    connects_after = sum(isinstance(f.body, ConnectRequest) for f in gateway.wire)
    assert frames_b == [(2, 0)] and connects_after == connects_before, (
        f"Frame B needed the datagrams {frames_b} and {connects_after - connects_before} "
        "additional ConnectRequest(s): the first frame on connection 2 carried counter 1 "
        "instead of 0, was discarded by the gateway, repeated, and the tunnel was torn "
        "down again. The property requires the counter to restart at 0 on every new connection."
    )
