"""
C24 hunt 2 - a TunnellingAck with a *different communication channel id* confirms the pending frame.

Property clause: "A send succeeds only after an acknowledgement with the same channel id,
the same sequence counter and no error status has arrived".

Since the sequence counter restarts at 0 on every new connection, the channel id is the only
thing that tells the ACK of a frame of the previous connection from the ACK of the first frame
of the re-established one.

The real UDPTunnel / UDPTransport / Tunnelling / Connect / Disconnect classes are used; only
the socket (UDPTransport.connect / send / getsockname) is replaced by a simulated gateway and
the event loop clock is advanced by hand. Datagrams of the gateway enter through
UDPTransport.data_received_callback() as raw bytes.

Run: /venv/bin/python -m pytest -q -p no:cacheprovider hunt2.py
"""

from __future__ import annotations

import asyncio
from unittest.mock import Mock, patch

from xknx import XKNX
from xknx.cemi import CEMIFrame, CEMILData, CEMIMessageCode
from xknx.dpt import DPTArray
from xknx.io import UDPTunnel
from xknx.io.transport import UDPTransport
from xknx.knxip import (
    HPAI,
    ConnectRequest,
    ConnectResponse,
    ConnectResponseData,
    DisconnectRequest,
    DisconnectResponse,
    KNXIPFrame,
    TunnellingAck,
    TunnellingRequest,
)
from xknx.telegram import GroupAddress, IndividualAddress, Telegram
from xknx.telegram.apci import GroupValueWrite

GATEWAY = ("192.168.1.2", 3671)


class Clock:
    """Advance the event loop clock by hand (same idea as test/conftest.py time_travel)."""

    def __init__(self) -> None:
        self.loop = asyncio.get_running_loop()
        self.offset = 0.0
        self._base = self.loop.time
        self.loop.time = self.time  # type: ignore[method-assign]

    def time(self) -> float:
        return self._base() + self.offset

    async def _drain(self) -> None:
        while self.loop._ready:  # type: ignore[attr-defined]
            await asyncio.sleep(0)

    async def __call__(self, seconds: float) -> None:
        await self._drain()
        if seconds > 0:
            self.offset += seconds
            await asyncio.sleep(0)
            await self._drain()


class SimGateway:
    """The far end of the UDP socket."""

    def __init__(self) -> None:
        self.tunnel: UDPTunnel | None = None
        self.next_channel = 7
        self.tunnelling_requests: list[TunnellingRequest] = []
        # called for every TunnellingRequest that reaches the gateway
        self.on_tunnelling_request = lambda req: None

    # --- gateway -> client -------------------------------------------------
    def deliver(self, body) -> None:  # noqa: ANN001
        """A datagram of the gateway arrives at the client socket."""
        assert self.tunnel is not None
        raw = KNXIPFrame.init_from_body(body).to_knx()
        self.tunnel.transport.data_received_callback(raw, GATEWAY)

    def ack(self, channel: int, seq: int) -> None:
        self.deliver(TunnellingAck(communication_channel_id=channel, sequence_counter=seq))

    # --- client -> gateway -------------------------------------------------
    def client_sent(self, frame: KNXIPFrame) -> None:
        loop = asyncio.get_running_loop()
        body = frame.body
        if isinstance(body, ConnectRequest):
            channel = self.next_channel
            self.next_channel += 1
            loop.call_soon(
                self.deliver,
                ConnectResponse(
                    communication_channel=channel,
                    data_endpoint=HPAI(*GATEWAY),
                    crd=ConnectResponseData(individual_address=IndividualAddress("1.1.250")),
                ),
            )
        elif isinstance(body, DisconnectRequest):
            loop.call_soon(
                self.deliver,
                DisconnectResponse(communication_channel_id=body.communication_channel_id),
            )
        elif isinstance(body, TunnellingRequest):
            self.tunnelling_requests.append(body)
            self.on_tunnelling_request(body)


def make_cemi(value: int) -> CEMIFrame:
    return CEMIFrame(
        code=CEMIMessageCode.L_DATA_REQ,
        data=CEMILData.init_from_telegram(
            Telegram(
                destination_address=GroupAddress("1/2/3"),
                payload=GroupValueWrite(DPTArray((value,))),
            ),
            src_addr=IndividualAddress("1.1.250"),
        ),
    )


class Harness:
    """Real UDPTunnel on a simulated socket."""

    def __init__(self, auto_reconnect: bool = False) -> None:
        self.gateway = SimGateway()
        gateway = self.gateway

        async def fake_connect(transport: UDPTransport) -> None:
            transport.transport = Mock()

        def fake_send(transport: UDPTransport, frame: KNXIPFrame, addr=None) -> None:  # noqa: ANN001
            gateway.client_sent(frame)

        self._patches = [
            patch.object(UDPTransport, "connect", new=fake_connect),
            patch.object(UDPTransport, "send", new=fake_send),
            patch.object(UDPTransport, "getsockname", new=lambda _self: ("192.168.1.1", 12345)),
        ]
        for _patch in self._patches:
            _patch.start()
        self.tunnel = UDPTunnel(
            XKNX(),
            gateway_ip=GATEWAY[0],
            gateway_port=GATEWAY[1],
            local_ip="192.168.1.1",
            local_port=12345,
            cemi_received_callback=Mock(),
            auto_reconnect=auto_reconnect,
            auto_reconnect_wait=1,
        )
        self.gateway.tunnel = self.tunnel
        self.tasks: list[asyncio.Task[None]] = []

    def send(self, cemi: CEMIFrame) -> asyncio.Task[None]:
        task = asyncio.create_task(self.tunnel.send_cemi(cemi))
        self.tasks.append(task)
        return task

    async def close(self) -> None:
        for task in self.tasks:
            task.cancel()
        self.tunnel.stop_heartbeat()
        self.tunnel._stop_reconnect()
        await asyncio.gather(*self.tasks, return_exceptions=True)
        for _patch in self._patches:
            _patch.stop()


def succeeded(task: asyncio.Task[None]) -> bool:
    return task.done() and not task.cancelled() and task.exception() is None


async def test_ack_of_foreign_channel_confirms_frame() -> None:
    """Smallest input: the frame is lost, an ACK for another channel (same counter) arrives."""
    clock = Clock()
    harness = Harness()
    tunnel, gateway = harness.tunnel, harness.gateway
    try:
        await tunnel.connect()
        assert tunnel.communication_channel == 7

        task = harness.send(make_cemi(1))
        await clock(0)
        request = gateway.tunnelling_requests[-1]
        assert (request.communication_channel_id, request.sequence_counter) == (7, 0)
        # an ACK that belongs to another tunnel of the same gateway (channel 99)
        gateway.ack(99, 0)
        await clock(0)
        assert not succeeded(task), (
            "send_cemi() of the frame (communication_channel_id=7, sequence_counter=0) returned "
            "successfully after only a TunnellingAck with communication_channel_id=99 arrived; the "
            "frame was sent "
            f"{len(gateway.tunnelling_requests)}x and the gateway never acknowledged it on channel 7. "
            "C24 requires: a send succeeds only after an acknowledgement with the SAME CHANNEL ID, "
            "the same sequence counter and no error status has arrived."
        )
    finally:
        await harness.close()


async def test_late_ack_of_previous_connection_confirms_frame_after_reconnect() -> None:
    """
    History: ACKs of connection 7 are delayed beyond 2 x timeout -> reconnect -> channel 8.

    t=0.0  frame (ch 7, seq 0) sent; t=1.0 repeated; t=2.0 tunnel re-established as channel 8,
    the frame is sent a third time as (ch 8, seq 0) and is lost.
    t=2.5  the delayed ACK (ch 7, seq 0) of the old connection arrives (the tunnel uses a fixed
    local port, so the datagram reaches the new socket).
    """
    clock = Clock()
    harness = Harness(auto_reconnect=True)
    tunnel, gateway = harness.tunnel, harness.gateway
    try:
        await tunnel.connect()
        assert tunnel.communication_channel == 7

        task = harness.send(make_cemi(1))
        await clock(1.0)
        await clock(1.0)
        await clock(0)
        assert tunnel.communication_channel == 8, "tunnel was re-established"
        sent = [
            (r.communication_channel_id, r.sequence_counter)
            for r in gateway.tunnelling_requests
        ]
        assert sent == [(7, 0), (7, 0), (8, 0)]
        assert not task.done()

        await clock(0.5)
        gateway.ack(7, 0)  # late ACK of the connection that does not exist any more
        await clock(0)
        assert not succeeded(task), (
            "after the reconnect the frame was sent as (communication_channel_id=8, "
            "sequence_counter=0) and never acknowledged by the gateway; a late TunnellingAck of the "
            "previous connection (communication_channel_id=7, sequence_counter=0) arrived and "
            "send_cemi() returned successfully "
            f"(tunnel.sequence_number is now {tunnel.sequence_number}, frames sent: {sent}). "
            "C24 requires: a send succeeds only after an acknowledgement with the SAME CHANNEL ID."
        )
    finally:
        await harness.close()
