"""
Bounded exploration of gateway fault sequences against the real UDPTunnel (supporting tool).

usage: /venv/bin/python explore.py DEPTH SENDERS FRAMES_EACH [CANCEL_AFTER_SECONDS]
Every TunnellingRequest datagram number n < DEPTH gets one of the ACTIONS, all combinations are run.
Checked on the wire trace: per connection the counters start at 0 and advance by one, a
(channel, counter) pair is sent at most twice, exactly one request awaits an ACK when a
datagram is sent, a successful send_cemi() saw a matching error-free ACK, no sender hangs.
"""

from __future__ import annotations

import asyncio
import itertools
import logging
import re
import sys
from unittest.mock import Mock, patch

from hunt1 import GATEWAY, LOCAL, Clock, make_cemi
from xknx import XKNX
from xknx.exceptions import CommunicationError
from xknx.io import UDPTunnel
from xknx.io.transport.udp_transport import UDPTransport
from xknx.knxip import (
    HPAI,
    ConnectRequest,
    ConnectResponse,
    ConnectResponseData,
    DisconnectRequest,
    DisconnectResponse,
    ErrorCode,
    KNXIPFrame,
    KNXIPServiceType,
    TunnellingAck,
    TunnellingRequest,
)
from xknx.telegram import IndividualAddress

logging.disable(logging.CRITICAL)

CANCEL_AFTER = float(sys.argv[4]) if len(sys.argv) > 4 else 0
ACTIONS = ["OK", "LOST", "DELAY", "DUP", "ERR", "DISC", "ACKDISC"]


class GW:
    def __init__(self, tunnel, script):
        self.tunnel = tunnel
        self.script = list(script)
        self.next_channel = 1
        self.trace = []  # (time, kind, channel, seq)
        self.delivered_acks = []  # (time, channel, seq, status)
        self.n = 0
        self.violations = []

    async def connect(self):
        self.tunnel.transport.transport = Mock()

    def stop(self):
        self.tunnel.transport.transport = None

    def now(self):
        return asyncio.get_running_loop().time()

    def send(self, knxipframe, addr=None):
        if self.tunnel.transport.transport is None:
            raise CommunicationError("Transport not connected")
        frame, _ = KNXIPFrame.from_knx(knxipframe.to_knx())
        body = frame.body
        if isinstance(body, ConnectRequest):
            ch = self.next_channel
            self.next_channel += 1
            self.trace.append((self.now(), "CONNECT", ch, None))
            self.deliver(
                0.0,
                ConnectResponse(
                    communication_channel=ch,
                    data_endpoint=HPAI(*GATEWAY),
                    crd=ConnectResponseData(individual_address=IndividualAddress("1.1.250")),
                ),
            )
        elif isinstance(body, DisconnectRequest):
            self.trace.append((self.now(), "DISCONNECT", body.communication_channel_id, None))
            self.deliver(0.0, DisconnectResponse(communication_channel_id=body.communication_channel_id))
        elif isinstance(body, TunnellingRequest):
            pending = [
                cb
                for cb in self.tunnel.transport.callbacks
                if cb.service_types == [KNXIPServiceType.TUNNELLING_ACK]
            ]
            if len(pending) != 1:
                self.violations.append(f"{len(pending)} requests await an ACK")
            ch, seq = body.communication_channel_id, body.sequence_counter
            self.trace.append((self.now(), "TREQ", ch, seq))
            action = self.script[self.n] if self.n < len(self.script) else "OK"
            self.n += 1
            ack = TunnellingAck(ch, seq)
            if action == "OK":
                self.deliver(0.05, ack)
            elif action == "DELAY":
                self.deliver(1.2, ack)
            elif action == "DUP":
                self.deliver(0.05, ack)
                self.deliver(0.4, ack)
            elif action == "ERR":
                self.deliver(0.05, TunnellingAck(ch, seq, ErrorCode.E_SEQUENCE_NUMBER))
            elif action == "ACKDISC":
                self.deliver(0.05, ack)
                self.deliver(0.06, DisconnectRequest(communication_channel_id=ch, control_endpoint=HPAI(*GATEWAY)))
            elif action == "DISC":
                self.deliver(0.05, DisconnectRequest(communication_channel_id=ch, control_endpoint=HPAI(*GATEWAY)))

    def deliver(self, delay, body):
        raw = KNXIPFrame.init_from_body(body).to_knx()

        def _do():
            if isinstance(body, TunnellingAck):
                self.delivered_acks.append(
                    (self.now(), body.communication_channel_id, body.sequence_counter, body.status_code)
                )
            self.tunnel.transport.data_received_callback(raw, GATEWAY)

        asyncio.get_running_loop().call_later(delay, _do)


async def run(script, senders, frames_each):
    clock = Clock()
    xknx = XKNX()
    tunnel = UDPTunnel(
        xknx,
        gateway_ip=GATEWAY[0],
        gateway_port=GATEWAY[1],
        local_ip=LOCAL[0],
        cemi_received_callback=Mock(),
        auto_reconnect=True,
        auto_reconnect_wait=3,
    )
    gw = GW(tunnel, script)
    results = []  # (start, end, outcome, first_trace_index, last_trace_index)
    with (
        patch.object(UDPTransport, "connect", lambda self: gw.connect()),
        patch.object(UDPTransport, "stop", lambda self: gw.stop()),
        patch.object(UDPTransport, "send", lambda self, f, addr=None: gw.send(f, addr)),
        patch.object(UDPTransport, "getsockname", lambda self: LOCAL),
    ):
        t = asyncio.create_task(tunnel.connect())
        await clock.advance(0)
        await t

        orig = tunnel._tunnelling_request
        current = {}

        async def sender(k):
            for i in range(frames_each):
                start_idx = len(gw.trace)
                start = gw.now()
                try:
                    if CANCEL_AFTER and k == 0:
                        async with asyncio.timeout(CANCEL_AFTER):
                            await tunnel.send_cemi(make_cemi(k * 10 + i))
                    else:
                        await tunnel.send_cemi(make_cemi(k * 10 + i))
                    outcome = "ok"
                except TimeoutError:
                    outcome = "cancelled"
                except CommunicationError as err:
                    outcome = f"err:{err}"
                results.append((start, gw.now(), outcome, k, i))

        tasks = [asyncio.create_task(sender(k)) for k in range(senders)]
        for _ in range(400):
            await clock.advance(0.05)
            if all(t.done() for t in tasks):
                break
        for t in tasks:
            if not t.done():
                gw.violations.append("sender hung")
                t.cancel()
        tunnel.stop_heartbeat()
        tunnel._stop_reconnect()
        await clock.advance(0)
    return gw, results


def check(gw, results):
    v = list(gw.violations)
    # I1/I2 per channel
    per = {}
    for _, kind, ch, seq in gw.trace:
        if kind == "TREQ":
            per.setdefault(ch, []).append(seq)
    for ch, seqs in per.items():
        if seqs[0] != 0:
            v.append(f"channel {ch}: first frame carries {seqs[0]}: {seqs}")
        prev = seqs[0]
        count = 1
        for s in seqs[1:]:
            if s == prev:
                count += 1
                if count > 2:
                    v.append(f"channel {ch}: seq {s} sent {count} times: {seqs}")
            elif s == (prev + 1) & 0xFF:
                count = 1
            else:
                v.append(f"channel {ch}: jump {prev}->{s}: {seqs}")
                count = 1
            prev = s
    # I4: success needs a matching ack delivered within [start,end] for a frame sent in [start,end]
    for start, end, outcome, k, i in results:
        if outcome != "ok":
            continue
        sent = [(t, ch, seq) for t, kind, ch, seq in gw.trace if kind == "TREQ" and start <= t <= end]
        ok = any(
            (ach, aseq) == (ch, seq) and st == ErrorCode.E_NO_ERROR and t <= at <= end
            for t, ch, seq in sent
            for at, ach, aseq, st in gw.delivered_acks
        )
        if not ok:
            v.append(f"sender {k} frame {i} succeeded without own ACK; sent={sent}")
    return v


def main():
    depth = int(sys.argv[1]) if len(sys.argv) > 1 else 4
    senders = int(sys.argv[2]) if len(sys.argv) > 2 else 2
    frames = int(sys.argv[3]) if len(sys.argv) > 3 else 2
    kinds = {}
    total = 0
    for script in itertools.product(ACTIONS, repeat=depth):
        gw, results = asyncio.run(run(script, senders, frames))
        total += 1
        for viol in check(gw, results):
            key = re.sub(r"\d+", "N", viol.split(": [")[0].split(";")[0])
            if key not in kinds:
                kinds[key] = (script, viol, gw.trace, results)
    print("runs", total)
    for key, (script, viol, trace, results) in kinds.items():
        print("==", key)
        print("  script", script)
        print("  viol", viol)
        for t in trace:
            print("   ", t)
        for r in results:
            print("   R", r)


if __name__ == "__main__":
    main()
